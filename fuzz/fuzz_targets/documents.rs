//! C05 (documents front, coverage-guided): the first byte selects a decoder, the rest is the document.
//! Oracle: no panic while decoding, and none while writing every decoded value back in the same format
//! and as JSON (errors are fine - a crash is not).
#![no_main]
use jaq_all::data::{Ctx, Data, Filter, Runner};
use jaq_core::Vars;
use jaq_json::Val;
use jaq_std::input::RcIter;
use libfuzzer_sys::fuzz_target;

const READERS: &[&str] = &[
    "fromjson | tojson",
    "[fromyaml] | map(toyaml, tojson)",
    "[fromxml] | map(toxml, tojson)",
    "fromtoml | totoml, tojson",
    "[fromcbor] | map(tocbor, tojson)",
    "[fromcsv] | map(tocsv, tojson)",
    "[fromtsv] | map(totsv, tojson)",
    "[fromyaml] | map(tocbor | fromcbor | tojson)",
];

thread_local! {
    static FILTERS: Vec<Filter> = READERS.iter().map(|code| {
        jaq_all::compile_with(code, jaq_all::defs(), jaq_all::data::funs(), &[]).map_err(|_| ()).expect("reader filter compiles")
    }).collect();
}

fuzz_target!(|data: &[u8]| on_big_stack(data, one));

use std::sync::mpsc::{channel, Receiver, Sender};
use std::sync::{Mutex, OnceLock};

type Job = Vec<u8>;
type Res = Result<(), String>;

/// One long-lived worker thread with a 1 GiB stack: nesting as deep as an input is long must not
/// exhaust the stack (excepted by the property), and creating such a thread per input is slow.
fn on_big_stack(data: &[u8], f: fn(&[u8])) {
    static W: OnceLock<Mutex<(Sender<Job>, Receiver<Res>)>> = OnceLock::new();
    let w = W.get_or_init(|| {
        let (jtx, jrx) = channel::<Job>();
        let (rtx, rrx) = channel::<Res>();
        std::thread::Builder::new()
            .stack_size(1 << 30)
            .spawn(move || {
                while let Ok(job) = jrx.recv() {
                    let r = std::panic::catch_unwind(|| f(&job)).map_err(|p| {
                        p.downcast_ref::<String>().cloned().or_else(|| p.downcast_ref::<&str>().map(|s| s.to_string())).unwrap_or_else(|| "panic".into())
                    });
                    if rtx.send(r).is_err() {
                        break;
                    }
                }
            })
            .unwrap();
        Mutex::new((jtx, rrx))
    });
    let g = w.lock().unwrap();
    g.0.send(data.to_vec()).unwrap();
    if let Err(p) = g.1.recv().unwrap() {
        // the panic message was already printed by the panic hook of the worker; abort here so that libFuzzer keeps the input
        panic!("worker panicked: {p}");
    }
}

fn one(data: &[u8]) {
    let Some((sel, doc)) = data.split_first() else { return };
    let k = (*sel as usize) % READERS.len();
    // text decoders get the document as text string, CBOR as byte string
    let input = if k == 4 { Val::byte_str(doc.to_vec()) } else { Val::utf8_str(doc.to_vec()) };
    FILTERS.with(|fs| {
        let f = &fs[k];
        let runner = Runner::default();
        let inputs: Box<dyn Iterator<Item = Result<Val, String>>> = Box::new(core::iter::empty());
        let rc = RcIter::new(inputs);
        let data = Data { runner: &runner, lut: &f.lut, inputs: &rc };
        let ctx = Ctx::new(&data, Vars::new(Vec::new()));
        // at most 64 outputs: a document may hold many values
        for r in f.id.run((ctx, input)).take(64) {
            if r.is_err() {
                break;
            }
        }
    });
}
