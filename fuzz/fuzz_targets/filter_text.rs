//! C05 (filter text front, coverage-guided): any text is loaded and compiled, never executed.
//! Oracle: lexing, parsing, compiling and the rendering of the error reports do not panic.
//! (Compiled against the native filters only: loading the whole prelude for every input would cost
//! milliseconds; names of the prelude are then simply undefined, which exercises the error reports.)
#![no_main]
use libfuzzer_sys::fuzz_target;

fuzz_target!(|data: &[u8]| on_big_stack(data, one));

use std::sync::mpsc::{channel, Receiver, Sender};
use std::sync::{Mutex, OnceLock};

type Job = Vec<u8>;
type Res = Result<(), String>;

/// One long-lived worker thread with a 1 GiB stack: nesting as deep as an input is long must not
/// exhaust the stack (excepted by the property), and creating such a thread per input is slow.
fn on_big_stack(data: &[u8], f: fn(&[u8])) {
    static W: OnceLock<Mutex<(Sender<Job>, Receiver<Res>)>> = OnceLock::new();
    let w = W.get_or_init(|| {
        let (jtx, jrx) = channel::<Job>();
        let (rtx, rrx) = channel::<Res>();
        std::thread::Builder::new()
            .stack_size(1 << 30)
            .spawn(move || {
                while let Ok(job) = jrx.recv() {
                    let r = std::panic::catch_unwind(|| f(&job)).map_err(|p| {
                        p.downcast_ref::<String>().cloned().or_else(|| p.downcast_ref::<&str>().map(|s| s.to_string())).unwrap_or_else(|| "panic".into())
                    });
                    if rtx.send(r).is_err() {
                        break;
                    }
                }
            })
            .unwrap();
        Mutex::new((jtx, rrx))
    });
    let g = w.lock().unwrap();
    g.0.send(data.to_vec()).unwrap();
    if let Err(p) = g.1.recv().unwrap() {
        // the panic message was already printed by the panic hook of the worker; abort here so that libFuzzer keeps the input
        panic!("worker panicked: {p}");
    }
}

fn one(data: &[u8]) {
    let Ok(code) = core::str::from_utf8(data) else { return };
    if let Err(errs) = jaq_all::compile_with(code, core::iter::empty(), jaq_all::data::funs(), &["x".to_string()]) {
        for e in &errs {
            let _ = format!("{}", jaq_all::load::FileReportsDisp::new(e));
        }
    }
}
