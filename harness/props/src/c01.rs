//! C01 — compiled filters compute the manual's semantics.  Differential
//! testing of jaq (load -> compile -> run) against REF, the definitional
//! interpreter of vcore::refi, on generated programs x generated inputs and
//! on the manual's examples (plain and wrapped in binder contexts).

use jaq_json::Val;
use serde_json::json;
use vcore::gen::{self, Cfg};
use vcore::gprog;
use vcore::jq::{self, OutM};
use vcore::manual;
use vcore::mval::{eq_m, MVal};
use vcore::refrun::{self, ROut};
use vcore::runner::{fnv_str, CaseFail, CaseOk, CaseResult, Report};
use vcore::Src;

pub const SIG_SINGLE_INTERP: &str = "single-interpolation-in-path-position";
/// (signature, program, input) demonstrating each finding listed in known_findings.txt
pub const KNOWN_DEMOS: &[(&str, &str, &str)] = &[(SIG_SINGLE_INTERP, "[path(\"\\(.[]?)\")]", "null")];
pub const LIMIT: usize = 64;
pub const FUEL: u64 = 150_000;
pub const JAQ_TIMEOUT_MS: u64 = 10_000;

/// How two output streams differ, if they do.  `lenient_order` accepts
/// objects that are `==` but differ in key order (documented: a deleting
/// update may reorder the remaining entries).
pub fn compare(j: &[OutM], r: &[ROut], lenient_order: bool) -> Result<bool, String> {
    let mut lenient_used = false;
    for (i, (a, b)) in j.iter().zip(r.iter()).enumerate() {
        let same = match (a, b) {
            (OutM::Val(mx), ROut::Val(y)) | (OutM::Err(mx), ROut::Err(y)) => {
                let my = MVal::from_val(y);
                if mx.same(&my) {
                    true
                } else if lenient_order && refrun::order_sensitive_deletion() && !mx.contains_nan() && !my.contains_nan() && eq_m(&mx, &my) && format!("{mx:?}").len() == format!("{my:?}").len() {
                    lenient_used = true;
                    true
                } else {
                    false
                }
            }
            (OutM::Halt(x), ROut::Halt(y)) => x == y,
            _ => false,
        };
        if !same {
            // both evaluators refuse a value-constructing expression in path/update position; which of
            // the sub-expressions is blamed (and with which message) is not specified by the manual
            if let (OutM::Err(MVal::TStr(x)), ROut::Err(y)) = (a, b) {
                let y = MVal::from_val(y).show();
                let x = String::from_utf8_lossy(x);
                if lenient_order && (x.starts_with("invalid path expression") || y.starts_with("\"invalid path expression")) {
                    return Ok(true);
                }
            }
            return Err(format!("output #{i}: jaq {} vs reference {}", a.show(), b.show()));
        }
    }
    if j.len() != r.len() {
        return Err(format!(
            "jaq yields {} outputs, the reference {} (jaq: [{}] reference: [{}])",
            j.len(),
            r.len(),
            jq::show_outs_m(j).chars().take(300).collect::<String>(),
            r.iter().map(|o| o.show()).collect::<Vec<_>>().join(" ").chars().take(300).collect::<String>()
        ));
    }
    Ok(lenient_used)
}

pub fn has_update(text: &str) -> bool {
    ["|=", "=", "del(", "delpaths", "map_values", "walk(", "with_entries", "pick(", "setpath", "to_entries", "from_entries", "path(", "paths", "path_value"].iter().any(|s| text.contains(s))
}

pub fn input_pool() -> Vec<MVal> {
    let parse = |s: &str| MVal::from_val(&jaq_json::read::parse_single(s.as_bytes()).unwrap());
    [
        "null", "0", "1", "2", "\"a\"", "[1,2,3]", "[[1,2],[3,4]]", "{\"a\":1,\"b\":2}", "{\"a\":{\"b\":3},\"b\":[1,2]}", "[{\"a\":1},{\"a\":2,\"b\":3}]", "[]", "{}", "true",
        "{\"a\":[1,{\"b\":null}],\"k\":\"a\"}", "[0,\"a\",null,[1],{\"a\":false}]", "\"abc\"", "[null,false,1]", "{\"a\":null,\"b\":false}", "1.5", "[3,1,2,1]",
    ]
    .iter()
    .map(|s| parse(s))
    .collect()
}

pub fn gen_input(src: &mut Src) -> MVal {
    if src.chance(150) {
        src.pick(&input_pool()).clone()
    } else {
        gen::gen_val(src, &Cfg { nan: false, depth: 2, width: 3, str_pieces: 2, small_nums: true, ..Cfg::default() })
    }
}

pub fn check_text(text: &str, classes: &[&'static str], binders: usize, gvar: &MVal, input: &MVal, sample: bool) -> CaseResult {
    check_text_nt(text, classes, Some(binders), gvar, input, sample)
}

/// `binders`: Some(n) = C01's non-triviality rule (>= 2 binder kinds, an output, a name looked up);
/// None = non-trivial as soon as the run produced an output or an error.
pub fn check_text_nt(text: &str, classes: &[&'static str], binders: Option<usize>, gvar: &MVal, input: &MVal, sample: bool) -> CaseResult {
    let case = || json!({"program": text, "input": input.show(), "$g": gvar.show()});
    vcore::runner::note_case(|| format!("{} <- {} g={}", text, input.show(), gvar.show()));
    if std::env::var("VERIF_TRACE").is_ok() {
        eprintln!("TRACE {} <- {} g={}", text, input.show(), gvar.show());
    }
    let (r, lookups) = match refrun::run_ref(text, &[("$g", gvar.to_val())], input.to_val(), LIMIT, FUEL) {
        Some(r) => r,
        None => {
            // a generated program must parse; let jaq's verdict decide whose fault it is
            return match jq::compile(text, &["g"]) {
                Err(e) => Err(CaseFail::new("harness-generated-program-rejected", e, case())),
                Ok(_) => Err(CaseFail::new("harness-ref-parse", "jaq compiles it but the term parser rejects it", case())),
            };
        }
    };
    if let Some(x) = r.iter().find(|o| o.inconclusive()) {
        let c: &'static str = match x {
            ROut::Fuel => "discarded-out-of-fuel",
            ROut::Unsupported(s) if s.starts_with("known-finding:") => {
                vcore::refi::EXCLUDED_KNOWN.fetch_add(1, std::sync::atomic::Ordering::Relaxed);
                "excluded-known-finding"
            }
            _ => "discarded-outside-reference-domain",
        };
        return Ok(CaseOk::trivial().class(c).desc(if sample { Some(json!({"program": text, "discarded": x.show()})) } else { None }));
    }
    let j = match jq::run_isolated(text, &[("g", gvar)], input, &[], LIMIT, JAQ_TIMEOUT_MS) {
        jq::Iso::CompileError(e) => return Err(CaseFail::new("well-scoped-program-does-not-compile", e, case())),
        // jaq evaluates some single-output sub-filters when it builds its iterators, so it may
        // diverge in a part the reference never reaches (e.g. the `xs` of a fold whose `init`
        // fails); divergence is not observable in bounded time: discarded and counted
        jq::Iso::Timeout => return Ok(CaseOk::trivial().class("discarded-jaq-run-exceeds-time-limit").desc(Some(json!({"program": text, "input": input.show(), "discarded": "jaq run exceeds time limit"})))),
        jq::Iso::Outs(o) => o,
    };
    if let Some(OutM::Panic(p)) = j.last() {
        return Err(CaseFail::new(format!("panic:{}", jq::panic_sig(p)), p.clone(), case()));
    }
    let lenient = has_update(text);
    let deleted = refrun::order_sensitive_deletion();
    let lenient_used = match compare(&j, &r, lenient) {
        Ok(l) => l,
        // after deleting an entry from an object the order of the remaining entries is unspecified;
        // whatever iterates over that object afterwards (recursion, .[], errors naming a value) may
        // legitimately differ: not comparable
        Err(_) if deleted => return Ok(CaseOk::trivial().class("discarded-order-after-deleting-update-unspecified")),
        Err(msg) => {
            let sig = if r.iter().any(|o| matches!(o, ROut::Break)) || j.iter().any(|o| matches!(o, OutM::Escape(_))) { "escaped-break" } else { "output-differs" };
            return Err(CaseFail::new(sig, msg, case()));
        }
    };
    let produced = !j.is_empty();
    let nontrivial = match binders {
        Some(b) => b >= 2 && produced && lookups > 0,
        None => produced,
    };
    let mut ok = CaseOk::new(nontrivial, fnv_str(&[text, &input.show(), &gvar.show()])).classes(classes);
    if lenient_used {
        ok = ok.class("equal-up-to-key-order-after-update");
    }
    ok = ok.class(match j.last() {
        None => "no-output",
        Some(OutM::Err(_)) => "ends-with-error",
        _ => "values-only",
    });
    if sample {
        ok = ok.desc(Some(json!({"program": text, "input": input.show(), "outputs": jq::show_outs_m(&j).chars().take(200).collect::<String>()})));
    }
    Ok(ok)
}

/// Recursive calls in every kind of position: the compiler decides per call whether it may be run as a
/// tail call; a call that is wrongly treated as one (or wrongly not) computes something else as soon as
/// the position is not a tail position. Contexts are stacked two deep around the recursive call.
const REC_CTX: &[&str] = &[
    "X", "(X // \"alt\")", "(\"pre\", X)", "(X, \"post\")", "(X | [.])", "[X]", "first(X)", "(try X catch \"caught\")", "(X as $v | [$v])", "(if X then 1 else 2 end)", "(X + 1)?", "{a: X}", "reduce X as $v (0; . + 1)",
    "foreach X as $v (0; . + 1; [$v, .])", "limit(2; X)", "(X)?", "(label $l | X, break $l, 5)", "isempty(X)", "(null // X)", "(X // empty)", "(. as $v | X)", "(false, X | not)", "[limit(3; X)]", "(def loc: X; loc, 7)", "last(X)", "(X | select(. != null))", "(1 as $x | 2 as $y | X)", "[.[]?, X]",
];
const REC_BASE: &[&str] = &["empty", "null", "false", ".", "(., null)", "error(\"e\")", "(null, 1)", "[.]"];

fn recursion_contexts(i: u64, sample: bool) -> CaseResult {
    let n = REC_CTX.len() as u64;
    let (outer, inner, base, shape) = ((i % n) as usize, ((i / n) % n) as usize, ((i / (n * n)) % REC_BASE.len() as u64) as usize, (i / (n * n * REC_BASE.len() as u64)) as usize);
    let call = "(. + 1 | f)";
    let wrapped = REC_CTX[outer].replace('X', &REC_CTX[inner].replace('X', call));
    let base = REC_BASE[base];
    let text = match shape {
        // direct recursion
        0 => format!("def f: if . >= 2 then {base} else {wrapped} end; f"),
        // through a nested definition that calls back into its parent
        1 => format!("def f: def g: {wrapped}; if . >= 2 then {base} else g end; f"),
        // the recursive call is passed as a filter argument and run by the callee
        _ => format!("def ap(h): h; def f: if . >= 2 then {base} else {} end; f", REC_CTX[outer].replace('X', &format!("ap({})", REC_CTX[inner].replace('X', call)))),
    };
    check_text_nt(&text, &["recursive-call-in-context"], None, &MVal::Null, &MVal::from_val(&jaq_json::Val::from(0isize)), sample).map(|ok| CaseOk { nontrivial: true, ..ok })
}

fn check_generated(src: &mut Src, max_depth: usize) -> CaseResult {
    let gvar = gen_input(src);
    let input = gen_input(src);
    let (text, classes, binders, _nodes) = gprog::program(src, gprog::Cfg::core(max_depth), &["$g"]);
    let sample = src.sample;
    check_text(&text, &classes, binders, &gvar, &input, sample)
}

pub const WRAPPERS: &[&str] = &[
    "E", "first(E)", "[E]", "try (E) catch .", "label $l | E", "def f: E; f", "(E) as $x | $x", "[limit(3; E)]", ". as $x | E", "def f(a): a; f(E)",
    "reduce (E) as $x (null; $x)", "[foreach (E) as $x (0; .+1; [., $x])]", "def f($a): $a; f(E)", "label $l | (E), break $l", "[path(E)?]", "(E) // \"alt\"",
    "[.[]?] | (E)", "def g: def f: E; f; g", "{a: (E)}", "\"s\\(E)\"", "isempty(E)", "[E] | length", "try error(E) catch .", "if (E) then 1 else 0 end",
];

fn wrap(ex: &str, w: &str) -> String {
    w.replace('E', &format!("({ex})"))
}

fn check_manual(ex: &manual::Example, wi: usize, sample: bool) -> CaseResult {
    let case = || json!({"file": ex.file, "line": ex.line, "filter": ex.filter, "documented": ex.outputs, "wrapper": WRAPPERS[wi]});
    let text = wrap(&ex.filter, WRAPPERS[wi]);
    // the example itself must yield what the manual documents
    if wi == 0 {
        let want: Vec<Val> = match jaq_json::read::parse_many(ex.outputs.as_bytes()).collect::<Result<Vec<_>, _>>() {
            Ok(w) => w,
            Err(_) => return Ok(CaseOk::trivial().class("documented-output-not-xjon")),
        };
        match jq::eval(&ex.filter, &[], Val::Null, 500) {
            Err(_) => return Ok(CaseOk::trivial().class("example-is-not-a-complete-filter")),
            Ok(outs) => {
                let got: Vec<String> = outs.iter().map(|o| o.show()).collect();
                let want: Vec<String> = want.iter().map(|v| format!("{v}")).collect();
                if got != want && !ex.filter.contains("fromxml") {
                    return Err(CaseFail::new("manual-example-output", format!("jaq yields {:?}", got), case()));
                }
            }
        }
    }
    let (r, _) = match refrun::run_ref(&text, &[], Val::Null, 200, 2_000_000) {
        Some(r) => r,
        None => return Ok(CaseOk::trivial().class("example-is-not-a-complete-filter")),
    };
    if r.iter().any(|o| o.inconclusive()) {
        return Ok(CaseOk::trivial().class("discarded-outside-reference-domain"));
    }
    // filters whose result depends on the environment are out of scope
    if ["now", "$ENV", "env", "input", "localtime", "strflocaltime", "$__loc__", "halt", "debug", "stderr", "repl"].iter().any(|k| text.contains(k)) {
        return Ok(CaseOk::trivial().class("environment-dependent"));
    }
    let j: Vec<OutM> = match jq::eval(&text, &[], Val::Null, 200) {
        Ok(j) => j.iter().map(OutM::from_out).collect(),
        Err(e) => return Err(CaseFail::new("wrapped-example-does-not-compile", e, case())),
    };
    if let Err(msg) = compare(&j, &r, has_update(&text)) {
        return Err(CaseFail::new("manual-example-differs", msg, case()));
    }
    let mut ok = CaseOk::new(true, fnv_str(&[&text]));
    if sample {
        ok = ok.desc(Some(json!({"program": text, "outputs": jq::show_outs_m(&j).chars().take(160).collect::<String>()})));
    }
    Ok(ok)
}

pub fn run(mut rep: Report) -> ! {
    rep.set_rule(
        "programs from a scope- and arity-aware grammar (pipes, commas, all operators, variable and destructuring bindings with computed keys, label/break, if/elif, try/catch, reduce/foreach with patterns and projections, nested/sibling/recursive definitions with filter and variable parameters, closures, compound paths, updates, interpolation, object construction, ~60 library filters; names from tiny pools so that shadowing and capture across definition boundaries are frequent) x inputs from the value generator x one global variable; \
         jaq's output prefix (<= 64 outputs incl. the terminating error) must equal that of the definitional interpreter REF; plus every `-->` example of the manual, plain (must yield the documented outputs) and wrapped in 23 binder contexts; \
         non-trivial = the program uses >= 2 kinds of binders, produced at least one output or error, and a bound name was looked up during the reference run; distinct by (program text, input, global)",
    );
    rep.assume("REF shares lexer/parser and value-level primitives (Val arithmetic, indexing, ordering, natives whose arguments are all values) with jaq; programs on which REF runs out of fuel or leaves its documented domain (non-integer counts for limit/skip, module calls) are discarded and counted, never reported");
    rep.assume("errors raised by the left operand of `//` propagate (the manual is silent; observed behaviour); after a deleting update objects are compared with == (key order unspecified)");
    vcore::refi::KNOWN_SINGLE_INTERP.store(rep.is_known(SIG_SINGLE_INTERP), std::sync::atomic::Ordering::SeqCst);
    // demonstrations of the listed findings (strict: REF models the manual)
    rep.fixed("known-findings", KNOWN_DEMOS.len(), |i| {
        let (sig, prog, input) = KNOWN_DEMOS[i];
        vcore::refi::KNOWN_SINGLE_INTERP.store(false, std::sync::atomic::Ordering::SeqCst);
        let inp = MVal::from_val(&jaq_json::read::parse_single(input.as_bytes()).unwrap());
        let r = check_text(prog, &[], 2, &MVal::Null, &inp, true);
        vcore::refi::KNOWN_SINGLE_INTERP.store(true, std::sync::atomic::Ordering::SeqCst);
        match r {
            Err(mut f) => {
                f.sig = sig.to_string();
                Err(f)
            }
            // the finding no longer reproduces: fine (e.g. repaired)
            Ok(ok) => Ok(ok.class("listed-finding-does-not-reproduce")),
        }
    });
    vcore::refi::KNOWN_SINGLE_INTERP.store(rep.is_known(SIG_SINGLE_INTERP), std::sync::atomic::Ordering::SeqCst);
    let exs = manual::examples();
    rep.extra("manual_examples", json!(exs.len()));
    let nw = WRAPPERS.len() as u64;
    {
        let exs = &exs;
        rep.exhaustive("manual-examples", exs.len() as u64 * nw, move |i, s| check_manual(&exs[(i / nw) as usize], (i % nw) as usize, s));
    }
    {
        let total = (REC_CTX.len() * REC_CTX.len() * REC_BASE.len() * 3) as u64;
        let stride = if rep.quick() { 2 } else { 1 };
        rep.indexed("recursive-calls-in-contexts", total, stride, !rep.quick(), recursion_contexts);
    }
    let n = rep.n(200_000, 6_000_000);
    rep.random("generated-small", n / 2, 48, |src| check_generated(src, 3));
    rep.random("generated-medium", n / 2, 160, |src| check_generated(src, 5));
    if !rep.quick() {
        rep.random("generated-large", 500_000, 400, |src| check_generated(src, 7));
    }
    rep.extra("excluded_known_in_reference", json!(vcore::refi::EXCLUDED_KNOWN.load(std::sync::atomic::Ordering::Relaxed)));
    rep.extra("jaq_runs_abandoned_after_time_limit", json!(jq::abandoned_runs()));
    rep.finish()
}
