//! C02 — `path(f)`, `getpath` and updates agree on the positions a filter denotes.
//!
//! (a) differential against REF's independent path and update evaluators
//!     (transcriptions of the two tables of docs/advanced.dj and of
//!     iter_upd / index_upd / slice_upd), on path expressions from a
//!     dedicated grammar x update filters with 0/1/2 outputs x inputs;
//! (b) the in-language laws of the manual (jaq against itself through its
//!     three evaluators: values, paths, updates), one obligation per law;
//! (c) the same, exhaustively over a small scope: every path expression of
//!     depth <= 2 over a 25-atom alphabet x every JSON tree up to 4 nodes.

use crate::c01;
use serde_json::json;
use vcore::gen::{self, Cfg};
use vcore::gprog::{self, Gen, Scope};
use vcore::laws::{self, Cmp, Verdict};
use vcore::mval::{int, tstr, MVal};
use vcore::runner::{fnv_str, CaseFail, CaseOk, CaseResult, Report};
use vcore::Src;

const UPDATES: &[&str] = &["empty", ".", "1", "(., .)", "(1, 2)", "error(\"u\")", ". + 1", "[.]", "select(. != null)", "$g", "tostring", "null", ".[0]?", "{a: .}", "first(empty, .)", "if . == null then empty else . end"];
const VALUES: &[&str] = &["1", "(1, 2)", "empty", "$g", "error(\"g\")", ".", "length?", "null", "[1]", "\"s\"", "(null, 1)", "{a: 1}"];
const ASSIGN_OPS: &[&str] = &["=", "+=", "-=", "*=", "/=", "%=", "//="];

fn gen_input(src: &mut Src) -> MVal {
    if src.chance(140) {
        let parse = |s: &str| MVal::from_val(&jaq_json::read::parse_single(s.as_bytes()).unwrap());
        parse(*src.pick(&[
            "null", "0", "\"abc\"", "[1,2,3]", "[[1,2],[3,4]]", "{\"a\":1,\"b\":2}", "{\"a\":{\"b\":3},\"b\":[1,2]}", "[{\"a\":1},{\"a\":2,\"b\":3}]", "[]", "{}", "{\"a\":null,\"b\":false}",
            "{\"a\":[1,{\"b\":null}],\"b\":\"a\"}", "[0,\"a\",null,[1],{\"a\":false}]", "[null,false,1]", "{\"a\":[],\"b\":{}}", "[[],[[]]]", "{\"b\":1,\"a\":{\"a\":{\"a\":0}}}", "true",
        ]))
    } else {
        gen::gen_val(src, &Cfg { nan: false, depth: 3, width: 3, str_pieces: 2, small_nums: true, nonstring_keys: true, ..Cfg::default() })
    }
}

fn gen_path(src: &mut Src, depth: usize) -> (String, Vec<&'static str>) {
    let mut g = Gen::new(src, gprog::Cfg::core(depth));
    let mut sc = Scope::default();
    sc.vars.push("$g".into());
    let p = g.path(&sc, depth);
    (p, g.classes.iter().copied().collect())
}

/// (a) programs around a generated path expression, compared with REF
fn ref_differential(src: &mut Src) -> CaseResult {
    let which = src.below(14);
    let g = gen_input(src);
    let input = gen_input(src);
    let depth = 1 + src.below(3);
    let (p, mut classes) = gen_path(src, depth);
    let (q, _) = gen_path(src, 1);
    let u = src.pick(UPDATES).to_string();
    let v = src.pick(VALUES).to_string();
    let op = src.pick(ASSIGN_OPS).to_string();
    let (name, prog): (&'static str, String) = match which {
        0 => ("path", format!("path({p})")),
        1 => ("update", format!("({p}) |= ({u})")),
        2 => ("update", format!("({p}) |= ({u})")),
        3 => ("assign-op", format!("({p}) {op} ({v})")),
        4 => ("path_value", format!("path_value({p})")),
        5 => ("del", format!("del({p})")),
        6 => ("getpath-of-path", format!("[getpath(path({p}))]")),
        7 => ("update-of-pipe", format!("(({p}) | ({q})) |= ({u})")),
        8 => ("update-of-comma", format!("(({p}), ({q})) |= ({u})")),
        9 => ("update-of-alt", format!("(({p}) // ({q})) |= ({u})")),
        10 => ("pick", format!("pick({p})")),
        11 => ("paths-of", format!("[paths(({q}) | . != null)]")),
        12 => ("update-optional", format!("({p})? |= ({u})")),
        _ => ("nested-update", format!("({p}) |= (({q}) |= ({u}))")),
    };
    classes.push(name);
    c01::check_text_nt(&prog, &classes, None, &g, &input, src.sample)
}

/// value-constructing expressions: `path(C)` and `C |= u` must fail, never yield a path / a result
const CONSTRUCTORS: &[&str] = &["1", "\"s\"", "[.]", "{a: .}", ". + 1", "$g", "tostring", "(. = 1)", "(.a |= 1)", "-(.)", ". == 1", ". and .", "[]", "{}", "\"a\\(.)b\"", "length", "not", "null", "@json", "ltrimstr(\"a\")", "tojson", "(.[0]? + 1)"];

fn laws_check(src: &mut Src) -> CaseResult {
    let which = src.below(22);
    let g = gen_input(src);
    let input = gen_input(src);
    let depth = 1 + src.below(3);
    let (p, classes) = gen_path(src, depth);
    let (q, _) = gen_path(src, 1);
    let u = src.pick(UPDATES).to_string();
    let v = src.pick(VALUES).to_string();
    let c = src.pick(CONSTRUCTORS).to_string();
    let sample = src.sample;
    // `recurse(f) |= u` updates from the root downwards: an update that puts a container in place of a
    // value makes it descend forever (documented). Both sides would diverge; not generated.
    let (u, v) = if p.contains("recurse(") || q.contains("recurse(") { (src.pick(&["empty", ".", "1", "(1, 2)", "error(\"u\")", "tostring", "null"]).to_string(), "1".to_string()) } else { (u, v) };
    // the laws are stated for path expressions with finitely many outputs: `recurse(.a?)` on null, say,
    // never ends; the reference interpreter (with its step budget) decides which are generated
    for e in [&p, &q] {
        match vcore::refrun::run_ref(&format!("[path({e})] | length"), &[("$g", g.to_val())], input.to_val(), 4, 60_000) {
            Some((r, _)) if !r.iter().any(|o| o.inconclusive()) => {}
            _ => return Ok(CaseOk::trivial().class("discarded-path-expression-does-not-terminate-within-budget")),
        }
    }
    // (name, lhs, rhs, comparison, compare error payloads)
    let (name, lhs, rhs, cmp, payload): (&'static str, String, String, Cmp, bool) = match which {
        0 => ("getpath-of-path-reproduces-p", format!("getpath(path({p}))"), p.clone(), Cmp::Same, true),
        1 => ("path_value-is-path-and-getpath", format!("path_value({p})"), format!("path({p}) as $q | [$q, getpath($q)]"), Cmp::Same, true),
        2 => ("paths-is-skip-1-path-dotdot", "[paths]".into(), "[skip(1; path(..))]".into(), Cmp::Same, true),
        3 => ("path-iter-is-keys_unsorted-is-to_entries", "[path(.[])[]]".into(), "keys_unsorted".into(), Cmp::Same, false),
        4 => ("keys_unsorted-is-to_entries-keys", "keys_unsorted".into(), "to_entries | map(.key)".into(), Cmp::Same, false),
        5 => {
            let pr = *src.pick(&["isnumber", ". != null", "type == \"array\"", "(., true)", "empty", "error(\"p\")", "(length? // 0) > 0", "false", "(false, true)", ".a?", "isobject"]);
            ("paths-p-definition", format!("[paths({pr})]"), format!("[paths as $path | if getpath($path) | ({pr}) then $path else empty end]"), Cmp::Same, true)
        }
        6 => ("del-is-update-empty", format!("del({p})"), format!("({p}) |= empty"), Cmp::Same, true),
        7 => ("delpaths-is-sequential", format!("delpaths([path({p})])"), format!("[path({p})] as $ps | reduce $ps[] as $q (.; del(getpath($q)))"), Cmp::Same, true),
        8 => ("setpath-is-getpath-assign", format!("[first(path({p}))] as [$q] | if $q == null then . else setpath($q; {}) end", "$g"), format!("[first(path({p}))] as [$q] | if $q == null then . else getpath($q) = $g end"), Cmp::Same, true),
        // pick is documented for paths to objects only (with array positions `*` is not associative)
        9 => ("pick-of-comma-is-product", format!("([path(({p}), ({q}))] | all(.[][]; isstring)) as $ok | if $ok then pick(({p}), ({q})) else \"skip\" end"), format!("([path(({p}), ({q}))] | all(.[][]; isstring)) as $ok | if $ok then pick({p}) * pick({q}) else \"skip\" end"), Cmp::Same, false),
        10 => ("update-of-pipe", format!("(({p}) | ({q})) |= ({u})"), format!("({p}) |= (({q}) |= ({u}))"), Cmp::Same, true),
        11 => ("update-of-comma", format!("(({p}), ({q})) |= ({u})"), format!("(({p}) |= ({u})) | (({q}) |= ({u}))"), Cmp::Same, true),
        12 => ("update-of-empty-is-identity", format!("empty |= ({u})"), ".".into(), Cmp::Same, true),
        13 => ("update-of-alt", format!("(({p}) // ({q})) |= ({u})"), format!("(if first(({p}) // false) then ({p}) else ({q}) end) |= ({u})"), Cmp::Same, true),
        14 => ("path-of-alt", format!("path(({p}) // ({q}))"), format!("path(if first(({p}) // false) then ({p}) else ({q}) end)"), Cmp::Same, true),
        15 => ("assign-is-update-with-bound-value", format!("({p}) = ({v})"), format!("({v}) as $x | ({p}) |= $x"), Cmp::Same, true),
        16 => {
            let op = *src.pick(&["+", "-", "*", "/", "%"]);
            ("arithmetic-assign-desugaring", format!("({p}) {op}= ({v})"), format!("({v}) as $x | ({p}) |= . {op} $x"), Cmp::Same, true)
        }
        17 => ("alt-assign-desugaring", format!("({p}) //= ({v})"), format!("({v}) as $x | ({p}) |= (. // $x)"), Cmp::Same, true),
        18 => ("path-of-constructor-fails", format!("[path({c})] | \"yielded a path\""), format!("{c} | error(\"not a path expression\")"), Cmp::Same, false),
        19 => ("update-of-constructor-fails", format!("(({c}) |= ({u})) | \"yielded a result\""), format!("{c} | error(\"not a path expression\")"), Cmp::Same, false),
        20 => ("update-of-binding", format!("((0, \"a\", 1) as $i | .[$i]?) |= ({u})"), format!("(.[0]? |= ({u})) | (.[\"a\"]? |= ({u})) | (.[1]? |= ({u}))"), Cmp::Same, true),
        _ => ("update-of-if", format!("(if ({q} | . != null) then ({p}) else . end) |= ({u})"), format!("reduce ({q} | . != null) as $c (.; if $c then ({p}) |= ({u}) else . |= ({u}) end)"), Cmp::Same, true),
    };
    // the constructor laws: the left side must fail; `C | error` on the right fails as well (or yields nothing when C does)
    let vars: Vec<(&str, &MVal)> = vec![("g", &g)];
    let case = || json!({"law": name, "lhs": lhs, "rhs": rhs, "input": input.show(), "$g": g.show()});
    vcore::runner::note_case(|| format!("{name}: {lhs} == {rhs} <- {}", input.show()));
    if which == 18 || which == 19 {
        // only the left side matters: it must not yield its marker
        return match laws::run_side(&lhs, &vars, &input) {
            laws::Side::Outs(o) => {
                if o.iter().any(|x| matches!(x, vcore::jq::OutM::Val(_))) {
                    Err(CaseFail::new(name, format!("a value-constructing expression was accepted: {}", vcore::jq::show_outs_m(&o)), case()))
                } else {
                    let failed = laws::ends_abnormally(&o);
                    Ok(CaseOk::new(failed, fnv_str(&[name, &lhs, &input.show()])).class(name).class(if failed { "refused-with-error" } else { "no-output-at-all" }).desc(if sample { Some(case()) } else { None }))
                }
            }
            laws::Side::NoCompile(e) => Err(CaseFail::new("harness-law-does-not-compile", e, case())),
            laws::Side::Timeout => Ok(CaseOk::trivial().class("discarded-time-limit")),
        };
    }
    if which == 0 && p.contains("//") {
        // path(f // g) is path(if first(f // false) then f else g end): the paths of *all* outputs of f,
        // false ones included - so getpath(path(p)) reproduces p only for alternation-free p (the rule
        // itself is the law `path-of-alt`)
        return Ok(CaseOk::trivial().class("skipped-alternation-in-getpath-law"));
    }
    match laws::equation(&lhs, &rhs, &vars, &input, cmp, payload) {
        Verdict::Inconclusive => Ok(CaseOk::trivial().class("discarded-time-limit")),
        Verdict::Differ(m) => Err(CaseFail::new(name, m, case())),
        Verdict::Agree(outs) => {
            let nt = !outs.is_empty();
            let mut ok = CaseOk::new(nt, fnv_str(&[name, &lhs, &input.show(), &g.show()])).class(name).classes(&classes);
            if laws::ends_abnormally(&outs) {
                ok = ok.class("ends-with-error");
            }
            if sample {
                ok = ok.desc(Some(json!({"law": name, "lhs": lhs, "rhs": rhs, "input": input.show(), "outputs": vcore::jq::show_outs_m(&outs).chars().take(160).collect::<String>()})));
            }
            Ok(ok)
        }
    }
}

// ---------------------------------------------------------------- (c) small scope, exhaustive

const ATOMS: &[&str] = &[
    ".", "..", ".[]", ".[]?", ".a", ".a?", ".b", ".[0]", ".[0]?", ".[-1]", ".[1:]", ".[:1]", ".[0:1]?", "empty", "error", "error(\"x\")", "getpath([\"a\"])", "getpath([0])", "select(. == null)", "select(.)", "recurse",
    "first(.[]?)", "last(.[]?)", "limit(1; .[]?)", "skip(1; .[]?)",
];
const CONDS: &[&str] = &[".", "(true, false)", "empty"];
const BINDS: &[&str] = &["0", "\"a\"", "(0, \"a\")", "empty"];
const SMALL_UPDATES: &[&str] = &["empty", ".", "1", "(., .)", "(1, 2)", "error(\"u\")", "[.]", "select(. != null)", "first(empty, .)"];

/// all path expressions of depth <= 2
fn small_exprs() -> Vec<String> {
    let mut v: Vec<String> = ATOMS.iter().map(|s| s.to_string()).collect();
    for a in ATOMS {
        v.push(format!("({a})?"));
        for b in ATOMS {
            v.push(format!("({a} | {b})"));
            v.push(format!("({a}, {b})"));
            v.push(format!("({a} // {b})"));
            for c in CONDS {
                v.push(format!("if {c} then {a} else {b} end"));
            }
        }
        for x in BINDS {
            v.push(format!("({x} as $v | {a})"));
            v.push(format!("reduce {x} as $v (.; {a})"));
            v.push(format!("foreach {x} as $v (.; {a})"));
        }
    }
    for x in BINDS {
        for body in [".[$v]", ".[$v]?", ".[$v:]?", "getpath([$v])"] {
            v.push(format!("({x} as $v | {body})"));
            v.push(format!("reduce {x} as $v (.; {body})"));
            v.push(format!("foreach {x} as $v (.; {body}; .[]?)"));
        }
    }
    v
}

fn small_inputs() -> Vec<MVal> {
    gen::enum_trees(&[MVal::Null, int(0), tstr("a")], &[tstr("a"), tstr("b")], 4)
}

/// One case = one program (expression x obligation kind: 0 = path vs REF, 1 = getpath(path) law,
/// 2.. = update vs REF) on *all* inputs, so that the program is compiled once.
fn small_case(exprs: &[String], inputs: &[MVal], k: u64, sample: bool) -> CaseResult {
    let nk = 2 + SMALL_UPDATES.len() as u64;
    let e = &exprs[(k / nk) as usize];
    let kind = k % nk;
    let mut keys = Vec::new();
    let mut classes: std::collections::BTreeSet<&'static str> = std::collections::BTreeSet::new();
    let mut desc = None;
    for (ii, input) in inputs.iter().enumerate() {
        let s = sample && ii == 7;
        let r = match kind {
            0 => c01::check_text_nt(&format!("path({e})"), &["small-path"], None, &MVal::Null, input, s),
            1 if e.contains("//") => Ok(CaseOk::trivial().class("skipped-alternation-in-getpath-law")),
            1 => {
                let (lhs, rhs) = (format!("getpath(path({e}))"), e.clone());
                match laws::equation(&lhs, &rhs, &[("g", &MVal::Null)], input, Cmp::Same, true) {
                    Verdict::Inconclusive => Ok(CaseOk::trivial().class("discarded-time-limit")),
                    Verdict::Differ(m) => Err(CaseFail::new("small-getpath-of-path-reproduces-p", m, json!({"lhs": lhs, "rhs": rhs, "input": input.show()}))),
                    Verdict::Agree(o) => Ok(CaseOk::new(!o.is_empty(), fnv_str(&[&lhs, &input.show()])).class("small-getpath-law").desc(if s { Some(json!({"lhs": lhs, "rhs": rhs, "input": input.show()})) } else { None })),
                }
            }
            _ => {
                let u = SMALL_UPDATES[(kind - 2) as usize];
                c01::check_text_nt(&format!("({e}) |= ({u})"), &["small-update"], None, &MVal::Null, input, s)
            }
        }?;
        if r.nontrivial {
            keys.push(r.key);
        }
        classes.extend(r.classes.iter().copied());
        if r.desc.is_some() {
            desc = r.desc;
        }
    }
    let cl: Vec<&'static str> = classes.into_iter().collect();
    Ok(CaseOk::new(false, 0).classes(&cl).desc(desc).bundle(inputs.len() as u64, keys))
}

pub fn run(mut rep: Report) -> ! {
    rep.set_rule(
        "path expressions from a dedicated grammar (., .., .[], .a, .[i], slices, ?-variants, empty, error, getpath, select, recurse, first/last/limit/skip, pipes, commas, //, ?, variable bindings, if, reduce/foreach, filter arguments; depth <= 3) x update filters with 0/1/2 outputs and errors x assignment operators with 0/1/2-valued right-hand sides x inputs from the value generator (non-string keys included): \
         (a) path(p), path_value(p), p |= u, p op= v, del, pick, paths(f), nested and optional updates compared with REF's independent path and update evaluators; \
         (b) 22 laws of the manual evaluated by jaq on both sides (getpath(path(p)) = p, path_value, paths, keys_unsorted, del, delpaths, setpath, pick, the reduction rules for |, ,, //, if, bindings, empty, the desugarings of = and op=, and refusal of value-constructing expressions); \
         (c) exhaustively, every path expression of depth <= 2 over a 25-atom alphabet x every JSON tree with <= 4 nodes over {null, 0, \"a\"} and keys {a, b} x {path vs REF, getpath(path) law, 9 updates vs REF}; \
         non-trivial = the run yields at least one output or an error (for refusal laws: the expression was refused with an error); distinct by (obligation, program, input)",
    );
    rep.assume("REF's path and update evaluators transcribe the tables of docs/advanced.dj; value-level primitives (index, range, map over containers) are shared with jaq and modelled independently in C10");
    rep.assume("after a deleting update, objects are compared with == (key order unspecified); when both sides refuse a value-constructing expression the error payload is not compared");
    vcore::refi::KNOWN_SINGLE_INTERP.store(rep.is_known(c01::SIG_SINGLE_INTERP) || rep.env.known.has("C01", c01::SIG_SINGLE_INTERP), std::sync::atomic::Ordering::SeqCst);
    let n = rep.n(40_000, 3_000_000);
    rep.random("ref-differential", n, 160, ref_differential);
    rep.random("laws", n * 5 / 8, 160, laws_check);
    let exprs = small_exprs();
    let inputs = small_inputs();
    let nk = 2 + SMALL_UPDATES.len() as u64;
    let total = exprs.len() as u64 * nk;
    rep.extra("small_scope_expressions", json!(exprs.len()));
    rep.extra("small_scope_inputs", json!(inputs.len()));
    {
        let (exprs, inputs) = (&exprs, &inputs);
        // quick: every 97th program (offset by the seed), each on all inputs; thorough: all programs
        let stride = if rep.quick() { 23 } else { 1 };
        rep.indexed("small-scope", total, stride, true, move |k, s| small_case(exprs, inputs, k, s));
    }
    rep.extra("excluded_known_in_reference", json!(vcore::refi::EXCLUDED_KNOWN.load(std::sync::atomic::Ordering::Relaxed)));
    rep.finish()
}
