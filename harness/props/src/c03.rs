//! C03 — streams are produced on demand.
//!
//! Marker effects are observed through the public API, without any hook in jaq: the harness compiles
//! programs with two extra native filters of its own (`tick($id)` records `$id` and passes its input
//! on, `bomb($id)` records `$id` and raises an error - both when their output is demanded) and hands
//! jaq a counting input iterator. The same program is evaluated by REF (the definitional, lazy
//! interpreter of C01, here with pinned textbook definitions of the prelude's stream combinators),
//! which gives, after each delivered output, the set of markers that the left-to-right semantics has
//! reached and the number of inputs it has consumed. jaq, pulled one output at a time through
//! `Filter.id.run`, must deliver the same outputs having fired no marker and consumed no input beyond
//! that.

use jaq_all::data::{Ctx, Data, DataKind, Runner};
use jaq_core::native::{run as native_run, v as var_args, Fun};
use jaq_core::Vars;
use jaq_json::Val;
use jaq_std::input::RcIter;
use serde_json::json;
use std::cell::{Cell, RefCell};
use std::collections::{BTreeSet, VecDeque};
use std::rc::Rc;
use vcore::jq;
use vcore::refi::{Interp, Item, Ref, Sig, Step};
use vcore::refrun;
use vcore::runner::{fnv_str, CaseFail, CaseOk, CaseResult, Report};
use vcore::Src;

thread_local! {
    static JLOG: RefCell<Vec<i64>> = RefCell::new(Vec::new());
    static RLOG: RefCell<Vec<i64>> = RefCell::new(Vec::new());
    static JPULLED: Cell<usize> = Cell::new(0);
}

/// a marker that fires this often is being evaluated without bound
const RUNAWAY: usize = 3000;

fn jlog(id: &Val) {
    let id = match id {
        Val::Num(n) => n.to_string().parse::<f64>().unwrap_or(-1.0) as i64,
        _ => -1,
    };
    JLOG.with(|l| {
        let mut l = l.borrow_mut();
        l.push(id);
        if l.len() > RUNAWAY {
            panic!("C03-RUNAWAY: markers evaluated {RUNAWAY} times");
        }
    });
}

fn extra_funs() -> Vec<Fun<DataKind>> {
    vec![
        native_run::<DataKind>(("tick", var_args(1), |mut cv| {
            let id = cv.0.pop_var();
            let v = cv.1;
            Box::new(core::iter::once_with(move || {
                jlog(&id);
                Ok(v)
            }))
        })),
        native_run::<DataKind>(("bomb", var_args(1), |mut cv| {
            let id = cv.0.pop_var();
            Box::new(core::iter::once_with(move || {
                jlog(&id);
                Err(jaq_core::Exn::from(jaq_core::Error::new(Val::from("bomb".to_string()))))
            }))
        })),
    ]
}

/// Definitions of the prelude's stream combinators as the manual gives them: REF uses these, whatever
/// the tree's defs.jq says (a change there must show as a difference, not move the oracle along).
const PINNED: &str = "def range(from; to): range(from; to; 1); def range(to): range(0; to); \
def repeat(f): def rec: f, rec; rec; def recurse(f): def rec: ., (f | rec); rec; def recurse(f; cond): recurse(f | select(cond)); \
def while(cond; update): def rec: if cond then ., (update | rec) else empty end; rec; \
def until(cond; update): def rec: if cond then . else update | rec end; rec; \
def nth(n; g): first(skip(n; g)); def isempty(g): first((g | false), true); \
def all(g; cond): isempty(g | cond and empty); def any(g; cond): isempty(g | cond or empty) | not; \
def add(f): reduce f as $x (null; . + $x); def select(f): if f then . else empty end; ";

#[derive(Clone, Debug, PartialEq)]
enum Obs {
    Val(String),
    Err,
    Halt(i32),
    End,
}

/// state after each delivered item: (item, markers fired so far, inputs pulled so far)
type Trace = Vec<(Obs, BTreeSet<i64>, usize)>;

fn ref_trace(code: &str, inputs: &[Val], k: usize, fuel: u64) -> Result<Trace, String> {
    let text = format!("{PINNED}{code}");
    let term = refrun::parse(&text).ok_or("does not parse")?;
    RLOG.with(|l| l.borrow_mut().clear());
    let interp = Ref(Rc::new(Interp {
        fuel: Cell::new(fuel),
        labels: Cell::new(0),
        inputs: RefCell::new(VecDeque::from(inputs.to_vec())),
        pulled: Cell::new(0),
        native: Box::new(|name, args, input| match name {
            "tick" | "bomb" => {
                let id = match &args[0] {
                    Val::Num(n) => n.to_string().parse::<f64>().unwrap_or(-1.0) as i64,
                    _ => -1,
                };
                RLOG.with(|l| l.borrow_mut().push(id));
                Some(vec![if name == "tick" { Ok(input) } else { Err(Sig::Error(Val::from("bomb".to_string()))) }])
            }
            _ => refrun::call_native(name, args, input),
        }),
        native_kinds: Box::new(|name, arity| match (name, arity) {
            ("tick", 1) | ("bomb", 1) => Some(vec![true]),
            _ => refrun::native_kinds(name, arity),
        }),
        lookups: Cell::new(0),
    }));
    let env = refrun::base_env(&[]);
    let mut cur = interp.eval(&term, &env, Val::from(1isize));
    let mut trace = Trace::new();
    let snap = |o: Obs, me: &Ref| (o, RLOG.with(|l| l.borrow().iter().cloned().collect::<BTreeSet<i64>>()), me.0.pulled.get());
    while trace.len() < k {
        match cur.force() {
            Step::Nil => {
                trace.push(snap(Obs::End, &interp));
                break;
            }
            Step::Cons(i, rest) => {
                let i: Item<Val> = i;
                match i {
                    Ok(v) => trace.push(snap(Obs::Val(format!("{v}")), &interp)),
                    Err(Sig::Error(_)) => {
                        trace.push(snap(Obs::Err, &interp));
                        break;
                    }
                    Err(Sig::Halt(c)) => {
                        trace.push(snap(Obs::Halt(c), &interp));
                        break;
                    }
                    Err(Sig::Fuel) => return Err("fuel".into()),
                    Err(Sig::Break(_)) => return Err("break escapes".into()),
                    Err(Sig::Unsupported(s)) => return Err(format!("unsupported {s}")),
                }
                cur = rest;
            }
        }
    }
    Ok(trace)
}

fn jaq_trace(code: &str, inputs: &[Val], k: usize, endless_inputs: bool) -> Result<Trace, String> {
    let filter = jq::compile_with_funs(code, &[], extra_funs()).map_err(|e| format!("COMPILE {e}"))?;
    JLOG.with(|l| l.borrow_mut().clear());
    JPULLED.with(|p| p.set(0));
    let mut trace = Trace::new();
    let r = jq::guarded(|| {
        let runner = Runner::default();
        let finite = inputs.to_vec().into_iter();
        let endless = (0..).map(|_| Val::from("a".to_string()));
        let it: Box<dyn Iterator<Item = Val>> = if endless_inputs { Box::new(finite.chain(endless)) } else { Box::new(finite) };
        let counted: Box<dyn Iterator<Item = Result<Val, String>>> = Box::new(it.map(|v| {
            let n = JPULLED.with(|p| {
                p.set(p.get() + 1);
                p.get()
            });
            if n > RUNAWAY {
                panic!("C03-RUNAWAY: {RUNAWAY} inputs consumed");
            }
            Ok(v)
        }));
        let rc = RcIter::new(counted);
        let data = Data { runner: &runner, lut: &filter.lut, inputs: &rc };
        let ctx = Ctx::new(&data, Vars::new(Vec::new()));
        let mut it = filter.id.run((ctx, Val::from(1isize)));
        let snap = |o: Obs| (o, JLOG.with(|l| l.borrow().iter().cloned().collect::<BTreeSet<i64>>()), JPULLED.with(|p| p.get()));
        while trace.len() < k {
            match it.next() {
                None => {
                    trace.push(snap(Obs::End));
                    break;
                }
                Some(Ok(v)) => trace.push(snap(Obs::Val(format!("{v}")))),
                Some(Err(e)) => {
                    let o = match e.get_err() {
                        Ok(_) => Obs::Err,
                        Err(e) => match e.get_halt() {
                            Ok(c) => Obs::Halt(c),
                            Err(_) => Obs::Val("<escaped break>".into()),
                        },
                    };
                    trace.push(snap(o));
                    break;
                }
            }
        }
    });
    match r {
        Ok(()) => Ok(trace),
        Err(p) => Err(format!("PANIC {p} after {} items; markers fired {:?}", trace.len(), JLOG.with(|l| l.borrow().iter().cloned().collect::<BTreeSet<i64>>()))),
    }
}

// ---------------------------------------------------------------- generator

struct G<'s, 'a> {
    src: &'s mut Src<'a>,
    next_id: i64,
    labels: usize,
    uses_inputs: bool,
}

const ROOT: &str = "{\"a\": [1, 2], \"b\": {\"a\": 3, \"b\": null}}";
const VALS: &[&str] = &["1", "2", "3", "null", "false", "\"a\"", "[1,2]", "0"];

impl G<'_, '_> {
    fn id(&mut self) -> i64 {
        self.next_id += 1;
        self.next_id
    }
    fn val(&mut self) -> &'static str {
        *self.src.pick(VALS)
    }
    /// a filter applied to each item of a stream (0..2 outputs per item)
    fn per_item(&mut self, d: usize) -> String {
        match self.src.below(9) {
            0 => format!("tick({})", self.id()),
            1 => "(., 10)".into(),
            2 => "[.]".into(),
            3 => format!("select(. != {})", self.val()),
            4 => format!("if . == {} then {} else . end", self.val(), self.stream(d.saturating_sub(1))),
            5 => format!("(tick({}) | [., 0])", self.id()),
            6 => format!("if . == {} then bomb({}) else . end", self.val(), self.id()),
            7 => format!("(., tick({}))", self.id()),
            _ => ".".into(),
        }
    }
    /// a generator that never ends by itself; every round evaluates a marker, so that evaluation without
    /// bound is noticed instead of hanging
    fn endless(&mut self) -> String {
        match self.src.below(7) {
            0 => format!("repeat(tick({}))", self.id()),
            1 => format!("(def r: tick({}), r; r)", self.id()),
            2 => format!("(0 | recurse(tick({}) | . + 1))", self.id()),
            3 => format!("(range(0; infinite) | tick({}))", self.id()),
            4 => format!("(def r(n): n, (tick({}) | r(n + 1)); r(0))", self.id()),
            5 => format!("(0 | while(true; tick({}) | . + 1))", self.id()),
            _ => format!("repeat({}, tick({}))", self.val(), self.id()),
        }
    }
    fn stream(&mut self, d: usize) -> String {
        if d == 0 {
            return match self.src.below(6) {
                0 => format!("tick({})", self.id()),
                1 => format!("(tick({}) | {})", self.id(), self.val()),
                2 => format!("bomb({})", self.id()),
                3 => ".".into(),
                _ => self.val().to_string(),
            };
        }
        let d1 = d - 1;
        match self.src.below(38) {
            34 | 35 | 36 => self.path_mode(d1),
            37 => {
                // update mode: the paths are consumed by the update, its result is one value
                let u = match self.src.below(4) {
                    0 => format!("tick({})", self.id()),
                    1 => format!("(tick({}), tick({}))", self.id(), self.id()),
                    2 => format!("first(tick({}), tick({}))", self.id(), self.id()),
                    _ => "empty".to_string(),
                };
                format!("({ROOT} | ({} |= {u}))", self.pexpr(d1))
            }
            0 | 1 | 2 => format!("({}, {})", self.stream(d1), self.stream(d1)),
            3 => format!("({}, {}, {})", self.stream(d1), self.stream(d1), self.stream(d1)),
            4 | 5 => format!("({} | {})", self.stream(d1), self.per_item(d1)),
            6 => format!("range({})", self.src.below(4)),
            7 => format!("({}, {}, {} | tick({}))", self.val(), self.val(), self.val(), self.id()),
            8 => format!("limit({}; {})", self.src.below(4), self.stream_or_endless(d1)),
            9 => format!("first({})", self.stream_or_endless(d1)),
            10 => format!("skip({}; {})", self.src.below(3), self.stream(d1)),
            11 => format!("nth({}; {})", self.src.below(3), self.stream_or_endless(d1)),
            12 => format!("isempty({})", self.stream_or_endless(d1)),
            13 => format!("any({}; . == {})", self.stream_or_endless(d1), self.val()),
            14 => format!("all({}; . != {})", self.stream_or_endless(d1), self.val()),
            15 => {
                self.labels += 1;
                let l = self.labels;
                format!("(label $l{l} | {} | if . == {} then ., break $l{l} else . end)", self.stream_or_endless(d1), self.val())
            }
            16 => {
                self.labels += 1;
                let l = self.labels;
                format!("(label $l{l} | ({}, break $l{l}, {}))", self.stream(d1), self.stream(d1))
            }
            17 => format!("({} // {})", self.stream(d1), self.stream(d1)),
            18 => format!("(try {} catch ({}))", self.stream(d1), self.per_item(d1)),
            19 => format!("({})?", self.stream(d1)),
            20 => format!("([{}] | length)", self.stream(d1)),
            21 => format!("[limit({}; {})]", self.src.below(4), self.stream_or_endless(d1)),
            22 => format!("foreach {} as $x (0; . + 1; [$x, .])", self.stream_or_endless(d1)),
            23 => format!("reduce limit({}; {}) as $x (0; . + 1)", self.src.below(4), self.stream_or_endless(d1)),
            24 => format!("({} as $x | ($x, tick({})))", self.stream(d1), self.id()),
            25 => format!("(def f: {}; f, f)", self.stream(d1)),
            26 => format!("(def f(g): g, tick({}), g; f({}))", self.id(), self.stream(d1)),
            27 => self.endless(),
            28 => {
                self.uses_inputs = true;
                match self.src.below(6) {
                    0 => "input".into(),
                    1 => "inputs".into(),
                    2 => format!("(inputs | {})", self.per_item(d1)),
                    3 => "first(inputs)".into(),
                    4 => format!("limit({}; inputs)", self.src.below(3)),
                    _ => "foreach inputs as $x (0; . + 1; [$x, .])".into(),
                }
            }
            29 => format!("first({} | select(. == {}))", self.stream_or_endless(d1), self.val()),
            30 => format!("({} | if . == {} then halt else . end)", self.stream(d1), self.val()),
            31 => format!("until(. == {}; {})", self.val(), self.stream(d1)),
            32 => match self.src.below(4) {
                0 => format!("[{}][{}]", self.stream(d1), self.src.below(3)),
                // several indices / slice bounds: the accesses are delivered one by one
                1 => format!("([1, 2, 3] | .[(0, (tick({}) | 1), (tick({}) | 2))])", self.id(), self.id()),
                2 => format!("([1, 2, 3] | .[0:(1, (tick({}) | 2), (bomb({}) | 3))])", self.id(), self.id()),
                _ => format!("([1, 2, 3] | .[(0, (tick({}) | 1)):(2, (tick({}) | 3))])", self.id(), self.id()),
            },
            _ => format!("({}, error({}))", self.stream(d1), self.val()),
        }
    }
    /// a path expression (a stream of paths): markers sit in conditions and index positions, which are
    /// evaluated in value mode
    fn pexpr(&mut self, d: usize) -> String {
        if d == 0 {
            return match self.src.below(10) {
                // an index or a slice bound with several outputs: one access per output, in their order
                7 => format!(".[(\"a\", (tick({}) | \"b\"))]", self.id()),
                8 => format!(".a[0:(1, (tick({}) | 2))]", self.id()),
                9 => {
                    self.uses_inputs = true;
                    ".a[0:(1, (input | length))]".into()
                }
                0 => ".a".into(),
                1 => ".b".into(),
                2 => ".[]".into(),
                3 => format!(".[tick({}) | \"a\"]", self.id()),
                4 => format!(".[tick({}) | \"b\"]", self.id()),
                5 => {
                    self.uses_inputs = true;
                    ".[input]".into()
                }
                _ => ".c".into(),
            };
        }
        let d1 = d - 1;
        match self.src.below(16) {
            0 | 1 | 2 => format!("({}, {})", self.pexpr(d1), self.pexpr(d1)),
            3 => format!("({} | {})", self.pexpr(d1), self.pexpr(d1)),
            4 => format!("if (tick({}) | true) then {} else {} end", self.id(), self.pexpr(d1), self.pexpr(d1)),
            5 => format!("first({})", self.pexpr(d1)),
            6 => format!("limit({}; {})", self.src.below(3), self.pexpr(d1)),
            7 => format!("({} // {})", self.pexpr(d1), self.pexpr(d1)),
            8 => format!("({})?", self.pexpr(d1)),
            9 => format!("last({})", self.pexpr(d1)),
            10 => format!("(try {} catch .)", self.pexpr(d1)),
            11 => format!("({}, bomb({}))", self.pexpr(d1), self.id()),
            12 => format!("(.. | select((tick({}) | type) == \"number\"))", self.id()),
            13 => format!("({}, error(\"e\"))", self.pexpr(d1)),
            14 => format!("(def p: {}; p, p)", self.pexpr(d1)),
            _ => format!("recurse(.[tick({}) | \"b\"]?; . != null)", self.id()),
        }
    }
    fn endless_paths(&mut self, d: usize) -> String {
        match self.src.below(3) {
            0 => format!("repeat(.[tick({}) | \"a\"])", self.id()),
            1 => format!("({}, repeat(.[tick({}) | \"b\"]))", self.pexpr(d), self.id()),
            _ => format!("(def r: .[tick({}) | \"a\"], r; r)", self.id()),
        }
    }
    fn path_mode(&mut self, d: usize) -> String {
        let p = if self.src.chance(50) { self.endless_paths(d) } else { self.pexpr(d) };
        match self.src.below(9) {
            0 | 1 => format!("({ROOT} | first(path({p})))"),
            2 => format!("({ROOT} | limit({}; path({p})))", self.src.below(3)),
            3 => format!("({ROOT} | path(first({p})))"),
            4 => {
                self.labels += 1;
                let l = self.labels;
                format!("({ROOT} | label $l{l} | path({p}) | ., break $l{l})")
            }
            5 => format!("({ROOT} | isempty(path({p})))"),
            6 => format!("({ROOT} | nth(1; path({p})))"),
            7 => format!("({ROOT} | [limit(2; path({p}))])"),
            _ => format!("({ROOT} | path({p}))"),
        }
    }
    fn stream_or_endless(&mut self, d: usize) -> String {
        if self.src.chance(45) {
            match self.src.below(3) {
                0 => self.endless(),
                1 => format!("({}, {})", self.stream(d), self.endless()),
                _ => format!("({} | {})", self.endless(), self.per_item(d)),
            }
        } else {
            self.stream(d)
        }
    }
}

fn case(src: &mut Src) -> CaseResult {
    let sample = src.sample;
    let depth = 1 + src.below(4);
    let (code, uses_inputs, markers) = {
        let mut g = G { src: &mut *src, next_id: 0, labels: 0, uses_inputs: false };
        let body = g.stream(depth);
        // the top-level consumer
        let code = match g.src.below(8) {
            0 | 1 | 2 => body,
            3 => format!("({}, {})", body, g.endless()),
            4 => format!("({} | {})", body, g.per_item(1)),
            5 => format!("first({})", body),
            6 => format!("limit(2; {})", body),
            _ => format!("({}, {})", body, g.stream(1)),
        };
        (code, g.uses_inputs, g.next_id)
    };
    let ninputs = src.below(5);
    let inputs: Vec<Val> = (0..ninputs).map(|i| Val::from(if i % 2 == 0 { "a" } else { "b" }.to_string())).collect();
    let endless_inputs = uses_inputs && src.chance(80);
    let k = 1 + src.below(6);
    let desc = || json!({"program": code, "input": 1, "inputs": if endless_inputs { format!("{ninputs} values \"a\", \"b\", ... followed by \"a\" without end") } else { format!("{ninputs} values \"a\", \"b\", ...") }, "outputs_demanded": k});
    vcore::runner::note_case(|| desc().to_string());
    // REF cannot have an endless deque: it gets as many as the run-away limit allows
    let ref_inputs: Vec<Val> = if endless_inputs { inputs.iter().cloned().chain((0..RUNAWAY + 10).map(|_| Val::from("a".to_string()))).collect() } else { inputs.clone() };
    let want = match ref_trace(&code, &ref_inputs, k, 60_000) {
        Ok(t) => t,
        Err(why) => return Ok(CaseOk::trivial().class(if why == "fuel" { "discarded-reference-out-of-fuel" } else { "discarded-other" })),
    };
    // (the reference's stand-in for the endless tail is finite: a program that runs through it diverges)
    if endless_inputs && want.iter().any(|w| w.2 > ninputs + 1000) {
        return Ok(CaseOk::trivial().class("discarded-reference-consumes-the-endless-tail"));
    }
    let got = match jaq_trace(&code, &inputs, k, endless_inputs) {
        Ok(t) => t,
        Err(e) if e.starts_with("COMPILE") => return Err(CaseFail::new("harness-program-does-not-compile", e, desc())),
        Err(e) if e.contains("C03-RUNAWAY") => {
            return Err(CaseFail::new(
                "evaluation-without-bound-where-the-semantics-needs-finite-work",
                format!("{e}; the reference delivered {} item(s) after firing {:?} and consuming {} input(s)", want.len(), want.last().map(|w| w.1.clone()).unwrap_or_default(), want.last().map_or(0, |w| w.2)),
                desc(),
            ))
        }
        Err(e) => return Err(CaseFail::new("panic", e, desc())),
    };
    let show = |t: &Trace| t.iter().map(|(o, f, p)| format!("{o:?} markers={f:?} inputs={p}")).collect::<Vec<_>>().join(" ; ");
    for (j, (w, g)) in want.iter().zip(got.iter()).enumerate() {
        if w.0 != g.0 {
            return Err(CaseFail::new("output-differs", format!("item {}: reference {:?}, jaq {:?}; reference: {} | jaq: {}", j + 1, w.0, g.0, show(&want), show(&got)), desc()));
        }
        let extra: Vec<i64> = g.1.difference(&w.1).cloned().collect();
        if !extra.is_empty() {
            return Err(CaseFail::new(
                "marker-evaluated-before-the-semantics-reaches-it",
                format!("when item {} ({:?}) was delivered, jaq had evaluated marker(s) {:?} which the left-to-right semantics reaches only later or never; reference: {} | jaq: {}", j + 1, w.0, extra, show(&want), show(&got)),
                desc(),
            ));
        }
        if g.2 > w.2 {
            return Err(CaseFail::new(
                "input-consumed-before-the-semantics-reaches-it",
                format!("when item {} ({:?}) was delivered, jaq had consumed {} input(s), the left-to-right semantics {}; reference: {} | jaq: {}", j + 1, w.0, g.2, w.2, show(&want), show(&got)),
                desc(),
            ));
        }
    }
    if want.len() != got.len() {
        return Err(CaseFail::new("output-differs", format!("reference delivers {} item(s), jaq {}; reference: {} | jaq: {}", want.len(), got.len(), show(&want), show(&got)), desc()));
    }
    // non-trivial: at some compared point a marker of the program had not fired yet / an input was left
    let unfired = want.iter().any(|w| (w.1.len() as i64) < markers) || (uses_inputs && (endless_inputs || want.iter().any(|w| w.2 < ninputs)));
    let mut ok = CaseOk::new(unfired && markers + (uses_inputs as i64) > 0, fnv_str(&[&code, &k.to_string()]));
    if uses_inputs {
        ok = ok.class("consumes-inputs");
    }
    if endless_inputs {
        ok = ok.class("endless-input-stream");
    }
    if code.contains("repeat(") || code.contains("def r") || code.contains("recurse(") || code.contains("infinite") || code.contains("while(") {
        ok = ok.class("endless-generator-cut-by-a-consumer");
    }
    if matches!(want.last(), Some((Obs::Err, ..))) {
        ok = ok.class("ends-with-error");
    }
    if matches!(want.last(), Some((Obs::Halt(_), ..))) {
        ok = ok.class("ends-with-halt");
    }
    for (kw, class) in [("label ", "label-break"), ("isempty(", "isempty"), ("any(", "any-all"), ("all(", "any-all"), ("nth(", "nth"), ("first(", "first"), ("limit(", "limit"), (" // ", "alternative"), ("foreach ", "foreach"), ("try ", "try"), ("path(", "path-mode"), (" |= ", "update-mode")] {
        if code.contains(kw) {
            ok = ok.class(class);
        }
    }
    if sample {
        let mut d = desc();
        d["reference"] = json!(show(&want));
        ok = ok.desc(Some(d));
    }
    Ok(ok)
}

// ---------------------------------------------------------------- incremental consumption of endless generators

fn incremental(i: usize) -> CaseResult {
    // (program, uses endless inputs)
    let progs: &[(&str, bool)] = &[
        ("repeat(tick(1))", false),
        ("def f: tick(1), f; f", false),
        ("0 | recurse(tick(1) | . + 1)", false),
        ("range(0; infinite) | tick(1)", false),
        ("range(0; 1; 0) | tick(1)", false),
        ("0 | while(true; tick(1) | . + 1)", false),
        ("def r(n): n, (tick(1) | r(n + 1)); r(0)", false),
        ("foreach inputs as $x (0; . + 1; tick(1))", true),
        ("inputs | tick(1)", true),
        ("repeat(input) | tick(1)", true),
        ("foreach repeat(tick(1)) as $x (0; . + 1)", false),
        ("limit(100000; repeat(tick(1)))", false),
        ("label $out | foreach repeat(tick(1)) as $x (0; . + 1; if . > 100000 then break $out else . end)", false),
        ("repeat(tick(1)) | select(true)", false),
        ("[1, 2] | repeat(.[] | tick(1))", false),
        ("repeat(tick(1)) as $x | $x", false),
        ("try repeat(tick(1)) catch .", false),
        ("(repeat(tick(1)))?", false),
        ("repeat(tick(1)) // 0", false),
        ("first(repeat(tick(1))), repeat(tick(2))", false),
    ];
    if i >= progs.len() {
        return Ok(CaseOk::trivial());
    }
    let (code, endless) = progs[i];
    let n = 1500;
    let desc = json!({"program": code, "outputs_pulled_one_by_one": n});
    let t = match jaq_trace(code, &[], n, endless) {
        Ok(t) => t,
        Err(e) => return Err(CaseFail::new(if e.contains("C03-RUNAWAY") { "endless-generator-not-consumable-incrementally" } else { "panic" }, e, desc)),
    };
    if t.len() != n || t.iter().any(|x| !matches!(x.0, Obs::Val(_))) {
        return Err(CaseFail::new("endless-generator-ends", format!("{} items, last {:?}", t.len(), t.last().map(|x| x.0.clone())), desc));
    }
    // each further output costs a bounded number of inputs
    for (j, x) in t.iter().enumerate() {
        if x.2 > j + 2 {
            return Err(CaseFail::new("endless-inputs-consumed-ahead", format!("after output {} jaq had consumed {} inputs", j + 1, x.2), desc));
        }
    }
    Ok(CaseOk::new(true, i as u64).class("endless-generator-pulled-one-by-one").desc(Some(desc)))
}

// ---------------------------------------------------------------- the consumer of the command line

/// (arguments, bytes sent on standard input - which then stays open -, the bytes that must arrive on standard output)
const CLI: &[(&[&str], &str, &str)] = &[
    (&["-n", "1, 2, (def f: f; f)"], "", "1\n2\n"),
    (&["-n", "repeat(1)"], "", "1\n1\n1\n"),
    (&["-nc", "[1], limit(2; repeat(\"x\")), (def f: f; f)"], "", "[1]\n\"x\"\n\"x\"\n"),
    (&["-n", "range(0; infinite)"], "", "0\n1\n2\n3\n"),
    (&["-n", "1, repeat(empty)"], "", "1\n"),
    (&["-n", "first(inputs), (def f: f; f)"], "5\n", "5\n"),
    (&["-n", "foreach inputs as $x (0; . + $x)"], "1\n2\n", "1\n3\n"),
    (&["-c", "., (def f: f; f)"], "[1,2]\n", "[1,2]\n"),
    (&["-nr", "\"a\", (def f: f; f)"], "", "a\n"),
    (&["-n", "--raw-output0", "\"a\", \"b\", (def f: f; f)"], "", "a\u{0}b\u{0}"),
    (&["-nj", "\"a\", \"b\", (def f: f; f)"], "", "ab"),
    (&["-n", "{\"a\": 1}, (def f: f; f)"], "", "{\n  \"a\": 1\n}\n"),
    (&["-n", "isempty(repeat(1)), first(range(5; infinite)), (def f: f; f)"], "", "false\n5\n"),
    (&["-n", "label $l | repeat(1) | ., break $l"], "", "1\n"),
];

/// The k-th output reaches the reader of the command line (a pipe, or a file) although the rest of the
/// stream never ends: jaq is started, the expected bytes must arrive within 15 s, then jaq is killed.
fn cli_consumer(i: usize) -> CaseResult {
    use std::io::{Read, Write};
    let to_file = i >= CLI.len();
    let (args, stdin, want) = CLI[i % CLI.len()];
    let case = json!({"command": format!("jaq {}", args.iter().map(|a| format!("{a:?}")).collect::<Vec<_>>().join(" ")), "stdin_kept_open_after": stdin, "stdout_is": if to_file { "a file" } else { "a pipe" }, "expected_output_so_far": want});
    vcore::runner::note_case(|| case.to_string());
    let scratch = vcore::cli::Scratch::new("c03");
    let path = scratch.path.join("out.txt");
    let mut cmd = std::process::Command::new(vcore::cli::jaq_bin());
    cmd.args(args).env("NO_COLOR", "1").stdin(std::process::Stdio::piped()).stderr(std::process::Stdio::null());
    if to_file {
        cmd.stdout(std::fs::File::create(&path).map_err(|e| CaseFail::new("harness", e.to_string(), json!({})))?);
    } else {
        cmd.stdout(std::process::Stdio::piped());
    }
    let mut child = cmd.spawn().map_err(|e| CaseFail::new("harness-spawn", e.to_string(), json!({})))?;
    let mut sin = child.stdin.take().unwrap();
    let _ = sin.write_all(stdin.as_bytes());
    let _ = sin.flush();
    let got = std::sync::Arc::new(std::sync::Mutex::new(Vec::<u8>::new()));
    if !to_file {
        let mut so = child.stdout.take().unwrap();
        let g = got.clone();
        std::thread::spawn(move || {
            let mut buf = [0u8; 256];
            while let Ok(n) = so.read(&mut buf) {
                if n == 0 {
                    break;
                }
                g.lock().unwrap().extend_from_slice(&buf[..n]);
            }
        });
    }
    let t0 = std::time::Instant::now();
    let mut ok = false;
    while t0.elapsed().as_secs() < 15 {
        let have: Vec<u8> = if to_file { std::fs::read(&path).unwrap_or_default() } else { got.lock().unwrap().clone() };
        if have.len() >= want.len() {
            ok = have.starts_with(want.as_bytes());
            break;
        }
        std::thread::sleep(std::time::Duration::from_millis(20));
    }
    let have: Vec<u8> = if to_file { std::fs::read(&path).unwrap_or_default() } else { got.lock().unwrap().clone() };
    let _ = child.kill();
    let _ = child.wait();
    drop(sin);
    if !ok {
        return Err(CaseFail::new("output-does-not-reach-the-consumer-of-the-command-line", format!("after {:.1} s the reader has {:?}, expected to have {:?} by then (the rest of the stream never ends)", t0.elapsed().as_secs_f64(), String::from_utf8_lossy(&have[..have.len().min(200)]), want), case));
    }
    Ok(CaseOk::new(true, 5000 + i as u64).class(if to_file { "stdout-is-a-file" } else { "stdout-is-a-pipe" }).desc(Some(case)))
}

pub fn run(mut rep: Report) -> ! {
    rep.set_rule(
        "random: stream programs of nesting depth 1-4 over comma, pipe, range, limit/first/skip/nth/isempty/any/all/until, label/break (conditional and unconditional), //, try/catch, ?, array collection, foreach/reduce, variable binding, definitions with and without filter parameters, input/inputs/first(inputs)/limit(n; inputs)/foreach inputs, halt, error, and seven endless generators (repeat, recursive definitions with and without arguments, recurse, range(0; infinite), while(true; ...)) that are only placed under consumers; every marker is a native filter of the harness (tick($id): record and pass on; bomb($id): record and raise), every endless generator evaluates a marker per round; jaq is pulled k = 1..6 items through Filter.id.run with a counting input iterator (0-4 values, sometimes followed by an endless tail); after each delivered item: same item as the reference, markers fired by jaq form a subset of those the reference has fired, inputs consumed <= the reference's; a marker count or input count beyond 3000 (evaluation without bound) is a violation when the reference delivered its items within its fuel; \
         incremental: 20 endless programs are pulled 1500 outputs one by one (inputs consumed at most one ahead); \
         command line: 14 invocations whose stream never ends after k outputs (diverging tail, endless generator, standard input kept open), with standard output a pipe and a file: the bytes of the first k outputs must reach the reader within 15 s (then jaq is killed); \
         non-trivial = at some compared point a marker of the program had not been reached by the reference, or inputs were left (only then eager evaluation could show)",
    );
    rep.assume("REF (C01's definitional interpreter, lazy, memoising) with pinned manual definitions of repeat/recurse/while/until/nth/isempty/any/all/range/add/select defines what the left-to-right semantics has reached; markers are only placed in stream positions (comma, pipe, generator rounds, branches), not inside operands of binary operators, object constructions or path indices, whose relative evaluation order the manual leaves open; markers fire when their output is demanded, not when jaq constructs the iterator");
    let n = rep.n(60_000, 3_000_000);
    rep.random("marker-differential", n, 160, case);
    rep.fixed("endless-generators-incremental", 20, incremental);
    rep.fixed("command-line-consumer", 2 * CLI.len(), cli_consumer);
    rep.finish()
}
