//! C04 — tail recursion runs in constant stack and memory.
//!
//! Generated nests of tail-recursive definitions (self, parent, earlier-sibling and nested calls through
//! every tail position the property lists, with variable and filter arguments passed on, state carried
//! by the input or by a variable argument, run for values and for paths, under several consumers) are
//! executed by the binary in a child process whose stack is limited to 1 MiB, with N and 2N
//! iterations: both runs must complete with the value known from the construction, and the peak
//! resident memory must not grow from N to 2N. The non-tail twin of a nest (every recursive call
//! wrapped in `first(..)`) must overflow the same stack: this shows that the bound discriminates.

use serde_json::json;
use vcore::cli::{self, Cmd};
use vcore::runner::{fnv_str, CaseFail, CaseOk, CaseResult, Report};
use vcore::Src;

const N1: u64 = 250_000;
/// allowed growth of the peak resident set between N and 2N iterations, in KiB (10 bytes per iteration)
const SLACK_KIB: i64 = 2_500;

#[derive(Clone, Debug)]
struct Sig {
    name: String,
    farg: bool,
    varg: bool,
}

struct G<'s, 'a> {
    src: &'s mut Src<'a>,
    /// state in the input (false) or in a variable argument `$i` of every definition (true)
    var_state: bool,
    path_mode: bool,
    counter: usize,
    used: Vec<&'static str>,
    ndefs: usize,
    passes_args: bool,
    max_stack: usize,
}

impl G<'_, '_> {
    fn call(&mut self, target: &Sig, scope_f: &[String], scope_v: &[String]) -> String {
        let mut args: Vec<String> = Vec::new();
        if self.var_state {
            args.push("$i + 1".into());
        }
        if target.farg {
            // pass a filter argument in scope on; a fresh one is given only where none is in scope (a fresh
            // closure per iteration captures its environment, and with it the closure of the previous
            // iteration: growth by construction, not what the property is about)
            if !scope_f.is_empty() {
                self.passes_args = true;
                args.push(self.src.pick(scope_f).clone());
            } else {
                args.push(". + 1".into());
            }
        }
        if target.varg {
            if !scope_v.is_empty() && self.src.chance(200) {
                self.passes_args = true;
                args.push(self.src.pick(scope_v).clone());
            } else {
                args.push("1".into());
            }
        }
        let c = if args.is_empty() { target.name.clone() } else { format!("{}({})", target.name, args.join("; ")) };
        // (marked, so that the non-tail twin can be derived from the same text)
        format!("\u{1}{c}\u{2}")
    }
    /// wrap a term in tail position into 1-3 of the tail contexts of the property
    fn tail(&mut self, x: String) -> String {
        let n = 1 + self.src.below(3);
        self.max_stack = self.max_stack.max(n);
        let mut x = x;
        for _ in 0..n {
            self.counter += 1;
            let c = self.counter;
            let (name, t): (&'static str, String) = match self.src.below(13) {
                0 => ("as-binder", format!("(. as $v{c} | {x})")),
                1 => ("destructuring-binder", format!("([., 0] as [$p{c}, $q{c}] | {x})")),
                2 => ("comma-after-empty", format!("(empty, {x})")),
                3 => ("comma-after-output", format!("(., {x})")),
                4 => ("alternative-after-empty", format!("(empty // {x})")),
                5 => ("alternative-after-false", format!("(false // {x})")),
                6 => ("then-branch", format!("(if true then {x} else . end)")),
                7 => ("else-branch", format!("(if false then . else {x} end)")),
                8 => ("elif-branch", format!("(if false then . elif true then {x} else . end)")),
                9 => ("foreach-projection", format!("(foreach 0 as $z{c} (.; .; {x}))")),
                10 => ("after-local-def", format!("(def loc{c}: .; {x})")),
                11 => ("pipe", format!("(. | {x})")),
                _ => ("pipe-after-binder", format!("(1 as $w{c} | . | {x})")),
            };
            if !self.used.contains(&name) {
                self.used.push(name);
            }
            x = t;
        }
        x
    }
    /// one definition with its nested definitions; returns (text, signature)
    fn def(&mut self, name: String, ancestors: &[Sig], siblings: &[Sig], scope_f: &[String], scope_v: &[String], depth: usize) -> (String, Sig) {
        self.ndefs += 1;
        let sig = Sig { name: name.clone(), farg: self.src.chance(90), varg: self.src.chance(90) };
        let mut scope_f = scope_f.to_vec();
        let mut scope_v = scope_v.to_vec();
        let mut params: Vec<String> = Vec::new();
        if self.var_state {
            params.push("$i".into());
        }
        if sig.farg {
            params.push(format!("s_{name}"));
            scope_f.push(format!("s_{name}"));
        }
        if sig.varg {
            params.push(format!("$k_{name}"));
            scope_v.push(format!("$k_{name}"));
        }
        let mut anc = ancestors.to_vec();
        anc.push(sig.clone());
        let mut nested_text = String::new();
        let mut nested: Vec<Sig> = Vec::new();
        let k = if depth < 2 { self.src.weighted(&[4, 4, 2]) } else { 0 };
        for j in 0..k {
            let (t, s) = self.def(format!("{name}{}", (b'a' + j as u8) as char), &anc, &nested, &scope_f, &scope_v, depth + 1);
            nested_text.push_str(&t);
            nested_text.push(' ');
            nested.push(s);
        }
        // whom to call: the last nested definition (so that the nest is entered), otherwise itself, an
        // ancestor or an earlier sibling
        let target: Sig = if let (Some(last), true) = (nested.last(), self.src.chance(220)) {
            last.clone()
        } else {
            let mut cands: Vec<Sig> = anc.clone();
            cands.extend(siblings.iter().cloned());
            cands.extend(nested.iter().cloned());
            self.src.pick(&cands).clone()
        };
        let call = self.call(&target, &scope_f, &scope_v);
        // one step of the loop: by the input, by the filter argument, or by the variable argument
        let (cond, fin, stepped) = if self.var_state {
            ("$i >= $n".to_string(), if self.path_mode { ".".to_string() } else { "$i".to_string() }, call)
        } else {
            let step = match (sig.farg, sig.varg, self.src.below(3)) {
                (true, _, 0) => format!("s_{name}"),
                (_, true, 1) => format!(". + $k_{name}"),
                _ => ". + 1".to_string(),
            };
            (". >= $n".to_string(), ".".to_string(), format!("({step} | {call})"))
        };
        let body = format!("if {cond} then {fin} else {} end", self.tail(stepped));
        let head = if params.is_empty() { name.clone() } else { format!("{name}({})", params.join("; ")) };
        (format!("def {head}: {nested_text}{body};"), sig)
    }
}

struct Prog {
    text: String,
    /// the same nest with every recursive call in a non-tail position
    twin: String,
    expect: String,
    classes: Vec<&'static str>,
    nontrivial: bool,
    foreach_projection: bool,
}

fn gen(src: &mut Src) -> Prog {
    let var_state = src.chance(100);
    let path_mode = var_state && src.chance(128);
    let mut g = G { src, var_state, path_mode, counter: 0, used: Vec::new(), ndefs: 0, passes_args: false, max_stack: 0 };
    let (def, sig) = g.def("f".into(), &[], &[], &[], &[], 0);
    let mut args: Vec<String> = Vec::new();
    if var_state {
        args.push("0".into());
    }
    if sig.farg {
        args.push(". + 1".into());
    }
    if sig.varg {
        args.push("1".into());
    }
    let main = if args.is_empty() { "f".to_string() } else { format!("f({})", args.join("; ")) };
    let (text, expect, consumer): (String, String, &'static str) = if path_mode {
        // (no consumer that collects: with a comma that emits on the way there is one path per iteration)
        match g.src.below(3) {
            0 => (format!("{def} 0 | last(path({main}))"), "[]".into(), "last(path(..))"),
            1 => (format!("{def} 0 | path(last({main}))"), "[]".into(), "path(last(..))"),
            _ => (format!("{def} 0 | first(path({main}) | select($n < 0)), \"none\""), "\"none\"".into(), "first(path(..) | select(false))"),
        }
    } else {
        // the last output is N; with commas that emit on the way, earlier outputs are smaller
        match g.src.below(5) {
            0 | 1 => (format!("{def} 0 | last({main})"), "N".into(), "last(..)"),
            2 => (format!("{def} 0 | first({main} | select(. >= $n))"), "N".into(), "first(.. | select)"),
            3 => (format!("{def} 0 | label $out | {main} | if . >= $n then ., break $out else empty end"), "N".into(), "label/break"),
            _ => (format!("{def} 0 | [limit(1; {main} | select(. >= $n))][0]"), "N".into(), "limit"),
        }
    };
    let mut classes = g.used.clone();
    classes.push(if path_mode { "run-for-paths" } else { "run-for-values" });
    classes.push(if var_state { "state-in-variable-argument" } else { "state-in-input" });
    if g.ndefs >= 2 {
        classes.push("nested-definitions");
    }
    if g.passes_args {
        classes.push("passes-arguments-on");
    }
    let _ = consumer;
    let twin = text.replace('\u{1}', "first(").replace('\u{2}', ")");
    let text = text.replace(['\u{1}', '\u{2}'], "");
    Prog { text, twin, expect, classes, nontrivial: g.ndefs >= 2 || g.passes_args || g.max_stack >= 2, foreach_projection: g.used.contains(&"foreach-projection") }
}

struct RunRes {
    status: i32,
    last_line: String,
    stderr: String,
    maxrss_kib: i64,
}

fn run_child(text: &str, n: u64, stack_kib: u64) -> std::io::Result<RunRes> {
    // /usr/bin/time reports the peak resident set of the child on the last line of stderr
    let out = Cmd::new("/bin/sh")
        .args(["-c", "ulimit -s \"$0\"; exec /usr/bin/time -f 'MAXRSS %M' \"$@\" | tail -n 1", &stack_kib.to_string(), &cli::jaq_bin().to_string_lossy(), "-nc", "--argjson", "n", &n.to_string(), text])
        .env("NO_COLOR", "1")
        .env("RUST_BACKTRACE", "0")
        .run()?;
    let err = out.err_str();
    let maxrss_kib = err.lines().rev().find_map(|l| l.strip_prefix("MAXRSS ").and_then(|x| x.trim().parse::<i64>().ok())).unwrap_or(-1);
    // status of the pipeline is tail's: the child's fate is in time's report
    let status = if err.contains("overflowed its stack") || err.contains("Command terminated by signal") {
        134
    } else if let Some(l) = err.lines().find(|l| l.starts_with("Command exited with non-zero status")) {
        l.rsplit(' ').next().and_then(|x| x.parse().ok()).unwrap_or(1)
    } else {
        0
    };
    Ok(RunRes { status, last_line: out.out_str().trim().to_string(), stderr: err.lines().filter(|l| !l.starts_with("MAXRSS")).collect::<Vec<_>>().join(" ").chars().take(300).collect(), maxrss_kib })
}

fn judge(text: &str, expect: &str, heap: bool, case: &serde_json::Value) -> Result<(i64, i64), CaseFail> {
    let mut rss = [0i64; 2];
    for (j, n) in [N1, 2 * N1].iter().enumerate() {
        let r = run_child(text, *n, 1024).map_err(|e| CaseFail::new("harness-spawn", e.to_string(), case.clone()))?;
        let want = if expect == "N" { n.to_string() } else { expect.to_string() };
        if r.status == 134 {
            return Err(CaseFail::new("stack-overflow-in-tail-recursive-loop", format!("N = {n}, stack 1 MiB: {}", r.stderr), case.clone()));
        }
        if r.status != 0 || r.last_line != want {
            return Err(CaseFail::new("harness-loop-gives-unexpected-result", format!("N = {n}: exit {} last output {:?} (expected {want}) stderr {}", r.status, r.last_line, r.stderr), case.clone()));
        }
        rss[j] = r.maxrss_kib;
    }
    if heap && rss[0] > 0 && rss[1] - rss[0] > SLACK_KIB {
        return Err(CaseFail::new(
            "memory-grows-with-the-number-of-iterations",
            format!("peak resident set {} KiB at N = {N1}, {} KiB at N = {}: {} bytes per iteration", rss[0], rss[1], 2 * N1, (rss[1] - rss[0]) * 1024 / N1 as i64),
            case.clone(),
        ));
    }
    Ok((rss[0], rss[1]))
}

fn nest_case(src: &mut Src, known_foreach: bool) -> CaseResult {
    let sample = src.sample;
    let p = gen(src);
    let case = json!({"program": p.text, "iterations": [N1, 2 * N1], "stack": "1 MiB (ulimit -s 1024)"});
    vcore::runner::note_case(|| case.to_string());
    // (known finding: a tail call in the projection of foreach keeps the stack flat but retains memory;
    // such nests are still required to complete, their memory is not judged)
    let heap = !(p.foreach_projection && known_foreach);
    let (r1, r2) = judge(&p.text, &p.expect, heap, &case)?;
    // the twin must overflow, otherwise the stack bound would not tell tail calls from other calls
    let t = run_child(&p.twin, N1, 1024).map_err(|e| CaseFail::new("harness-spawn", e.to_string(), case.clone()))?;
    let twin_overflows = t.status == 134;
    let mut ok = CaseOk::new(p.nontrivial && twin_overflows, fnv_str(&[&p.text])).classes(&p.classes).bundle(3, if p.nontrivial && twin_overflows { vec![fnv_str(&[&p.text]), fnv_str(&[&p.text, "2N"])] } else { vec![] });
    ok = ok.class(if twin_overflows { "non-tail-twin-overflows-the-same-stack" } else { "non-tail-twin-does-not-overflow" });
    if !heap {
        ok = ok.class("memory-not-judged-known-finding-foreach-projection");
    }
    if sample {
        ok = ok.desc(Some(json!({"program": p.text, "peak_rss_kib": [r1, r2], "twin": p.twin, "twin_exit": t.status})));
    }
    Ok(ok)
}

const BUILTINS: &[(&str, &str)] = &[
    ("last(range($n))", "N-1"),
    ("last(range(0; $n; 1))", "N-1"),
    ("last(limit($n; repeat(1)))", "1"),
    ("0 | until(. >= $n; . + 1)", "N"),
    ("last(0 | while(. < $n; . + 1))", "N-1"),
    ("last(0 | recurse(if . < $n then . + 1 else empty end))", "N"),
    ("last(0 | recurse(. + 1; . <= $n))", "N"),
    ("[limit(1; 0 | recurse(. + 1) | select(. >= $n))][0]", "N"),
    ("first(0 | recurse(. + 1) | select(. >= $n))", "N"),
    ("reduce range($n) as $x (0; . + 1)", "N"),
    ("last(foreach range($n) as $x (0; . + 1))", "N"),
    ("last(foreach range($n) as $x (0; . + 1; [$x, .])) | .[1]", "N"),
    ("nth($n; repeat(7))", "7"),
    ("[limit(3; skip($n; repeat(7)))] | length", "3"),
    ("last(limit($n; path(repeat(.))))", "[]"),
    ("path(last(limit($n; repeat(.))))", "[]"),
    ("last(path(limit($n; recurse(.))))", "[]"),
    ("label $out | foreach repeat(1) as $x (0; . + 1; if . >= $n then ., break $out else empty end)", "N"),
    ("isempty(range($n) | select(. < 0))", "true"),
    ("all(range($n); . >= 0)", "true"),
    ("any(range($n); . < 0)", "false"),
    ("[range($n)] | length", "N"),
    ("last(range($n) as $x | $x)", "N-1"),
    ("def f: def g: if . >= $n then . else . + 1 | f end; g; 0 | f", "N"),
    ("def f(g): if . >= $n then . else g | f(g) end; 0 | f(. + 1)", "N"),
    ("def f($a; $b): if $a >= $n then $a else f($a + $b; $b) end; f(0; 1)", "N"),
    ("def f(s; $k): def g: if . >= $n then . else s | f(s; $k) end; g; 0 | f(. + 1; 1)", "N"),
    ("def f: def a: if . >= $n then . else . + 1 | f end; def b: a; b; 0 | f", "N"),
];

fn builtin_case(i: usize) -> CaseResult {
    if i >= BUILTINS.len() {
        return Ok(CaseOk::trivial());
    }
    let (text, expect) = BUILTINS[i];
    let case = json!({"program": text, "iterations": [N1, 2 * N1], "stack": "1 MiB"});
    vcore::runner::note_case(|| case.to_string());
    // `[range($n)] | length` holds N numbers by definition: only its stack is judged
    let heap = !text.starts_with("[range");
    let mut rss = [0i64; 2];
    for (j, n) in [N1, 2 * N1].iter().enumerate() {
        let want = match expect {
            "N" => n.to_string(),
            "N-1" => (n - 1).to_string(),
            e => e.to_string(),
        };
        let r = run_child(text, *n, 1024).map_err(|e| CaseFail::new("harness-spawn", e.to_string(), case.clone()))?;
        if r.status == 134 {
            return Err(CaseFail::new("stack-overflow-in-built-in-loop", format!("N = {n}, stack 1 MiB: {}", r.stderr), case));
        }
        if r.status != 0 || r.last_line != want {
            return Err(CaseFail::new("harness-loop-gives-unexpected-result", format!("N = {n}: exit {} last output {:?} (expected {want}) {}", r.status, r.last_line, r.stderr), case));
        }
        rss[j] = r.maxrss_kib;
    }
    if heap && rss[0] > 0 && rss[1] - rss[0] > SLACK_KIB {
        return Err(CaseFail::new("memory-grows-with-the-number-of-iterations", format!("peak resident set {} KiB at N = {N1}, {} KiB at N = {}: {} bytes per iteration", rss[0], rss[1], 2 * N1, (rss[1] - rss[0]) * 1024 / N1 as i64), case));
    }
    Ok(CaseOk::new(true, 7000 + i as u64).class("built-in-loop").bundle(2, vec![7000 + i as u64]).desc(Some(json!({"program": text, "peak_rss_kib": rss}))))
}

/// The recorded finding, demonstrated on the smallest nest.
fn known_demo(i: usize) -> CaseResult {
    if i > 0 {
        return Ok(CaseOk::trivial());
    }
    let text = "def f: if . >= $n then . else (foreach 0 as $z (.; .; (. + 1 | f))) end; 0 | f";
    let case = json!({"program": text, "iterations": [N1, 2 * N1]});
    match judge(text, "N", true, &case) {
        Ok(_) => Ok(CaseOk::new(true, 1).class("foreach-projection-loop-in-constant-memory")),
        Err(f) if f.sig == "memory-grows-with-the-number-of-iterations" => Err(CaseFail::new("foreach-projection-retains-memory", f.msg, case)),
        Err(f) => Err(f),
    }
}

pub fn run(mut rep: Report) -> ! {
    rep.set_rule(&format!(
        "nest = 1-7 definitions nested up to 3 levels; every definition has the loop test first and then one call in tail position - to itself, an ancestor, an earlier sibling or one of its nested definitions - under 1-3 stacked tail contexts out of 13 (as-binder, destructuring binder, comma after empty / after an output, // after empty / after false, then / else / elif branch, foreach projection, after a local def, pipe, pipe after binder); definitions take an optional filter argument and an optional variable argument, calls pass the arguments in scope on or give fresh ones; the loop state is the input (stepped by . + 1, by the filter argument or by the variable argument) or a variable argument $i (then also run for paths); consumers last / first(select) / label-break / limit / path(last) / last(path); each nest runs in a child process (the jaq binary of the tree, stack limited to 1 MiB) with N = {N1} and 2N iterations: must exit 0 with the value known by construction, and the peak resident set may grow by at most {SLACK_KIB} KiB from N to 2N (10 bytes per iteration); the twin of the nest with every call wrapped in first(..) is run at N and is expected to overflow; 28 built-in and hand-written loops likewise; evaluation = one child run; non-trivial = nest with >= 2 definitions, or arguments passed on, or >= 2 stacked tail contexts, and the twin did overflow"
    ));
    rep.assume("peak resident set as reported by /usr/bin/time stands for retained heap (a leak of >= 10 bytes per iteration shows; smaller ones do not); updates (|=) are not tail positions and are not generated");
    let known = rep.is_known("foreach-projection-retains-memory");
    rep.shrink_iters = 40;
    let n = rep.n(120, 20_000);
    rep.random("tail-recursive-nests", n, 96, move |src| nest_case(src, known));
    rep.fixed("built-in-loops", BUILTINS.len(), builtin_case);
    rep.fixed("known-finding-demonstration", 1, known_demo);
    rep.finish()
}
