//! C05 — no filter text, argument value or input document can crash jaq.
//!
//! Crash oracle: `catch_unwind` with a panic hook (harness and jaq are built with
//! debug assertions and overflow checks), and process death for the fronts that run
//! in child processes.
//!
//! (1) filter text: grammar-aware mutations of generated programs and of the manual's
//!     examples -> load + compile; every diagnostic must render (plain and painted);
//! (2) every named filter discovered from the current tree (natives and definitions) and every
//!     operator x inputs/arguments from a pool of boundary values: exhaustively for arity <= 2
//!     (sampled above), executed in child processes under an address-space limit, so that
//!     memory exhaustion / divergence (documented exceptions) end one child, are located,
//!     counted and skipped, while a panic is a violation;
//! (3) documents: valid documents of every format (written by jaq, plus hand-written ones with
//!     the formats' special constructs) under byte-level mutations -> decoder -> every encoder.

use serde_json::{json, Value};
use std::io::Write;
use vcore::gen::{self, Cfg};
use vcore::jq::{self, Out};
use vcore::mval::{int, tstr, MVal};
use vcore::runner::{fnv, fnv_str, CaseFail, CaseOk, CaseResult, Report};
use vcore::Src;

// ---------------------------------------------------------------- (1) filter text

const TOKENS: &[&str] = &[
    "|", ",", "(", ")", "[", "]", "{", "}", "\"", "\\(", "\\", "#", "?", "//", "?//", "as", "$", "$x", "@", "@base64", "::", "..", ".", "reduce", "foreach", "def", "if", "then", "elif", "else", "end", "try", "catch", "label", "break", "import", "include", ";", ":", "=", "|=", "+=", "//=",
    "and", "or", "not", "-", "+", "*", "/", "%", "==", "!=", "<", "<=", "é", "\u{0}", "\u{feff}", "\u{2028}", "1e1000", "0x", "1.", ".5", "1e", "99999999999999999999", "\"\\u12", "\"\\ud800\"", "\"\\x\"", "'", "`", "\r", "\n", "\t", " ", "$__loc__", "$__prog_args", "f(", "f(;", "{(", ".[", ".a.", "@x \"",
    "\"\\(\"\\(1)\")\"", "#\\\n", "#\\\\\n",
];

fn mutate(src: &mut Src, text: &str) -> String {
    let mut chars: Vec<char> = text.chars().collect();
    let n = 1 + src.below(4);
    for _ in 0..n {
        let len = chars.len();
        match src.below(7) {
            0 if len > 0 => {
                // delete a slice
                let a = src.below(len);
                let b = (a + 1 + src.below(4)).min(len);
                chars.drain(a..b);
            }
            1 if len > 0 => {
                // duplicate a slice
                let a = src.below(len);
                let b = (a + 1 + src.below(6)).min(len);
                let s: Vec<char> = chars[a..b].to_vec();
                let at = src.below(len + 1);
                for (i, c) in s.into_iter().enumerate() {
                    chars.insert((at + i).min(chars.len()), c);
                }
            }
            2 if len > 1 => {
                let a = src.below(len);
                let b = src.below(len);
                chars.swap(a, b);
            }
            3 if len > 0 => {
                // truncate
                let a = src.below(len);
                chars.truncate(a);
            }
            _ => {
                let t: Vec<char> = src.pick(TOKENS).chars().collect();
                let at = src.below(len + 1);
                for (i, c) in t.into_iter().enumerate() {
                    chars.insert(at + i, c);
                }
            }
        }
    }
    chars.into_iter().collect()
}

fn compile_and_render(text: &str) -> Result<&'static str, String> {
    let defs = jaq_all::defs();
    let funs = jaq_all::data::funs();
    let r = jq::guarded(|| match jaq_all::compile_with(text, defs, funs, &["g".to_string()]) {
        Ok(_) => "compiles",
        Err(errs) => {
            let mut n = 0;
            for e in &errs {
                // plain and painted rendering
                let plain = format!("{}", jaq_all::load::FileReportsDisp::new(e));
                let painted = format!("{}", jaq_all::load::FileReportsDisp::new(e).with_paint(|f, _style, disp| {
                    write!(f, "<<")?;
                    disp.fmt(f)?;
                    write!(f, ">>")
                }));
                n += plain.len() + painted.len();
            }
            if n == 0 {
                "rejected-without-message"
            } else {
                "rejected"
            }
        }
    });
    r
}

fn filter_text(src: &mut Src, examples: &[String]) -> CaseResult {
    let base = if src.chance(100) && !examples.is_empty() {
        src.pick(examples).clone()
    } else {
        let depth = 1 + src.below(4);
        vcore::gprog::program(src, vcore::gprog::Cfg::core(depth), &["$g"]).0
    };
    let text = if src.chance(24) { base.clone() } else { mutate(src, &base) };
    let case = || json!({"filter_text": text, "derived_from": base});
    vcore::runner::note_case(|| format!("filter text {text:?}"));
    match compile_and_render(&text) {
        Ok("rejected-without-message") => Err(CaseFail::new("rejected-without-diagnostic", "the filter is rejected but no diagnostic is rendered", case())),
        Ok(c) => Ok(CaseOk::new(text != base, fnv(text.as_bytes())).class(c).desc(if src.sample { Some(case()) } else { None })),
        Err(p) => Err(CaseFail::new(format!("panic:{}", jq::panic_sig(&p)), p, case())),
    }
}

// ---------------------------------------------------------------- (2) named filters and operators x boundary values

fn parse_m(s: &str) -> MVal {
    MVal::from_val(&jaq_json::read::parse_single(s.as_bytes()).unwrap())
}

/// pool of boundary values
pub fn pool() -> Vec<MVal> {
    let mut v: Vec<MVal> = vec![MVal::Null, MVal::Bool(true), MVal::Bool(false)];
    for i in gen::int_pool() {
        let lim = gen::pow2(62);
        v.push(MVal::Int(i.clone(), false));
        if i.clone() <= lim && i >= -lim.clone() && v.len() % 3 == 0 {
            v.push(MVal::Int(i, true));
        }
    }
    v.push(MVal::Int(0.into(), true));
    v.push(MVal::Int(1.into(), true));
    v.push(MVal::Int((-1).into(), true));
    for f in gen::FLOAT_POOL {
        v.push(MVal::Float(*f));
    }
    v.extend([MVal::Float(f64::NAN), MVal::Float(f64::INFINITY), MVal::Float(f64::NEG_INFINITY), MVal::Float(1e9), MVal::Float(-1e19), MVal::Float(0.1), MVal::Float(1e15 + 0.5)]);
    for d in ["1.0", "1e1000", "-1e1000", "0.0", "-0.0", "1e-400", "100e-2", "1.10", "+1.5", "+0.0", "+1e1000"] {
        v.push(MVal::Dec(d.into()));
        // the value that jaq computes as its negation (a decimal literal again, whatever text jaq gives it)
        if let Ok(n) = vcore::jq::eval1("-$x", &[("x", MVal::Dec(d.into()).to_val())], jaq_json::Val::Null) {
            v.push(MVal::from_val(&n));
        }
    }
    for s in [
        "", "a", "abc", "A b", "é€😀", "\u{0}", " \t\n", "%Y-%m-%dT%H:%M:%SZ", "%s", "%", "%Q", "%Z %z %j %G-W%V-%u", "%9999999999Y", "2015-03-05T23:51:47Z", "2015-03-05T23:51:47.123456+01:00", "10000-01-01T00:00:00Z", "-9999-12-31T23:59:60Z", "1", "1.5", "-0", "nan", "true", "null", "[1,2]",
        "{\"a\":1}", "(", "[", "a*", "(?:(a)|(b))*", "(?<n>a)|b", "\\", "\\d+", "^$", "(a|b)*c", "a{2,1}", "(?i)A", "x", "g", "gx", "nl", "zz", ",", "a,b\n\"c\"\"d\",e", "a\tb\\n", "<a x='1'>t</a>", "<!DOCTYPE a [<!ENTITY x \"y\">]><a>&x;</a>", "&a [*a]", "- &a 1\n- *a", "!!int x", "a: b: c", "[a]\nb = 1",
        "a = {b = 1}", "YQ==", "YQ", "%zz", "%41%", "&lt;&amp;", "'", "--", "ab", "ba", "abab", "\u{feff}", "\u{7f}", "Europe/Vienna", "../../etc/passwd", "/etc/passwd", "a.b.c", "start", "end", "key", "value",
    ] {
        v.push(tstr(s));
    }
    v.push(MVal::TStr(vec![0xff]));
    v.push(MVal::TStr(vec![b'a', 0x80, b'b']));
    v.push(MVal::TStr(vec![0xe2, 0x82]));
    v.push(MVal::TStr(vec![0xed, 0xa0, 0x80, b'x']));
    v.push(MVal::BStr(vec![]));
    v.push(MVal::BStr(vec![0, 255, 128]));
    v.push(MVal::BStr(b"abc".to_vec()));
    v.push(MVal::BStr(vec![0x83, 1, 2, 3]));
    v.push(MVal::BStr(vec![0xc2, 0x40]));
    v.push(MVal::BStr(vec![0x9f, 0xff]));
    v.push(MVal::BStr(vec![0xfb, 0x7f, 0xf8, 0, 0, 0, 0, 0, 0]));
    for s in [
        "[]", "[1,2,3]", "[[1,2],[3]]", "[\"a\",\"b\"]", "[null]", "[[]]", "[1,\"a\",null,[1],{\"a\":1}]", "[3,1,2,1]", "[0,0]", "[-1]", "[2015,2,5,23,51,47,4,63]", "[2015,2,5,23,51,47.5]", "[1970,0,1,0,0,0]", "[1e9,1e9,1e9,1e9,1e9,1e9]", "[-9999,0,1,0,0,0,0,0]", "[10000,11,31,23,59,60]",
        "[2015,12,32,24,60,61]", "[1.5,1.5,1.5,1.5,1.5,1.5]", "[\"a\",1]", "[1,[2,[3,[4]]]]", "[97,98,-1,1114112,55296]", "[255,256,-255]", "[{\"key\":\"a\",\"value\":1}]", "[{\"key\":null}]", "[{\"name\":\"n\",\"string\":\"s\"}]", "[[\"a\",1],[\"b\"]]", "[\"a\",[\"b\"]]",
        "[[1,2],[3,4,5],[]]", "[[0,1],[\"a\"]]", "[{\"start\":1,\"end\":2}]", "{}", "{\"a\":1}", "{\"a\":1,\"b\":[2]}", "{\"a\":{\"b\":{\"c\":null}}}", "{\"start\":1,\"end\":2}", "{\"start\":null}", "{\"start\":\"a\",\"end\":1e300}", "{\"t\":\"a\",\"a\":{\"x\":\"1\"},\"c\":[\"t\",{\"comment\":\"c\"}]}",
        "{\"t\":\"a\"}", "{\"xmldecl\":{\"version\":\"1.0\"}}", "{\"doctype\":{\"name\":\"a\"}}", "{\"key\":1,\"value\":2}", "{\"offset\":1,\"length\":2,\"string\":\"s\",\"captures\":[]}", "{1:2,null:3,[1]:4}", "{\"a\":[1,2,{\"b\":[3]}]}",
    ] {
        v.push(parse_m(s));
    }
    v
}

#[derive(Clone, Debug)]
pub struct Callee {
    /// program text with `$a0`, `$a1`, .. as variables
    pub prog: String,
    /// number of value arguments (variables) the program uses
    pub vars: usize,
    pub name: String,
}

/// every callable of the current tree: natives, definitions, operators, path forms
pub fn callees() -> Vec<Callee> {
    let mut sigs: Vec<(String, Vec<bool>)> = vcore::refrun::native_sigs();
    for d in vcore::refrun::prelude() {
        let kinds: Vec<bool> = d.args.iter().map(|a| a.starts_with('$')).collect();
        if !sigs.iter().any(|(n, k)| n == d.name && k.len() == kinds.len()) {
            sigs.push((d.name.to_string(), kinds));
        }
    }
    sigs.sort();
    let mut out = Vec::new();
    // effects on the terminal / silent divergence by design
    let skip = ["debug", "stderr", "halt_error", "until", "repl", "input_line_number"];
    for (name, kinds) in sigs {
        if skip.contains(&name.as_str()) || name.ends_with("_empty") {
            continue;
        }
        // filter arguments get a few shapes: the identity, a value argument, and (for one variant) a failing / empty filter
        let nf = kinds.iter().filter(|k| !**k).count();
        let variants: Vec<Vec<&str>> = match nf {
            0 => vec![vec![]],
            1 => vec![vec!["."], vec!["$F"], vec!["empty"], vec!["error"], vec!["(., $F)"]],
            _ => vec![vec![".", "."], vec!["$F", "."], vec![".", "$F"], vec!["$F", "$F"], vec!["empty", "."], vec![".", "error"]],
        };
        for var in variants {
            if name == "repeat" && var.first() == Some(&"empty") {
                continue; // repeats nothing forever (documented)
            }
            let mut nv = 0;
            let mut fi = 0;
            let mut args = Vec::new();
            for k in &kinds {
                if *k {
                    args.push(format!("$a{nv}"));
                    nv += 1;
                } else {
                    let shape = var.get(fi).copied().unwrap_or(".");
                    fi += 1;
                    if shape.contains("$F") {
                        args.push(shape.replace("$F", &format!("$a{nv}")));
                        nv += 1;
                    } else {
                        args.push(shape.to_string());
                    }
                }
            }
            let prog = if args.is_empty() { name.clone() } else { format!("{name}({})", args.join("; ")) };
            out.push(Callee { prog, vars: nv, name: format!("{name}/{}", kinds.len()) });
        }
    }
    for op in ["+", "-", "*", "/", "%", "==", "<", "<=", "and", "or", "//"] {
        out.push(Callee { prog: format!(". {op} $a0"), vars: 1, name: format!("operator {op}") });
    }
    for (p, n) in [
        ("-(.)", 0), (".[$a0]", 1), (".[$a0]?", 1), (".[$a0:$a1]", 2), (".[$a0:]", 1), (".[:$a0]", 1), (".[]?", 0), ("..", 0), (".[$a0] = $a1", 2), (".[$a0] |= empty", 1), (".[$a0:$a1] = $a0", 2), (".[$a0:$a1] |= empty", 2), ("del(.[$a0])", 1), ("to_entries", 0), (". as [$x, $y] | [$x, $y]", 0),
        (". as {a: $x, ($a0): $y} | [$x, $y]", 1), ("{($a0): .}", 1), ("\"\\(.)\"", 0), ("@sh \"\\(.)\"", 0), ("@csv \"\\(.)\"", 0), ("@json \"\\(.) \\($a0)\"", 1), ("[.] | implode", 0), ("[limit($a0; .[]?)]", 1), ("[limit(100; range($a0; $a1))] | length", 2), ("[limit(100; range(.; $a0; $a1))] | length", 2),
        ("path(.[$a0])", 1), ("[paths]", 0), ("getpath([$a0, $a1])", 2), ("setpath([$a0]; $a1)", 2), ("delpaths([[$a0]])", 1), ("tojson | fromjson", 0), ("$a0 | tojson", 1), ("[., $a0] | sort | unique | group_by(.)", 1), ("[., $a0] | min, max, add, any, all", 1), ("[., $a0] | bsearch($a1)", 2),
        ("{a: .} * {a: $a0}", 1), ("try error catch .", 0), ("[.[]?] | transpose?", 0), ("input_filename", 0), ("$__loc__", 0), ("ltrimstr($a0) | rtrimstr($a0)", 1), ("@base32 | @base32d", 0), ("strftime($a0) | strptime($a0)", 1), ("todate | fromdate", 0), ("gmtime | mktime", 0), ("localtime", 0),
        ("strflocaltime($a0)", 1), ("[match($a0; $a1)]", 2), ("sub($a0; $a1)", 2), ("ascii", 0), ("@uri \"a\\(.)b\"", 0), ("tobytes | .[$a0:$a1]", 2), ("ldexp(.; $a0)", 1), ("[splits($a0)]", 1), ("getpath($a0)", 1), ("pick(.[$a0])", 1), ("walk(if isnumber then . + $a0 else . end)", 1), ("env | length", 0), ("halt($a0)", 1),
    ] {
        out.push(Callee { prog: p.to_string(), vars: n, name: format!("form {p}") });
    }
    out
}

/// index space of the natives front: (callee, input, arguments)
struct Space {
    callees: Vec<Callee>,
    pool: Vec<MVal>,
    /// reduced pools for the second argument
    small: Vec<usize>,
    /// first index of each callee
    starts: Vec<u64>,
    total: u64,
    quick: bool,
}

impl Space {
    fn new(quick: bool) -> Space {
        let callees = callees();
        let pool = pool();
        // the 40 most diverse pool members for second arguments (every 4th, covering all kinds)
        let small: Vec<usize> = (0..pool.len()).filter(|i| i % if quick { 6 } else { 3 } == 0).collect();
        let mut starts = Vec::new();
        let mut total = 0u64;
        for c in &callees {
            starts.push(total);
            total += Self::count(c, pool.len() as u64, small.len() as u64, quick);
        }
        Space { callees, pool, small, starts, total, quick }
    }
    fn count(c: &Callee, n: u64, s: u64, quick: bool) -> u64 {
        match c.vars {
            0 => n,
            1 => n * n,
            2 => if quick { s * s * s } else { n * s * s },
            _ => s * s * s,
        }
    }
    /// (callee, input, args)
    fn case(&self, k: u64) -> (&Callee, &MVal, Vec<&MVal>) {
        let ci = match self.starts.binary_search(&k) {
            Ok(i) => i,
            Err(i) => i - 1,
        };
        let c = &self.callees[ci];
        let mut r = k - self.starts[ci];
        let (n, s) = (self.pool.len() as u64, self.small.len() as u64);
        let sm = |i: u64| &self.pool[self.small[i as usize]];
        match c.vars {
            0 => (c, &self.pool[r as usize], vec![]),
            1 => {
                let a = r % n;
                r /= n;
                (c, &self.pool[r as usize], vec![&self.pool[a as usize]])
            }
            2 => {
                let b = r % s;
                r /= s;
                let a = r % s;
                r /= s;
                if self.quick {
                    (c, sm(r), vec![sm(a), sm(b)])
                } else {
                    (c, &self.pool[r as usize], vec![sm(a), sm(b)])
                }
            }
            _ => {
                let b = r % s;
                r /= s;
                let a = r % s;
                r /= s;
                (c, sm(r), vec![sm(a), sm(b), sm(a)])
            }
        }
    }
}

fn magnitude(v: &MVal) -> f64 {
    match v {
        MVal::Arr(a) => a.iter().map(magnitude).fold(0.0, f64::max),
        other => other.as_f64().map_or(0.0, |f| if f.is_nan() { 0.0 } else { f.abs() }),
    }
}

/// Work or memory proportional to a numeric argument is the documented exception ("exhaustion of
/// stack or memory by unbounded ... allocation excepted"): such arguments are bounded for the few
/// callees that loop or allocate in proportion to them.
fn proportional(c: &Callee, input: &MVal, args: &[&MVal]) -> bool {
    let a0 = args.first().map_or(0.0, |a| magnitude(a));
    match c.name.as_str() {
        // string repetition allocates count x length bytes
        "operator *" => {
            let is_str = |v: &MVal| matches!(v, MVal::TStr(_) | MVal::BStr(_));
            (is_str(input) && a0 > 1e4) || (args.first().map_or(false, |a| is_str(a)) && magnitude(input) > 1e4)
        }
        "combinations/1" => a0 > 8.0,
        "jn/2" | "yn/2" => a0 > 1000.0,
        "transpose/0" => magnitude(input) > 1000.0,
        n if n.contains("transpose") => magnitude(input) > 1000.0,
        _ => false,
    }
}

fn run_case(c: &Callee, input: &MVal, args: &[&MVal]) -> Result<&'static str, String> {
    if proportional(c, input, args) {
        return Ok("skipped-proportional-work");
    }
    let names: Vec<String> = (0..c.vars).map(|i| format!("a{i}")).collect();
    let refs: Vec<&str> = names.iter().map(|s| s.as_str()).collect();
    let f = match jq::cached(&c.prog, &refs) {
        Some(f) => f,
        None => return Ok("does-not-compile"),
    };
    let outs = jq::run(&f, args.iter().map(|a| a.to_val()).collect(), input.to_val(), 12);
    match outs.last() {
        Some(Out::Panic(p)) => Err(p.clone()),
        Some(Out::Err(_)) => Ok("error"),
        Some(Out::Halt(_)) => Ok("halt"),
        Some(Out::Escape(_)) => Ok("escape"),
        Some(Out::Val(_)) => Ok("value"),
        None => Ok("no-output"),
    }
}

/// Child process: run cases `from..to` of the natives front.  Prints `P <index> <panic>` for every
/// panic, `@<index>` before every case in trace mode, and `DONE <values> <errors>` at the end.
pub fn child(args: &[String]) -> ! {
    let quick = args.iter().any(|a| a == "quick");
    let from: u64 = args.iter().position(|a| a == "--child").and_then(|p| args.get(p + 1)).and_then(|s| s.parse().ok()).unwrap_or(0);
    let to: u64 = args.iter().position(|a| a == "--child").and_then(|p| args.get(p + 2)).and_then(|s| s.parse().ok()).unwrap_or(0);
    let trace = args.iter().any(|a| a == "--trace");
    if args.iter().any(|a| a == "--describe") {
        let space = Space::new(quick);
        println!("{}", describe(&space, from));
        std::process::exit(0)
    }
    // memory exhaustion must end this process quickly instead of the machine
    unsafe {
        let lim = libc::rlimit { rlim_cur: 3 << 30, rlim_max: 3 << 30 };
        libc::setrlimit(libc::RLIMIT_AS, &lim);
    }
    let space = Space::new(quick);
    let out = std::io::stdout();
    let (mut values, mut errors) = (0u64, 0u64);
    for k in from..to.min(space.total) {
        let (c, input, a) = space.case(k);
        if trace {
            let mut o = out.lock();
            let _ = writeln!(o, "@{k}");
            let _ = o.flush();
        }
        match run_case(c, input, &a) {
            Ok("value") => values += 1,
            Ok(_) => errors += 1,
            // a request for more memory than the address space holds is memory exhaustion, too
            Err(p) if p.contains("capacity overflow") => errors += 1,
            Err(p) => {
                let mut o = out.lock();
                let _ = writeln!(o, "P {k} {}", p.replace('\n', " "));
            }
        }
    }
    println!("DONE {values} {errors}");
    std::process::exit(0)
}

fn describe(space: &Space, k: u64) -> Value {
    let (c, input, a) = space.case(k);
    let mut o = json!({"program": c.prog, "input": input.show()});
    for (i, x) in a.iter().enumerate() {
        o[format!("$a{i}")] = json!(x.show());
    }
    o
}

struct ChildOut {
    done: bool,
    panics: Vec<(u64, String)>,
    last_traced: Option<u64>,
    values: u64,
    errors: u64,
    status: String,
}

fn spawn_child(tier: &str, from: u64, to: u64, trace: bool, limit_s: u64) -> ChildOut {
    use std::process::{Command, Stdio};
    let exe = std::env::current_exe().expect("current exe");
    let mut cmd = Command::new(exe);
    cmd.arg("C05").arg(tier).arg("--child").arg(from.to_string()).arg(to.to_string());
    if trace {
        cmd.arg("--trace");
    }
    cmd.stdin(Stdio::null()).stdout(Stdio::piped()).stderr(Stdio::piped());
    let mut ch = cmd.spawn().expect("spawn child");
    let so = ch.stdout.take().unwrap();
    let se = ch.stderr.take().unwrap();
    let t_out = std::thread::spawn(move || {
        use std::io::Read;
        let mut b = Vec::new();
        let mut so = so;
        let _ = so.read_to_end(&mut b);
        b
    });
    let t_err = std::thread::spawn(move || {
        use std::io::Read;
        let mut b = Vec::new();
        let mut se = se;
        let _ = se.read_to_end(&mut b);
        b
    });
    let start = std::time::Instant::now();
    let mut killed = false;
    let status = loop {
        match ch.try_wait() {
            Ok(Some(st)) => break st,
            Ok(None) => {
                if start.elapsed().as_secs() > limit_s {
                    let _ = ch.kill();
                    killed = true;
                }
                std::thread::sleep(std::time::Duration::from_millis(20));
            }
            Err(_) => {
                let _ = ch.kill();
                killed = true;
            }
        }
    };
    let out = String::from_utf8_lossy(&t_out.join().unwrap_or_default()).into_owned();
    let err = String::from_utf8_lossy(&t_err.join().unwrap_or_default()).into_owned();
    let mut r = ChildOut { done: false, panics: Vec::new(), last_traced: None, values: 0, errors: 0, status: String::new() };
    for l in out.lines() {
        if let Some(rest) = l.strip_prefix("P ") {
            let mut it = rest.splitn(2, ' ');
            let k = it.next().and_then(|s| s.parse().ok()).unwrap_or(0);
            r.panics.push((k, it.next().unwrap_or("").to_string()));
        } else if let Some(rest) = l.strip_prefix('@') {
            r.last_traced = rest.parse().ok();
        } else if let Some(rest) = l.strip_prefix("DONE ") {
            r.done = true;
            let mut it = rest.split(' ');
            r.values = it.next().and_then(|s| s.parse().ok()).unwrap_or(0);
            r.errors = it.next().and_then(|s| s.parse().ok()).unwrap_or(0);
        }
    }
    use std::os::unix::process::ExitStatusExt;
    r.status = if killed {
        "time-limit".into()
    } else if err.contains("memory allocation of") || err.contains("capacity overflow") && false {
        "memory-exhausted".into()
    } else if err.contains("has overflowed its stack") {
        "stack-overflow".into()
    } else if let Some(sig) = status.signal() {
        format!("signal-{sig}:{}", err.lines().last().unwrap_or(""))
    } else {
        format!("exit-{}:{}", status.code().unwrap_or(-1), err.lines().last().unwrap_or(""))
    };
    r
}

// ---------------------------------------------------------------- (3) documents

const DOCS: &[(&str, &str)] = &[
    ("fromjson", "{\"a\":[1,2.5e3,\"x\\u00e9\\ud83d\\ude00\",null,true],\"b\":{\"c\":-0.0}} # c\n [NaN,Infinity,-Infinity,b\"\\xff\",{1:2}] 007 +1"),
    ("fromyaml", "---\na: &x [1, 2.5, .inf, -.inf, .nan, ~, yes]\nb: *x\nc: !!binary YWJj\nd: {e: 'f''g', \"h\\n\": |\n  lit\n  eral\n}\n? [k]\n: v\n...\n--- !!str 1\n"),
    ("fromyaml", "&a [*a]"),
    ("fromyaml", "- &a 1\n- &b [*a, *a]\n- {<<: {x: 1}, y: *b}\n- !!int '12'\n- !!float 1e3\n- 0x1F\n- 0o17\n- 1_000\n- >-\n  folded\n  text\n"),
    ("fromtoml", "a = 1\nb = \"x\\n\"\nc = [1, 2.5, nan, inf, -inf]\n[t]\nd = {e = 1, f = [{g = 2}]}\n[[u]]\nh = '''raw'''\n[[u]]\n\"i j\" = 0x1F\nk = 1979-05-27T07:32:00Z\n"),
    ("fromxml", "<?xml version=\"1.0\" encoding=\"UTF-8\" standalone=\"yes\"?>\n<?pi x?><!DOCTYPE a SYSTEM \"a.dtd\" [<!ENTITY x \"y\">]>\n<a x='1' y=\"&amp;\"><!-- c --><b:c xmlns:b=\"u\"/>t &x; &#65;<![CDATA[<&]]></a>"),
    ("fromcsv", "a,b,\"c,d\",\"e\"\"f\"\r\n1,2.5,true,\n,,\"\"\n\"x\ny\",NaN,Infinity,-1e3"),
    ("fromtsv", "a\tb\\tc\t\\n\\r\\\\\\0\n1\t2.5\ttrue\t\n\t\n"),
];

fn mutate_bytes(src: &mut Src, doc: &[u8]) -> Vec<u8> {
    let mut b = doc.to_vec();
    let n = src.below(5);
    for _ in 0..n {
        let len = b.len();
        match src.below(8) {
            0 if len > 0 => {
                let a = src.below(len);
                b[a] ^= 1 << src.below(8);
            }
            1 if len > 0 => {
                let a = src.below(len);
                b[a] = src.byte();
            }
            2 if len > 0 => {
                let a = src.below(len);
                let e = (a + 1 + src.below(8)).min(len);
                b.drain(a..e);
            }
            3 if len > 0 => {
                let a = src.below(len);
                b.truncate(a);
            }
            4 if len > 0 => {
                let a = src.below(len);
                let e = (a + 1 + src.below(8)).min(len);
                let s = b[a..e].to_vec();
                let at = src.below(len + 1);
                for (i, x) in s.into_iter().enumerate() {
                    b.insert(at + i, x);
                }
            }
            5 => {
                let at = src.below(len + 1);
                for (i, x) in src.pick(&[&b"\""[..], b"'", b"\\", b"\n", b"\r\n", b"\t", b",", b":", b"- ", b"&a", b"*a", b"!!", b"<", b">", b"<!--", b"]]>", b"&", b";", b"[", b"]", b"{", b"}", b"\xff", b"\x00", b"\xc3", b"\xef\xbb\xbf", b"1e999", b"0x", b"=", b"[[", b"#", b"%", b"|", b"? "]).iter().enumerate() {
                    b.insert(at + i, *x);
                }
            }
            6 if len > 1 => {
                let a = src.below(len);
                let c = src.below(len);
                b.swap(a, c);
            }
            _ => {
                let at = src.below(len + 1);
                b.insert(at, src.byte());
            }
        }
    }
    b
}

const WRITERS: &str = "[.[] | (try tojson catch 0), (try toyaml catch 0), (try tocbor catch 0), (try totoml catch 0), (try toxml catch 0), (try tocsv catch 0), (try totsv catch 0), (try tostring catch 0), (try @json catch 0)] | length";

fn documents(src: &mut Src) -> CaseResult {
    // a valid document: hand-written, or written by jaq from a generated value
    let (reader, doc): (String, Vec<u8>) = if src.chance(110) {
        let (r, d) = *src.pick(DOCS);
        (r.to_string(), d.as_bytes().to_vec())
    } else {
        let v = gen::gen_val(src, &Cfg { nan: true, depth: 3, ..Cfg::default() });
        let (w, r) = *src.pick(&[("tojson", "fromjson"), ("toyaml", "fromyaml"), ("tocbor", "fromcbor"), ("tojson", "fromyaml"), ("tojson", "fromtoml"), ("tojson", "fromcsv")]);
        match jq::eval1_m(w, &[], &v) {
            Ok(MVal::TStr(b)) | Ok(MVal::BStr(b)) => (r.to_string(), b),
            _ => (r.to_string(), b"[1, {\"a\": \"b\"}]".to_vec()),
        }
    };
    let m = mutate_bytes(src, &doc);
    let as_bytes = reader == "fromcbor" || src.chance(40);
    let input = if as_bytes { MVal::BStr(m.clone()) } else { MVal::TStr(m.clone()) };
    let prog = format!("[{reader}] | {WRITERS}");
    let case = || json!({"reader": reader, "document": input.show(), "writers": "tojson toyaml tocbor totoml toxml tocsv totsv tostring @json"});
    vcore::runner::note_case(|| format!("{reader} on {}", input.show()));
    let outs = jq::eval(&prog, &[], input.to_val(), 4).map_err(|e| CaseFail::new("harness-program", e, case()))?;
    match outs.last() {
        Some(Out::Panic(p)) => Err(CaseFail::new(format!("panic:{}", jq::panic_sig(p)), p.clone(), case())),
        last => Ok(CaseOk::new(m != doc, fnv(&m)).class(match reader.as_str() { "fromjson" => "json", "fromyaml" => "yaml", "fromcbor" => "cbor", "fromtoml" => "toml", "fromxml" => "xml", "fromcsv" => "csv", _ => "tsv" }).class(if matches!(last, Some(Out::Val(_))) { "accepted" } else { "rejected" }).desc(if src.sample { Some(case()) } else { None })),
    }
}

/// the readers of the coverage-guided target /verif/fuzz/fuzz_targets/documents.rs, in its order
const FUZZ_READERS: &[&str] = &[
    "fromjson | tojson",
    "[fromyaml] | map(toyaml, tojson)",
    "[fromxml] | map(toxml, tojson)",
    "fromtoml | totoml, tojson",
    "[fromcbor] | map(tocbor, tojson)",
    "[fromcsv] | map(tocsv, tojson)",
    "[fromtsv] | map(totsv, tojson)",
    "[fromyaml] | map(tocbor | fromcbor | tojson)",
];

/// One input of the libFuzzer target `documents`, run in-process (replay of its artifacts).
fn fuzz_document(data: &[u8], sample: bool) -> CaseResult {
    let Some((sel, doc)) = data.split_first() else { return Ok(CaseOk::trivial()) };
    let k = (*sel as usize) % FUZZ_READERS.len();
    let input = if k == 4 { MVal::BStr(doc.to_vec()) } else { MVal::TStr(doc.to_vec()) };
    let case = || json!({"reader": FUZZ_READERS[k], "document": String::from_utf8_lossy(&doc[..doc.len().min(400)]), "document_hex": doc.iter().take(400).map(|b| format!("{b:02x}")).collect::<String>()});
    match jq::eval(FUZZ_READERS[k], &[], input.to_val(), 64) {
        Err(e) => Err(CaseFail::new("harness", e, case())),
        Ok(outs) => match outs.last() {
            Some(Out::Panic(p)) => Err(CaseFail::new(format!("panic:{}", jq::panic_sig(p)), p.clone(), case())),
            last => Ok(CaseOk::new(true, fnv(data)).class(if matches!(last, Some(Out::Val(_))) { "accepted" } else { "rejected" }).desc(if sample { Some(case()) } else { None })),
        },
    }
}

fn fuzz_filter_text(data: &[u8], sample: bool) -> CaseResult {
    let Ok(code) = std::str::from_utf8(data) else { return Ok(CaseOk::trivial()) };
    let case = || json!({"filter": code.chars().take(400).collect::<String>()});
    match jq::guarded(|| jq::compile(code, &["x"]).is_ok()) {
        Err(p) => Err(CaseFail::new(format!("panic:{}", jq::panic_sig(&p)), p, case())),
        Ok(compiles) => Ok(CaseOk::new(true, fnv(data)).class(if compiles { "compiles" } else { "rejected" }).desc(if sample { Some(case()) } else { None })),
    }
}

/// Coverage-guided campaigns (cargo-fuzz / libFuzzer, address sanitizer, debug assertions) on the two
/// byte-level fronts. A crash artifact is re-run in-process to obtain its signature; its bytes are the replay.
struct Campaign {
    sub: &'static str,
    oks: Vec<CaseOk>,
    fails: Vec<(CaseFail, Vec<u8>)>,
    wall_s: f64,
    stats: serde_json::Value,
}

fn campaign(root: &str, seed: u64, runs: u64, target: &'static str, sub: &'static str) -> Campaign {
    let t0 = std::time::Instant::now();
    let corpus = format!("{root}/target/fuzz-corpus/{target}-{seed}");
    let arts = format!("{root}/target/fuzz-artifacts/{target}-{seed}/");
    let _ = std::fs::remove_dir_all(&corpus);
    let _ = std::fs::remove_dir_all(&arts);
    let _ = std::fs::create_dir_all(&corpus);
    let _ = std::fs::create_dir_all(&arts);
    if let Ok(rd) = std::fs::read_dir(format!("{root}/fuzz/seeds/{target}")) {
        for e in rd.flatten() {
            let _ = std::fs::copy(e.path(), format!("{corpus}/{}", e.file_name().to_string_lossy()));
        }
    }
    let not_run = |why: serde_json::Value, t0: std::time::Instant| Campaign { sub, oks: vec![], fails: vec![], wall_s: t0.elapsed().as_secs_f64(), stats: json!({"not_run": why}) };
    let out = std::process::Command::new("cargo")
        .args(["+nightly", "fuzz", "run", "--fuzz-dir", &format!("{root}/fuzz"), "--target-dir", &format!("{root}/target/fuzz"), target, &corpus, "--"])
        .args([&format!("-runs={runs}"), &format!("-seed={}", seed.max(1)), "-max_len=4096", "-len_control=0", "-timeout=20", "-rss_limit_mb=4000", "-print_final_stats=1", &format!("-artifact_prefix={arts}")])
        .env("CARGO_NET_OFFLINE", "true")
        .output();
    let out = match out {
        Ok(o) => o,
        Err(e) => return not_run(json!(e.to_string()), t0),
    };
    let err = String::from_utf8_lossy(&out.stderr).into_owned();
    let stat = |name: &str| err.lines().find_map(|l| l.strip_prefix(&format!("stat::{name}:")).and_then(|x| x.trim().parse::<u64>().ok())).unwrap_or(0);
    let executed = stat("number_of_executed_units");
    if executed == 0 && !err.contains("SUMMARY") && !err.contains("panicked") {
        // the target did not build or start: no verdict about jaq
        return not_run(json!(err.lines().rev().take(8).collect::<Vec<_>>()), t0);
    }
    let bin = format!("{root}/target/fuzz/x86_64-unknown-linux-gnu/release/{target}");
    let mut fails = Vec::new();
    let mut resource = 0;
    if let Ok(rd) = std::fs::read_dir(&arts) {
        for e in rd.flatten() {
            let name = e.file_name().to_string_lossy().into_owned();
            let Ok(bytes) = std::fs::read(e.path()) else { continue };
            // what the instrumented target says about this input
            let rerun = std::process::Command::new(&bin).arg(e.path()).output().map(|o| String::from_utf8_lossy(&o.stderr).into_owned()).unwrap_or_default();
            // exhaustion of stack or memory (and libFuzzer's own time/memory limits) is the documented exception
            if !name.starts_with("crash-") || rerun.contains("stack-overflow") || rerun.contains("out-of-memory") || rerun.contains("allocation-size-too-big") || rerun.contains("memory allocation of") {
                resource += 1;
                continue;
            }
            let r = if target == "documents" { fuzz_document(&bytes, false) } else { fuzz_filter_text(&bytes, false) };
            let fail = match r {
                Err(f) => f,
                // shows under the instrumented build only (sanitizer finding, or a panic the plain build does not reach)
                Ok(_) => CaseFail::new("crash-under-libfuzzer-only", rerun.lines().filter(|l| l.contains("panicked") || l.contains("SUMMARY") || l.contains("ERROR")).take(4).collect::<Vec<_>>().join(" | "), json!({"target": target, "artifact": name, "bytes_hex": bytes.iter().take(300).map(|x| format!("{x:02x}")).collect::<String>()})),
            };
            fails.push((fail, bytes));
        }
    }
    let files: Vec<std::path::PathBuf> = std::fs::read_dir(&corpus).map(|rd| rd.flatten().map(|e| e.path()).collect()).unwrap_or_default();
    let stats = json!({"executed_units": executed, "new_units_added": stat("new_units_added"), "corpus_files": files.len(), "resource_artifacts_not_counted": resource, "coverage_edges": err.lines().rev().find(|l| l.contains("cov:")).map(|l| l.split_whitespace().skip_while(|w| *w != "cov:").nth(1).unwrap_or("").to_string())});
    // non-trivial = inputs that libFuzzer kept because they reached new coverage
    let keys: Vec<u64> = files.iter().map(|p| fnv(p.file_name().unwrap().to_string_lossy().as_bytes())).collect();
    let sample = files.get(files.len() / 2).and_then(|p| std::fs::read(p).ok()).map(|b| json!({"target": target, "kept_input_hex": b.iter().take(200).map(|x| format!("{x:02x}")).collect::<String>(), "as_text": String::from_utf8_lossy(&b[..b.len().min(200)])}));
    Campaign { sub, oks: vec![CaseOk::new(false, 0).bundle(executed, keys).class("libfuzzer-campaign").desc(sample)], fails, wall_s: t0.elapsed().as_secs_f64(), stats }
}

/// Coverage-guided campaigns (cargo-fuzz / libFuzzer, address sanitizer, debug assertions) on the two
/// byte-level fronts, side by side. A crash artifact is classified by re-running the instrumented target
/// on it, and re-run in-process to obtain its signature; its bytes are the replay.
fn libfuzzer_stage(rep: &mut Report, runs: u64) {
    let root = rep.root().to_string();
    let seed = rep.seed;
    // build once, so that the two campaigns do not race for the build lock
    let _ = std::process::Command::new("cargo").args(["+nightly", "fuzz", "build", "--fuzz-dir", &format!("{root}/fuzz"), "--target-dir", &format!("{root}/target/fuzz")]).env("CARGO_NET_OFFLINE", "true").output();
    let (a, b) = std::thread::scope(|sc| {
        let (r1, r2) = (root.clone(), root.clone());
        let h1 = sc.spawn(move || campaign(&r1, seed, runs, "documents", "libfuzzer-documents"));
        let h2 = sc.spawn(move || campaign(&r2, seed, runs, "filter_text", "libfuzzer-filter-text"));
        (h1.join().unwrap(), h2.join().unwrap())
    });
    for c in [a, b] {
        rep.extra(&format!("{}-stats", c.sub), c.stats);
        if !c.oks.is_empty() || !c.fails.is_empty() {
            rep.external(c.sub, c.oks, c.fails, c.wall_s);
        }
    }
}

pub fn run(mut rep: Report) -> ! {
    rep.set_rule(
        "(1) filter texts: programs of the C01 generator and the manual's examples under 1-4 character/token-level mutations (delete, duplicate, swap, truncate, insert one of 90 tokens incl. unbalanced delimiters, unterminated strings/escapes/interpolations, comment continuations, multi-byte and control characters) -> load + compile with all diagnostics rendered plain and painted; \
         (2) every named filter of the current tree (natives and definitions, discovered at run time, with 1-6 shapes for filter arguments) plus operators, path forms, patterns, format strings and date/regex forms x inputs and value arguments from a pool of ~230 boundary values (integer boundaries in both representations incl. a big-integer zero, NaN/infinities/-0.0, decimal literals, empty/multi-byte/invalid-UTF-8 strings, byte strings incl. CBOR fragments, regex and format strings, date strings, broken-down times, slices, nested containers, non-string keys): exhaustive over the pool for arity 0 and 1 and over sub-pools (every 6th value in quick, every 3rd in thorough) for arity 2 and 3, executed in child processes under a 3 GiB address-space limit; \
         (3) documents: hand-written documents with each format's special constructs (YAML anchors/aliases/tags/merge keys/block scalars, XML declaration/DOCTYPE/entities/CDATA/PIs/namespaces, TOML tables/arrays of tables/dates, CSV/TSV quoting and escapes, XJON extensions) and documents written by jaq from generated values, under 0-4 byte-level mutations -> decoder -> every produced value through every encoder; \
         (4, thorough tier) coverage-guided campaigns with cargo-fuzz/libFuzzer (address sanitizer, debug assertions) on filter texts (parse + compile + rendering of reports) and on documents (first byte selects one of 8 reader/writer chains), 2 x 4 million executions from a seed corpus of golden documents, crash artifacts re-run in-process; non-trivial = mutated text (1), a call that yields a value (2), a mutated document (3), an input kept by libFuzzer for new coverage (4); a panic anywhere is a violation; memory exhaustion, stack exhaustion and runs beyond the time limit are the documented exceptions: located, counted and skipped",
    );
    rep.assume("compiled filters of mutated texts are not executed (a mutated program may recurse or loop without bound, which the property excepts); execution crash-freedom is front (2) and C01");
    rep.assume("memory exhaustion (abort on failed allocation under the address-space limit), stack overflow and runs exceeding 20 s per chunk are not violations: the case is identified by re-running its chunk with tracing, counted in `excluded_resource_cases` and skipped");
    let quick = rep.quick();
    let n = rep.n(60_000, 4_000_000);
    let examples: Vec<String> = vcore::manual::examples().into_iter().map(|e| e.filter).collect();
    {
        let ex = &examples;
        rep.random("filter-text-mutations", n, 200, move |src| filter_text(src, ex));
    }
    rep.random("document-mutations", n, 200, documents);
    // replay entry points of the coverage-guided campaigns (0 generated cases here: libFuzzer generates)
    rep.random("libfuzzer-documents", 0, 4096, |src| {
        let s = src.sample;
        fuzz_document(src.rest(), s)
    });
    rep.random("libfuzzer-filter-text", 0, 4096, |src| {
        let s = src.sample;
        fuzz_filter_text(src.rest(), s)
    });

    // (2) natives in child processes
    if !matches!(rep.mode, vcore::runner::Mode::Run) || std::env::var("VERIF_SUB").map_or(false, |s| !s.is_empty() && s != "natives") {
        if matches!(rep.mode, vcore::runner::Mode::Run) && std::env::var("VERIF_SUB").map_or(false, |s| s.starts_with("libfuzzer")) {
            let runs = std::env::var("VERIF_LIBFUZZER").ok().and_then(|s| s.parse().ok()).unwrap_or(4_000_000);
            libfuzzer_stage(&mut rep, runs);
        }
        rep.finish()
    }
    let space = Space::new(quick);
    let tier = if quick { "quick" } else { "thorough" };
    let chunk: u64 = 40_000;
    let total = space.total;
    let next = std::sync::atomic::AtomicU64::new(0);
    let results = std::sync::Mutex::new((Vec::<(u64, String)>::new(), Vec::<(u64, String)>::new(), 0u64, 0u64)); // panics, excluded, values, errors
    let per_chunk = std::sync::Mutex::new(std::collections::HashMap::<u64, u64>::new()); // chunk start -> calls that yielded a value
    std::thread::scope(|sc| {
        for _ in 0..rep.workers {
            sc.spawn(|| loop {
                let from = next.fetch_add(chunk, std::sync::atomic::Ordering::SeqCst);
                if from >= total {
                    break;
                }
                let to = (from + chunk).min(total);
                let mut at = from;
                while at < to {
                    let r = spawn_child(tier, at, to, false, 30);
                    {
                        let mut g = results.lock().unwrap();
                        g.0.extend(r.panics.iter().cloned());
                    }
                    if r.done {
                        let mut g = results.lock().unwrap();
                        g.2 += r.values;
                        g.3 += r.errors;
                        *per_chunk.lock().unwrap().entry(from).or_insert(0) += r.values;
                        break;
                    }
                    // the child died: find the case with tracing, skip it, go on behind it
                    let t = spawn_child(tier, at, to, true, 30);
                    let bad = match (t.done, t.last_traced) {
                        (false, Some(k)) => k,
                        // did not die again: nothing to skip
                        _ => {
                            let mut g = results.lock().unwrap();
                            g.0.extend(t.panics.iter().cloned());
                            g.2 += t.values;
                            g.3 += t.errors;
                            *per_chunk.lock().unwrap().entry(from).or_insert(0) += t.values;
                            break;
                        }
                    };
                    {
                        let mut g = results.lock().unwrap();
                        g.1.push((bad, t.status.clone()));
                        g.0.extend(t.panics.iter().filter(|(k, _)| *k < bad).cloned());
                    }
                    at = bad + 1;
                }
            });
        }
    });
    let (mut panics, excluded, values, errors) = results.into_inner().unwrap();
    let per_chunk = per_chunk.into_inner().unwrap();
    panics.sort();
    panics.dedup();
    // abnormal process ends that are not resource exhaustion are crashes, too
    let crashes: Vec<&(u64, String)> = excluded.iter().filter(|(_, s)| !(s == "time-limit" || s == "memory-exhausted" || s == "stack-overflow")).collect();
    rep.extra("natives_cases", json!(total));
    rep.extra("callees", json!(space.callees.len()));
    rep.extra("pool_values", json!(space.pool.len()));
    rep.extra("excluded_resource_cases", json!(excluded.iter().filter(|(_, s)| s == "time-limit" || s == "memory-exhausted" || s == "stack-overflow").map(|(k, s)| json!({"why": s, "case": describe(&space, *k)})).take(40).collect::<Vec<_>>()));
    rep.extra("excluded_resource_count", json!(excluded.len() - crashes.len()));
    {
        let (space, panics, crashes, per_chunk) = (&space, &panics, &crashes, &per_chunk);
        let nfail = panics.len() + crashes.len();
        // one evidence case per chunk plus one per failure
        let nchunks = ((total + chunk - 1) / chunk) as usize;
        rep.fixed("natives", nfail + nchunks, |i| {
            if i < panics.len() {
                let (k, p) = &panics[i];
                let (c, _, _) = space.case(*k);
                return Err(CaseFail::new(format!("panic:{}:{}", jq::panic_sig(p), c.name), p.clone(), describe(space, *k)));
            }
            if i < nfail {
                let (k, s) = crashes[i - panics.len()];
                return Err(CaseFail::new(format!("process-died:{}", s.split(':').next().unwrap_or("")), s.clone(), describe(space, *k)));
            }
            let ci = (i - nfail) as u64;
            let from = ci * chunk;
            let to = (from + chunk).min(total);
            // non-trivial = the call yielded a value; counted by the children (every case is distinct by index)
            let vals = per_chunk.get(&from).copied().unwrap_or(0).min(to - from);
            let keys: Vec<u64> = (from..from + vals).collect();
            Ok(CaseOk::new(false, 0).class("chunk").desc(if ci % 16 == 0 { Some(describe(space, from + (ci * 7919) % (to - from))) } else { None }).bundle(to - from, keys))
        });
    }
    rep.extra("natives_value_results", json!(values));
    rep.extra("natives_error_results", json!(errors));
    // (4) coverage-guided campaigns, thorough tier only (building the instrumented targets takes minutes)
    if !quick || std::env::var("VERIF_LIBFUZZER").is_ok() {
        let runs = std::env::var("VERIF_LIBFUZZER").ok().and_then(|s| s.parse().ok()).unwrap_or(4_000_000);
        libfuzzer_stage(&mut rep, runs);
    }
    rep.finish()
}
