//! C06 — executing filters and decoding documents touches no file, socket or process.
//!
//! Everything is observed at the system-call boundary of the binary built from the tree, with strace:
//! file-opening, file-modifying, network and process calls are recorded; the execution phase begins
//! where the first input file named on the command line is opened. In that phase the only calls
//! allowed are read-only opens of the remaining input files and of the time-zone database.
//!
//! (1) every callable (native filters and prelude definitions) x tuples of a hostile value pool (canary
//!     paths, traversal paths, URLs, command-like strings, zone names, format strings), in batches of
//!     ~150 guarded calls per process; (1b) every time/date filter x 41 inputs (epoch numbers, broken-down times, time strings whose zone name is a traversal path, an absolute path, a real zone, an unknown zone) x 19 arguments (zone-aware formats %Q %Z %:Q and zone names), with TZ unset and TZ=Europe/Vienna; (2) hostile documents per decoder, as input files (--from) and
//!     as strings given to the from* filters; (3) command lines with modules, data imports, --rawfile,
//!     --slurpfile and several input files: everything that is loaded is loaded before execution.

use serde_json::{json, Value};
use std::path::{Path, PathBuf};
use vcore::cli::{self, Cmd, Scratch};
use vcore::runner::{fnv_str, CaseFail, CaseOk, CaseResult, Report};
use vcore::Src;

static DIRN: std::sync::atomic::AtomicU64 = std::sync::atomic::AtomicU64::new(0);

const TRACED: &str = "open,openat,openat2,creat,socket,connect,bind,sendto,execve,execveat,fork,vfork,clone,clone3,unlink,unlinkat,rename,renameat,renameat2,mkdir,mkdirat,rmdir,link,linkat,symlink,symlinkat,chmod,fchmod,fchmodat,chown,fchown,lchown,fchownat,truncate,ftruncate,mknod,mknodat";

/// lexical normalisation (the kernel resolves `..` too; symbolic links inside the zone database are not followed here)
fn normalise(p: &str) -> String {
    let mut out: Vec<&str> = Vec::new();
    for c in p.split('/') {
        match c {
            "" | "." => {}
            ".." => {
                out.pop();
            }
            c => out.push(c),
        }
    }
    format!("/{}", out.join("/"))
}

fn is_tzdb(path: &str) -> bool {
    let n = normalise(path);
    ["/usr/share/zoneinfo", "/usr/lib/zoneinfo", "/usr/share/lib/zoneinfo", "/etc/zoneinfo"].iter().any(|p| n == *p || n.starts_with(&format!("{p}/"))) || n == "/etc/localtime" || n == "/etc/timezone"
}

struct Run {
    status: i32,
    stdout: String,
    stderr: String,
    /// offending events of the execution phase
    offences: Vec<String>,
    /// read-only time-zone look-ups seen in the execution phase
    tz_lookups: usize,
    boundary_found: bool,
}

/// Run jaq under strace in `dir`; `inputs` are the input file arguments in order (the first one marks the
/// start of the execution phase).
fn traced(dir: &Path, args: &[String], inputs: &[String], env: &[(&str, &str)]) -> std::io::Result<Run> {
    traced_ip(dir, args, inputs, env, false)
}

/// `in_place`: the documented exception - a temporary file may be created next to an input file, and must
/// then be renamed onto that input file or removed again before the process ends
fn traced_ip(dir: &Path, args: &[String], inputs: &[String], env: &[(&str, &str)], in_place: bool) -> std::io::Result<Run> {
    let n = DIRN.fetch_add(1, std::sync::atomic::Ordering::Relaxed);
    let log = dir.join(format!("trace-{n}.log"));
    let mut a: Vec<String> = vec!["-c".into(), "cd \"$0\" || exit 99; exec timeout 120 strace -f -qq -o \"$1\" -e trace=\"$2\" \"$@\"".into(), dir.to_string_lossy().into_owned(), log.to_string_lossy().into_owned(), TRACED.into()];
    // ("$@" still contains $1 and $2: drop them inside the shell)
    a[1] = "cd \"$0\" || exit 99; L=\"$1\"; T=\"$2\"; shift 2; exec timeout 120 strace -f -qq -o \"$L\" -e trace=\"$T\" \"$@\"".into();
    a.push(cli::jaq_bin().to_string_lossy().into_owned());
    a.extend(args.iter().cloned());
    let mut cmd = Cmd::new("/bin/sh").args(a).env("NO_COLOR", "1").env("HOME", "/nonexistent").env("RUST_BACKTRACE", "0");
    for (k, v) in env {
        cmd = cmd.env(k, v);
    }
    let out = cmd.run()?;
    let trace = std::fs::read_to_string(&log).unwrap_or_default();
    let _ = std::fs::remove_file(&log);
    let mut offences = Vec::new();
    let mut tz_lookups = 0;
    let mut phase = false;
    let mut remaining: Vec<&String> = inputs.iter().collect();
    let mut created: Vec<String> = Vec::new();
    for line in trace.lines() {
        let rest = line.trim_start_matches(|c: char| c.is_ascii_digit()).trim_start();
        if rest.starts_with("+++") || rest.starts_with("---") || rest.starts_with("<...") {
            continue;
        }
        let Some(p) = rest.find('(') else { continue };
        let name = &rest[..p];
        let quoted: Vec<&str> = rest.split('"').skip(1).step_by(2).collect();
        let is_open = matches!(name, "open" | "openat" | "openat2");
        if !phase {
            if is_open && inputs.first().map_or(false, |f| quoted.first() == Some(&f.as_str())) {
                phase = true;
                remaining.remove(0);
            }
            continue;
        }
        if in_place {
            let base = |p: &str| p.rsplit('/').next().unwrap_or(p).to_string();
            let is_input = |p: &str| inputs.iter().any(|f| f == p || p.ends_with(&format!("/{f}")));
            if is_open && rest.contains("O_CREAT") && rest.contains("O_EXCL") && quoted.first().map_or(false, |p| base(p).starts_with("jaq")) {
                created.push(quoted[0].to_string());
                continue;
            }
            if matches!(name, "rename" | "renameat" | "renameat2") && quoted.len() >= 2 && created.iter().any(|c| c == quoted[0]) && is_input(quoted[1]) {
                created.retain(|c| c != quoted[0]);
                continue;
            }
            if matches!(name, "unlink" | "unlinkat") && quoted.first().map_or(false, |p| created.iter().any(|c| c == p)) {
                created.retain(|c| c != quoted[0]);
                continue;
            }
            if matches!(name, "chmod" | "fchmodat" | "fchmod") && quoted.first().map_or(true, |p| is_input(p)) {
                continue;
            }
        }
        if is_open {
            let path = quoted.first().cloned().unwrap_or("");
            let writing = ["O_WRONLY", "O_RDWR", "O_CREAT", "O_TRUNC", "O_APPEND"].iter().any(|f| rest.contains(f));
            if writing {
                offences.push(format!("opens for writing: {}", rest.chars().take(200).collect::<String>()));
            } else if remaining.first().map_or(false, |f| f.as_str() == path) {
                remaining.remove(0);
            } else if is_tzdb(path) {
                tz_lookups += 1;
            } else {
                offences.push(format!("reads a file that is neither an input file nor in the time-zone database: {}", rest.chars().take(200).collect::<String>()));
            }
        } else if matches!(name, "clone" | "clone3") && rest.contains("CLONE_THREAD") {
            // a thread, not a process
        } else {
            offences.push(format!("{}", rest.chars().take(200).collect::<String>()));
        }
    }
    for c in created {
        offences.push(format!("a file created during execution was neither renamed onto an input file nor removed: {c}"));
    }
    Ok(Run { status: out.status, stdout: out.out_str(), stderr: out.err_str(), offences, tz_lookups, boundary_found: phase })
}

struct Pool {
    /// jq literals
    values: Vec<String>,
    canary_dir: PathBuf,
}

fn jstr(s: &str) -> String {
    serde_json::to_string(s).unwrap()
}

fn pool(dir: &Path) -> Pool {
    let canary_dir = dir.join("canary");
    let _ = std::fs::create_dir_all(&canary_dir);
    let _ = std::fs::write(canary_dir.join("secret.txt"), "canary contents\n");
    let _ = std::fs::write(dir.join("canary.txt"), "canary in the working directory\n");
    let c = canary_dir.join("secret.txt").to_string_lossy().into_owned();
    let pwn = canary_dir.join("pwned").to_string_lossy().into_owned();
    let mut values: Vec<String> = Vec::new();
    for s in [
        c.clone(),
        "canary.txt".into(),
        "./canary/secret.txt".into(),
        "../../../../../../etc/passwd".into(),
        "/etc/passwd".into(),
        "~/.ssh/id_rsa".into(),
        format!("file://{c}"),
        "http://127.0.0.1:1/x".into(),
        "//127.0.0.1/share".into(),
        format!("$(touch {pwn})"),
        format!("`touch {pwn}`"),
        format!("|touch {pwn}"),
        format!("; touch {pwn} #"),
        format!("x' ; touch {pwn} ; '"),
        "%Y-%m-%dT%H:%M:%S %Q".into(),
        "%Q".into(),
        "%s %Q".into(),
        "%Z %z %c".into(),
        "%Y-%m-%dT%H:%M:%S%z".into(),
        "2020-01-01T00:00:00 ../../../etc/passwd".into(),
        format!("2020-01-01T00:00:00 ../../..{c}"),
        "2020-01-01T00:00:00 Europe/Vienna".into(),
        "0 ../../../etc/passwd".into(),
        "../../../etc/passwd".into(),
        "Europe/Vienna".into(),
        "UTC".into(),
        "2020-01-01T00:00:00Z".into(),
        "2020-01-01T00:00:00+01:00".into(),
        "".into(),
        "a".into(),
        "g".into(),
    ] {
        values.push(jstr(&s));
    }
    // (no large numbers here: combinations($n), jn($n; x) and the like do work proportional to a numeric argument;
    // epoch-sized numbers are given to the time filters in their own sub-check)
    for v in ["null", "true", "0", "1", "-1", "3", "12", "[]", "[0, 1]", "{}", "[2020, 0, 1, 0, 0, 0, 3, 0]"] {
        values.push(v.to_string());
    }
    values.push(format!("[{}, {}]", jstr(&c), jstr("/etc/passwd")));
    values.push(format!("{{\"path\": {}, \"url\": \"http://127.0.0.1:1/\"}}", jstr(&c)));
    Pool { values, canary_dir }
}

fn canary_intact(p: &Pool, dir: &Path) -> Result<(), String> {
    let listing: Vec<String> = std::fs::read_dir(&p.canary_dir).map(|rd| rd.flatten().map(|e| e.file_name().to_string_lossy().into_owned()).collect()).unwrap_or_default();
    if listing != vec!["secret.txt".to_string()] {
        return Err(format!("canary directory now holds {listing:?}"));
    }
    if std::fs::read(p.canary_dir.join("secret.txt")).ok().as_deref() != Some(b"canary contents\n") || std::fs::read(dir.join("canary.txt")).ok().as_deref() != Some(b"canary in the working directory\n") {
        return Err("a canary file changed".into());
    }
    Ok(())
}

/// every callable of the tree: (name, kinds of its arguments: true = value)
fn callables() -> Vec<(String, Vec<bool>)> {
    let mut sigs: Vec<(String, Vec<bool>)> = vcore::refrun::native_sigs();
    for d in vcore::refrun::prelude() {
        let kinds: Vec<bool> = d.args.iter().map(|a| a.starts_with('$')).collect();
        if !sigs.iter().any(|(n, k)| n == d.name && k.len() == kinds.len()) {
            sigs.push((d.name.to_string(), kinds));
        }
    }
    sigs.sort();
    // repl: documented exception; halt*: end the process; until with a false condition never ends;
    // input_line_number: not callable in this build
    let skip = ["repl", "halt", "halt_error", "until", "input_line_number"];
    sigs.into_iter().filter(|(n, _)| !skip.contains(&n.as_str()) && !n.ends_with("_empty")).collect()
}

fn batch_case(i: u64, sample: bool, root: &Path, calls_per_batch: usize, tuples: usize, seed: u64) -> CaseResult {
    let sigs = callables();
    let total_calls = sigs.len() * tuples;
    let first = i as usize * calls_per_batch;
    if first >= total_calls {
        return Ok(CaseOk::trivial());
    }
    let dir = root.join(format!("b-{}", DIRN.fetch_add(1, std::sync::atomic::Ordering::Relaxed)));
    let _ = std::fs::create_dir_all(&dir);
    let p = pool(&dir);
    // call number c = callable (c / tuples), tuple (c % tuples); the tuple is drawn from a stream seeded by c
    let mut entries: Vec<(String, String)> = Vec::new();
    for c in first..(first + calls_per_batch).min(total_calls) {
        let (name, kinds) = &sigs[c / tuples];
        let bytes = vcore::runner::seeded_bytes(seed.wrapping_mul(1_000_003).wrapping_add(c as u64), "c06-tuple", 16);
        let mut src = Src::new(&bytes);
        let input = src.pick(&p.values).clone();
        let args: Vec<String> = kinds.iter().map(|_| src.pick(&p.values).clone()).collect();
        let call = if args.is_empty() { name.clone() } else { format!("{name}({})", args.join("; ")) };
        entries.push((format!("{name}/{}", kinds.len()), format!("{input} | {call}")));
    }
    let prog = format!("[{}]", entries.iter().map(|(_, e)| format!("(try ([limit(2; {e})] | \"ok\") catch \"err\")")).collect::<Vec<_>>().join(",\n "));
    let _ = std::fs::write(dir.join("prog.jq"), &prog);
    let _ = std::fs::write(dir.join("in.json"), "null\n\"second value\"\n");
    let case = |e: &str| json!({"batch": i, "command": "jaq -c -f prog.jq in.json", "calls": entries.iter().map(|(_, e)| e.clone()).collect::<Vec<_>>(), "note": e});
    vcore::runner::note_case(|| format!("C06 batch {i} callables {:?}: {}", { let mut n: Vec<&str> = entries.iter().map(|(n, _)| n.as_str()).collect(); n.dedup(); n }, entries.iter().map(|(_, e)| e.as_str()).collect::<Vec<_>>().join(" ;; ").chars().take(3000).collect::<String>()));
    let r = traced(&dir, &["-c".into(), "-f".into(), "prog.jq".into(), "in.json".into()], &["in.json".into()], &[]).map_err(|e| CaseFail::new("harness-spawn", e.to_string(), json!({})))?;
    let intact = canary_intact(&p, &dir);
    let _ = std::fs::remove_dir_all(&dir);
    if !r.offences.is_empty() {
        // find the culprit: the offending paths usually name it; the replay file lists the whole batch
        return Err(CaseFail::new("system-call-during-execution", format!("{} offending call(s), first: {}", r.offences.len(), r.offences[0]), case(&r.offences.join(" | "))));
    }
    if let Err(e) = intact {
        return Err(CaseFail::new("canary-changed", e, case("")));
    }
    if r.status == 124 {
        return Ok(CaseOk::trivial().class("discarded-batch-exceeds-time-limit"));
    }
    if !r.boundary_found || r.status != 0 {
        return Err(CaseFail::new("harness-batch-does-not-run", format!("exit {} boundary {} stderr {}", r.status, r.boundary_found, r.stderr.chars().take(600).collect::<String>()), case("")));
    }
    // which calls accepted their arguments
    let statuses: Vec<String> = serde_json::from_str::<Vec<String>>(r.stdout.lines().next().unwrap_or("[]")).unwrap_or_default();
    let keys: Vec<u64> = entries.iter().zip(statuses.iter()).filter(|(_, s)| s.as_str() == "ok").map(|((_, e), _)| fnv_str(&[e])).collect();
    let mut ok = CaseOk::new(!keys.is_empty(), i).bundle(entries.len() as u64, keys).class("batch-of-calls");
    if r.tz_lookups > 0 {
        ok = ok.class("batch-with-time-zone-look-ups");
    }
    if sample {
        ok = ok.desc(Some(json!({"batch": i, "first_calls": entries.iter().take(4).map(|(_, e)| e.clone()).collect::<Vec<_>>(), "accepted": statuses.iter().filter(|s| s.as_str() == "ok").count(), "of": entries.len(), "tz_lookups": r.tz_lookups})));
    }
    Ok(ok)
}

/// time filters x (time strings with zone names that are paths, numbers, broken-down times) x zone-aware formats
fn time_case(i: usize, root: &Path) -> CaseResult {
    let sigs: Vec<(String, Vec<bool>)> = callables().into_iter().filter(|(n, k)| k.len() <= 1 && ["time", "date", "strp", "strf", "local", "now"].iter().any(|p| n.contains(p))).collect();
    if i >= sigs.len() {
        return Ok(CaseOk::trivial());
    }
    let (name, kinds) = &sigs[i];
    let dir = root.join(format!("t-{}", DIRN.fetch_add(1, std::sync::atomic::Ordering::Relaxed)));
    let _ = std::fs::create_dir_all(&dir);
    let p = pool(&dir);
    let secret = p.canary_dir.join("secret.txt").to_string_lossy().into_owned();
    let zones = ["../../../etc/passwd".to_string(), format!("../../..{secret}"), secret.clone(), "/etc/passwd".into(), "Europe/Vienna".into(), "UTC".into(), "Nowhere/Land".into(), "./../zoneinfo/UTC".into(), "posix/../../../../etc/passwd".into()];
    let mut inputs: Vec<String> = vec!["0".into(), "1577836800".into(), "1577836800.5".into(), "[2020, 0, 1, 0, 0, 0, 3, 0]".into(), "\"2020-01-01T00:00:00Z\"".into()];
    for z in &zones {
        inputs.push(jstr(&format!("2020-01-01T00:00:00 {z}")));
        inputs.push(jstr(&format!("1577836800 {z}")));
        inputs.push(jstr(z));
        inputs.push(jstr(&format!("2020-01-01T00:00:00[{z}]")));
    }
    let formats: Vec<String> = ["%Y-%m-%dT%H:%M:%S %Q", "%s %Q", "%Q", "%Y-%m-%dT%H:%M:%S[%Q]", "%Y-%m-%dT%H:%M:%S %Z", "%Z", "%c %Q", "%Y-%m-%dT%H:%M:%SZ", "%+", "%:Q"].iter().map(|f| jstr(f)).collect();
    let mut entries: Vec<String> = Vec::new();
    for inp in &inputs {
        if kinds.is_empty() {
            entries.push(format!("{inp} | {name}"));
        } else {
            for f in formats.iter().chain(zones.iter().map(|z| jstr(z)).collect::<Vec<_>>().iter()) {
                entries.push(format!("{inp} | {name}({f})"));
            }
        }
    }
    let prog = format!("[{}]", entries.iter().map(|e| format!("(try ([limit(2; {e})] | \"ok\") catch \"err\")")).collect::<Vec<_>>().join(",\n "));
    let _ = std::fs::write(dir.join("prog.jq"), &prog);
    let _ = std::fs::write(dir.join("in.json"), "null\n");
    let case = json!({"callable": format!("{name}/{}", kinds.len()), "command": "jaq -c -f prog.jq in.json", "calls": entries.len(), "first_calls": entries.iter().take(6).collect::<Vec<_>>()});
    vcore::runner::note_case(|| case.to_string());
    let mut total_tz = 0;
    let mut accepted = 0;
    for tz in [None, Some("Europe/Vienna")] {
        let env: Vec<(&str, &str)> = tz.iter().map(|t| ("TZ", *t)).collect();
        let r = traced(&dir, &["-c".into(), "-f".into(), "prog.jq".into(), "in.json".into()], &["in.json".into()], &env).map_err(|e| CaseFail::new("harness-spawn", e.to_string(), json!({})))?;
        if !r.offences.is_empty() {
            let _ = std::fs::remove_dir_all(&dir);
            let mut c = case.clone();
            c["offences"] = json!(r.offences);
            return Err(CaseFail::new("system-call-during-execution", format!("{name}: {} offending call(s), first: {}", r.offences.len(), r.offences[0]), c));
        }
        if !r.boundary_found || r.status != 0 {
            let _ = std::fs::remove_dir_all(&dir);
            return Err(CaseFail::new("harness-batch-does-not-run", format!("exit {} stderr {}", r.status, r.stderr.chars().take(400).collect::<String>()), case));
        }
        total_tz += r.tz_lookups;
        accepted += r.stdout.matches("\"ok\"").count();
    }
    let intact = canary_intact(&p, &dir);
    let _ = std::fs::remove_dir_all(&dir);
    if let Err(e) = intact {
        return Err(CaseFail::new("canary-changed", e, case));
    }
    let mut ok = CaseOk::new(accepted > 0, 9000 + i as u64).bundle(2 * entries.len() as u64, (0..accepted as u64).map(|k| (9000 + i as u64) << 20 | k).collect()).class("time-filter");
    if total_tz > 0 {
        ok = ok.class("time-zone-database-look-ups-seen");
    }
    Ok(ok.desc(Some(json!({"callable": format!("{name}/{}", kinds.len()), "calls": entries.len(), "accepted": accepted, "tz_lookups": total_tz}))))
}

// ---------------------------------------------------------------- documents

/// (format, template with CANARY placeholders)
const DOCS: &[(&str, &str)] = &[
    ("xml", "<!DOCTYPE a SYSTEM \"CANARY\"><a/>"),
    ("xml", "<!DOCTYPE a PUBLIC \"-//X//DTD Y//EN\" \"CANARY\"><a>t</a>"),
    ("xml", "<!DOCTYPE a [<!ENTITY x SYSTEM \"CANARY\">]><a>&x;</a>"),
    ("xml", "<!DOCTYPE a [<!ENTITY % p SYSTEM \"CANARY\"> %p;]><a/>"),
    ("xml", "<!DOCTYPE a SYSTEM \"CANARY\" [<!ELEMENT a ANY>]><a/>"),
    ("xml", "<?xml version=\"1.0\"?><?xml-stylesheet type=\"text/xsl\" href=\"CANARY\"?><a/>"),
    ("xml", "<a xmlns:xi=\"http://www.w3.org/2001/XInclude\"><xi:include href=\"CANARY\" parse=\"text\"/></a>"),
    ("xml", "<a xmlns:xsi=\"http://www.w3.org/2001/XMLSchema-instance\" xsi:schemaLocation=\"urn:x CANARY\" xsi:noNamespaceSchemaLocation=\"CANARY\"/>"),
    ("xml", "<!DOCTYPE html PUBLIC \"-//W3C//DTD XHTML 1.0 Strict//EN\" \"http://www.w3.org/TR/xhtml1/DTD/xhtml1-strict.dtd\"><html xmlns=\"http://www.w3.org/1999/xhtml\"><head><link href=\"CANARY\"/></head></html>"),
    ("xml", "<a href=\"CANARY\">CANARY<!-- CANARY --><![CDATA[CANARY]]></a>"),
    // documents that are not valid UTF-8 and declare (or not) another encoding: \u{1} stands for the byte 0xE9
    ("xml", "<?xml version=\"1.0\" encoding=\"ISO-8859-1\"?><a>caf\u{1} CANARY</a>"),
    ("xml", "<?xml version=\"1.0\" encoding=\"UTF-7\"?><a x=\"\u{1}\">CANARY</a>"),
    ("xml", "<?xml version=\"1.0\" encoding=\"CANARY\"?><a>\u{1}</a>"),
    ("xml", "<?xml version=\"1.0\" encoding=\"UTF-16\"?><a>\u{1}\u{1}</a>"),
    ("yaml", "a: \"caf\u{1}\" # CANARY\n"),
    ("toml", "a = \"caf\u{1} CANARY\"\n"),
    ("csv", "caf\u{1},CANARY\n"),
    ("json", "\"caf\u{1} CANARY\""),
    ("yaml", "a: !include CANARY\n"),
    ("yaml", "!!python/object/apply:os.system [\"touch CANARY.pwned\"]\n"),
    ("yaml", "%TAG ! tag:CANARY,2000:\n--- !thing\na: 1\n"),
    ("yaml", "base: &b {path: \"CANARY\"}\nuse:\n  <<: *b\n  more: *b\n"),
    ("yaml", "- !!binary Q0FOQVJZ\n- !!str CANARY\n- !<tag:yaml.org,2002:str> CANARY\n"),
    ("yaml", "--- CANARY\n...\n--- |\n  CANARY\n"),
    ("yaml", "? CANARY\n: [CANARY, {CANARY: CANARY}]\n"),
    ("toml", "path = \"CANARY\"\n[include]\nfiles = [\"CANARY\"]\n"),
    ("toml", "\"CANARY\" = 1\n[[a]]\nb = 'CANARY'\n"),
    ("csv", "=cmd|' /C touch CANARY'!A0,@SUM(1+1),+HYPERLINK(\"CANARY\")\nCANARY,\"CANARY\",x\n"),
    ("tsv", "CANARY\t=IMPORTDATA(\"CANARY\")\n"),
    ("json", "{\"$ref\": \"CANARY\", \"include\": [\"CANARY\"], \"@import\": \"CANARY\"}"),
    // CBOR: tag 32 (URI) + text, tag 24 (embedded CBOR) + bytes, self-described tag 55799, unknown tag
    ("cbor", "HEX:d820 TEXT(CANARY)"),
    ("cbor", "HEX:d818 BYTES(TEXT(CANARY))"),
    ("cbor", "HEX:d9d9f7 a1 TEXT(CANARY) TEXT(CANARY)"),
    ("cbor", "HEX:db0000000100000000 82 TEXT(CANARY) d820 TEXT(CANARY)"),
];

fn cbor_text(s: &[u8], major: u8) -> Vec<u8> {
    let mut v = Vec::new();
    let n = s.len();
    if n < 24 {
        v.push((major << 5) | n as u8);
    } else if n < 256 {
        v.push((major << 5) | 24);
        v.push(n as u8);
    } else {
        v.push((major << 5) | 25);
        v.extend((n as u16).to_be_bytes());
    }
    v.extend(s);
    v
}

fn render_doc(template: &str, canary: &str) -> Vec<u8> {
    if let Some(spec) = template.strip_prefix("HEX:") {
        let mut out = Vec::new();
        for tok in spec.split_whitespace() {
            if tok == "TEXT(CANARY)" {
                out.extend(cbor_text(canary.as_bytes(), 3));
            } else if tok == "BYTES(TEXT(CANARY))" {
                out.extend(cbor_text(&cbor_text(canary.as_bytes(), 3), 2));
            } else {
                out.extend(vcore::runner::unhex(tok));
            }
        }
        out
    } else {
        let mut b = template.replace("CANARY", canary).into_bytes();
        for x in b.iter_mut() {
            if *x == 1 {
                *x = 0xE9;
            }
        }
        b
    }
}

fn doc_case(src: &mut Src, root: &Path) -> CaseResult {
    let sample = src.sample;
    let dir = root.join(format!("d-{}", DIRN.fetch_add(1, std::sync::atomic::Ordering::Relaxed)));
    let _ = std::fs::create_dir_all(&dir);
    let p = pool(&dir);
    let secret = p.canary_dir.join("secret.txt").to_string_lossy().into_owned();
    // one format per process, several documents as input files
    let fmt = *src.pick(&["xml", "xml", "yaml", "yaml", "toml", "csv", "tsv", "json", "cbor"]);
    let templates: Vec<&str> = DOCS.iter().filter(|d| d.0 == fmt).map(|d| d.1).collect();
    let ndocs = 2 + src.below(5);
    let mut files: Vec<String> = Vec::new();
    let mut texts: Vec<Vec<u8>> = Vec::new();
    for k in 0..ndocs {
        let t = *src.pick(&templates);
        let canary = match src.below(7) {
            0 => secret.clone(),
            1 => "canary.txt".to_string(),
            2 => format!("file://{secret}"),
            3 => "http://127.0.0.1:1/x.dtd".to_string(),
            4 => "../canary.txt".to_string(),
            5 => "/etc/passwd".to_string(),
            _ => "./canary/secret.txt".to_string(),
        };
        let mut doc = render_doc(t, &canary);
        // a mutation now and then: a span removed or doubled (malformed documents take other decoder paths)
        if src.chance(60) && doc.len() > 4 {
            let a = src.below(doc.len());
            let b = (a + 1 + src.below(8)).min(doc.len());
            if src.bool() {
                doc.drain(a..b);
            } else {
                let span: Vec<u8> = doc[a..b].to_vec();
                doc.splice(a..a, span);
            }
        }
        let name = format!("doc{k}.{}", if src.chance(128) { fmt } else { "dat" });
        let _ = std::fs::write(dir.join(&name), &doc);
        files.push(name);
        texts.push(doc);
    }
    // as input files (decoder chosen by --from), and as strings given to the from* filter
    let via_filter = src.chance(100) && fmt != "json";
    let (args, inputs): (Vec<String>, Vec<String>) = if via_filter {
        let arr: Vec<Value> = texts.iter().map(|t| if fmt == "cbor" { json!(t.iter().map(|b| *b as u64).collect::<Vec<u64>>()) } else { json!(String::from_utf8_lossy(t)) }).collect();
        let _ = std::fs::write(dir.join("in.json"), serde_json::to_string(&arr).unwrap());
        let conv = if fmt == "cbor" { "map(. as $b | [$b[] | [.] | implode] | add // \"\" | tobytes? // .) | .[] | try fromcbor catch \"err\"".to_string() } else { format!(".[] | try [from{fmt}] catch \"err\"") };
        (vec!["-c".into(), conv, "in.json".into()], vec!["in.json".into()])
    } else {
        let mut a: Vec<String> = vec!["-c".into(), "--from".into(), fmt.into(), "try (., (.. | strings | length)) catch \"err\"".into()];
        a.extend(files.iter().cloned());
        (a, files.clone())
    };
    let case = json!({"command": format!("jaq {}", args.iter().map(|a| format!("{a:?}")).collect::<Vec<_>>().join(" ")), "documents": texts.iter().map(|t| String::from_utf8_lossy(&t[..t.len().min(300)]).into_owned()).collect::<Vec<_>>()});
    vcore::runner::note_case(|| case.to_string());
    let r = traced(&dir, &args, &inputs, &[]).map_err(|e| CaseFail::new("harness-spawn", e.to_string(), json!({})))?;
    let intact = canary_intact(&p, &dir);
    let _ = std::fs::remove_dir_all(&dir);
    if !r.offences.is_empty() {
        return Err(CaseFail::new("system-call-during-decoding", format!("{} offending call(s), first: {}", r.offences.len(), r.offences[0]), case));
    }
    if let Err(e) = intact {
        return Err(CaseFail::new("canary-changed", e, case));
    }
    if !r.boundary_found {
        return Err(CaseFail::new("harness-run-does-not-start", format!("exit {} stderr {}", r.status, r.stderr.chars().take(400).collect::<String>()), case));
    }
    // non-trivial: at least one document was decoded to a value
    let decoded = r.stdout.lines().any(|l| l != "\"err\"" && !l.is_empty());
    let mut ok = CaseOk::new(decoded, fnv_str(&[&case.to_string()])).class(match fmt {
        "xml" => "xml",
        "yaml" => "yaml",
        "toml" => "toml",
        "cbor" => "cbor",
        "json" => "json",
        _ => "csv-tsv",
    });
    ok = ok.class(if via_filter { "through-from-filter" } else { "as-input-files" });
    if sample {
        ok = ok.desc(Some(case));
    }
    Ok(ok)
}

// ---------------------------------------------------------------- load phase before execution

fn phase_case(src: &mut Src, root: &Path) -> CaseResult {
    let sample = src.sample;
    let dir = root.join(format!("p-{}", DIRN.fetch_add(1, std::sync::atomic::Ordering::Relaxed)));
    let _ = std::fs::create_dir_all(dir.join("lib"));
    let p = pool(&dir);
    let _ = std::fs::write(dir.join("lib/m.jq"), "import \"d\" as $md {search: \".\"}; def mf: $md | length; def lazy: [limit(3; repeat(1))];");
    let _ = std::fs::write(dir.join("lib/d.json"), "1 2 3");
    let _ = std::fs::write(dir.join("lib/n.jq"), "def nf: \"n\";");
    let _ = std::fs::write(dir.join("d.json"), "[\"main data\"]");
    let _ = std::fs::write(dir.join("raw.txt"), "raw text");
    let _ = std::fs::write(dir.join("slurp.json"), "1 [2]");
    let nin = 1 + src.below(3);
    let mut inputs = Vec::new();
    for k in 0..nin {
        let name = format!("in{k}.json");
        let _ = std::fs::write(dir.join(&name), format!("{}\n{}\n", k, src.pick(&p.values)));
        inputs.push(name);
    }
    // the filter uses what was loaded only late, after the first outputs
    let mut pre = String::new();
    let mut uses: Vec<&str> = vec!["."];
    let mut args: Vec<String> = vec!["-c".into()];
    if src.chance(180) {
        pre.push_str("include \"m\" {search: \"lib\"}; ");
        uses.push("mf");
        uses.push("lazy");
    }
    if src.chance(128) {
        pre.push_str("import \"n\" as n; ");
        args.extend(["-L".into(), "lib".into()]);
        uses.push("n::nf");
    }
    if src.chance(128) {
        pre.push_str("import \"d\" as $d {search: \".\"}; ");
        uses.push("$d");
    }
    if src.chance(128) {
        args.extend(["--rawfile".into(), "r".into(), "raw.txt".into()]);
        uses.push("$r");
    }
    if src.chance(128) {
        args.extend(["--slurpfile".into(), "s".into(), "slurp.json".into()]);
        uses.push("$s");
    }
    let hostile = src.pick(&p.values).clone();
    // --in-place is the documented exception: its temporary file must not outlive the run, however it ends
    let in_place = src.chance(70);
    let ending = if in_place { *src.pick(&["", " | if .[0] == 1 then error(\"boom\") else . end", " | if .[0] == 1 then halt else . end", " | if .[0] == 0 then (\"bye\" | halt_error(1)) else . end", " | if .[0] == 2 then {a: .}.a.b.c else . end"]) } else { "" };
    if in_place {
        args.push("-i".into());
    }
    let body = format!("[{}, ({hostile} | try (tojson, @sh, @uri, (strptime(\"%Q\")? // 0), (ltrimstr(\"/\")), input_filename) catch \"err\")]{ending}", uses.join(", "));
    let prog = format!("{pre}{body}");
    if src.chance(100) {
        let _ = std::fs::write(dir.join("main.jq"), &prog);
        args.extend(["-f".into(), "main.jq".into()]);
    } else {
        args.push(prog.clone());
    }
    args.extend(inputs.iter().cloned());
    let case = json!({"command": format!("jaq {}", args.iter().map(|a| format!("{a:?}")).collect::<Vec<_>>().join(" ")), "program": prog});
    vcore::runner::note_case(|| case.to_string());
    let r = traced_ip(&dir, &args, &inputs, &[], in_place).map_err(|e| CaseFail::new("harness-spawn", e.to_string(), json!({})))?;
    let intact = canary_intact(&p, &dir);
    let _ = std::fs::remove_dir_all(&dir);
    if !r.offences.is_empty() {
        return Err(CaseFail::new("system-call-during-execution", format!("{} offending call(s), first: {}", r.offences.len(), r.offences[0]), case));
    }
    if let Err(e) = intact {
        return Err(CaseFail::new("canary-changed", e, case));
    }
    if !r.boundary_found || (r.status != 0 && ending.is_empty()) {
        return Err(CaseFail::new("harness-scenario-does-not-run", format!("exit {} stderr {}", r.status, r.stderr.chars().take(400).collect::<String>()), case));
    }
    let mut ok = CaseOk::new(uses.len() > 1, fnv_str(&[&case.to_string()])).class(if nin > 1 { "several-input-files" } else { "one-input-file" });
    if uses.len() > 2 {
        ok = ok.class("modules-and-data-loaded-before-execution");
    }
    if in_place {
        ok = ok.class(if ending.is_empty() { "in-place-run-that-succeeds" } else { "in-place-run-that-may-end-early" });
    }
    if sample {
        ok = ok.desc(Some(case));
    }
    Ok(ok)
}

pub fn run(mut rep: Report) -> ! {
    let sigs = callables();
    let quick = rep.quick();
    let tuples = if quick { 48 } else { 600 };
    let per_batch = 160;
    let nbatches = (sigs.len() * tuples).div_ceil(per_batch) as u64;
    rep.set_rule(&format!(
        "monitor: strace -f on the jaq binary of the tree recording open/openat/openat2/creat, socket/connect/bind/sendto, execve/fork/vfork/clone, unlink/rename/mkdir/rmdir/link/symlink/chmod/chown/truncate/mknod families; the execution phase starts at the open of the first input file named on the command line; in it only read-only opens of the remaining input files and of the time-zone database (/usr/share/zoneinfo, /etc/localtime, /etc/timezone; path normalised, so ../ escapes count) are allowed, every other recorded call - attempted or successful - is a violation; canary files must be unchanged and the canary directory must gain no entry; \
         (1) {} callables (all native filters and prelude definitions except repl, halt, halt_error, until) x {tuples} tuples (input and every argument drawn from a pool of {} hostile values: canary and traversal paths, file:// and http:// URLs, shell command injections, strptime/strftime formats with %Q/%Z, time strings with zone names that are paths, plain values), {per_batch} guarded calls per process (program given with -f); evaluation = one call, non-trivial = the call accepted its arguments (produced a value); \
         (1b) every time/date filter x 41 inputs (epoch numbers, broken-down times, time strings whose zone name is a traversal path, an absolute path, a real zone, an unknown zone) x 19 arguments (zone-aware formats %Q %Z %:Q and zone names), with TZ unset and TZ=Europe/Vienna; (2) hostile documents (34 templates, incl. documents that are not valid UTF-8 and declare another encoding: XML external DTD / entities / parameter entities / stylesheet PI / XInclude / schemaLocation, YAML !include / python tags / %TAG / merge keys / binary, TOML, CSV/TSV formula cells, JSON $ref, CBOR tags 32 / 24 / 55799 / unknown) x 7 canary spellings x span mutations, 2-6 per process, decoded as input files (--from, or by extension) or by the from* filters; non-trivial = a document decoded to a value; \
         (3) command lines with include/import of modules (search metadata and -L), data imports in the main program and in a module, --rawfile, --slurpfile, -f, 1-3 input files whose values are hostile strings passed to tojson/@sh/@uri/strptime/ltrimstr: everything loaded must be opened before the first input file; with --in-place (the documented exception) and filters that fail or halt at the second file, the temporary file created next to an input must be renamed onto it or removed before the process ends",
        sigs.len(),
        pool(Path::new("/nonexistent-c06")).values.len()
    ));
    rep.assume("strace sees every system call of jaq and its threads; the list of callables comes from the library crates of the tree (a native filter that exists only in the binary crate, like repl, is not enumerated); batches run with a 120 s limit");
    let scratch = Scratch::new("c06");
    let root = scratch.path.clone();
    let seed = rep.seed;
    rep.workers = rep.workers.min(6);
    rep.shrink_iters = 60;
    {
        let r = root.clone();
        rep.indexed("callables-with-hostile-arguments", nbatches, 1, true, move |i, s| batch_case(i, s, &r, per_batch, tuples, seed));
    }
    {
        let r = root.clone();
        let ntime = callables().into_iter().filter(|(n, k)| k.len() <= 1 && ["time", "date", "strp", "strf", "local", "now"].iter().any(|p| n.contains(p))).count();
        rep.fixed("time-filters-with-zone-names", ntime, move |i| time_case(i, &r));
    }
    let n = rep.n(400, 20_000);
    {
        let r = root.clone();
        rep.random("hostile-documents", n, 64, move |src| doc_case(src, &r));
    }
    {
        let r = root.clone();
        rep.random("load-phase-before-execution", n / 3, 64, move |src| phase_case(src, &r));
    }
    drop(scratch);
    rep.finish()
}
