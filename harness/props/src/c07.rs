//! C07 — print-then-parse is the identity on values; JSON texts mean what
//! RFC 8259 says.  Oracles: round trip (through the filters, the library
//! writer with every option, and the binary), an independent JSON text
//! generator that knows the value it spells, and serde_json as second parser.

use jaq_json::write::Pp;
use jaq_json::Val;
use num_bigint::BigInt;
use serde_json::json;
use std::cmp::Ordering;
use vcore::cli::{Cmd, Scratch};
use vcore::gen::{self, Cfg};
use vcore::jq;
use vcore::mval::{cmp_m, int, order_domain, tstr, MVal};
use vcore::runner::{fnv, fnv_str, CaseFail, CaseOk, CaseResult, Report};
use vcore::Src;

/// Indistinguishability of a value and its re-parsed print: same
/// integer/non-integer class (a float may come back as the decimal literal
/// that spells exactly it), same text/byte distinction, same key order.
fn indist(a: &MVal, b: &MVal) -> bool {
    use MVal::*;
    match (a, b) {
        (Null, Null) => true,
        (Bool(x), Bool(y)) => x == y,
        (Int(x, _), Int(y, _)) => x == y,
        (Float(x), Float(y)) => (x.is_nan() && y.is_nan()) || x.to_bits() == y.to_bits(),
        (Float(x), Dec(s)) => s.parse::<f64>().map_or(false, |y| y.to_bits() == x.to_bits()) && x.is_finite(),
        (Dec(x), Dec(y)) => x == y,
        (TStr(x), TStr(y)) | (BStr(x), BStr(y)) => x == y,
        (Arr(x), Arr(y)) => x.len() == y.len() && x.iter().zip(y).all(|(p, q)| indist(p, q)),
        (Obj(x), Obj(y)) => x.len() == y.len() && x.iter().zip(y).all(|((k1, v1), (k2, v2))| indist(k1, k2) && indist(v1, v2)),
        _ => false,
    }
}

/// recursively key-sorted copy (model order); None if a key set is outside the order's domain
fn sort_rec(v: &MVal) -> Option<MVal> {
    Some(match v {
        MVal::Arr(a) => MVal::Arr(a.iter().map(sort_rec).collect::<Option<Vec<_>>>()?),
        MVal::Obj(o) => {
            for (k1, _) in o {
                for (k2, _) in o {
                    if !order_domain(k1, k2) {
                        return None;
                    }
                }
            }
            let mut e: Vec<(MVal, MVal)> = o.iter().map(|(k, v)| Some((sort_rec(k)?, sort_rec(v)?))).collect::<Option<Vec<_>>>()?;
            e.sort_by(|p, q| cmp_m(&p.0, &q.0));
            MVal::Obj(e)
        }
        other => other.clone(),
    })
}

fn pps() -> Vec<(&'static str, Pp, bool)> {
    let mk = |indent: Option<&str>, sort: bool, sep: bool| Pp { indent: indent.map(|s| s.to_string()), sort_keys: sort, sep_space: sep, styles: Default::default() };
    vec![
        ("compact", mk(None, false, false), false),
        ("compact-sepspace", mk(None, false, true), false),
        ("indent2", mk(Some("  "), false, true), false),
        ("indent0", mk(Some(""), false, true), false),
        ("tab", mk(Some("\t"), false, true), false),
        ("indent7", mk(Some("       "), false, true), false),
        ("compact-sorted", mk(None, true, false), true),
        ("indent2-sorted", mk(Some("  "), true, true), true),
    ]
}

fn parse_all(bytes: &[u8]) -> Result<Vec<Val>, String> {
    jaq_json::read::parse_many(bytes).collect::<Result<Vec<_>, _>>().map_err(|e| e.to_string())
}
fn read_all(bytes: &[u8]) -> Result<Vec<Val>, String> {
    jaq_json::read::read_many(std::io::BufReader::with_capacity(7, bytes)).collect::<Result<Vec<_>, _>>().map_err(|e| e.to_string())
}

fn check_value(v: &MVal, sample: bool) -> CaseResult {
    let case = || json!({"value": v.show(), "debug": format!("{v:?}").chars().take(300).collect::<String>()});
    let val = v.to_val();
    // R1 through the filters
    let outs = jq::eval("tojson | [., fromjson, (fromjson|tojson)]", &[], val.clone(), 3).map_err(|e| CaseFail::new("compile", e, case()))?;
    let r = match outs.as_slice() {
        [jq::Out::Val(r)] => MVal::from_val(r),
        other => return Err(CaseFail::new("tojson-fromjson-fails", format!("tojson|fromjson gave {}", jq::show_outs(other)), case())),
    };
    let (text, back, text2) = match &r {
        MVal::Arr(x) if x.len() == 3 => (&x[0], &x[1], &x[2]),
        // the printed text reads back as several values
        other => return Err(CaseFail::new("roundtrip-filters", format!("tojson|fromjson gave several values: {}", other.show()), case())),
    };
    if !indist(v, back) {
        return Err(CaseFail::new("roundtrip-filters", format!("tojson gave {} and fromjson read it back as {} ({:?})", text.show(), back.show(), back), case()));
    }
    if !text.same(text2) {
        return Err(CaseFail::new("reprint-differs", format!("printed form changed: {} vs {}", text.show(), text2.show()), case()));
    }
    // R1 through the library writer with every option and both lexers
    let sorted = sort_rec(v);
    for (name, pp, is_sorted) in pps() {
        let mut buf = Vec::new();
        jaq_json::write::write(&mut buf, &pp, 0, &val).map_err(|e| CaseFail::new("write-fails", e.to_string(), case()))?;
        let want: &MVal = if is_sorted {
            match &sorted {
                Some(s) => s,
                None => continue,
            }
        } else {
            v
        };
        for (lexer, res) in [("slice", parse_all(&buf)), ("iter", read_all(&buf))] {
            let msg = |what: String| CaseFail::new(format!("roundtrip-writer:{name}"), format!("options {name}, {lexer} lexer, text {:?}: {what}", String::from_utf8_lossy(&buf)), case());
            match res {
                Ok(vals) if vals.len() == 1 => {
                    let w = MVal::from_val(&vals[0]);
                    if !indist(want, &w) {
                        return Err(msg(format!("read back as {}", w.show())));
                    }
                }
                Ok(vals) => return Err(msg(format!("{} values read back", vals.len()))),
                Err(e) => return Err(msg(format!("does not parse: {e}"))),
            }
        }
        // compact output never contains a raw line break (the CLI prints one value per line)
        if pp.indent.is_none() && buf.contains(&b'\n') {
            return Err(CaseFail::new("compact-contains-newline", String::from_utf8_lossy(&buf).into_owned(), case()));
        }
    }
    // R4: JSON-representable values print as valid JSON meaning the same
    if json_representable(v) {
        let mut buf = Vec::new();
        jaq_json::write::write(&mut buf, &Pp::default(), 0, &val).unwrap();
        match serde_json::from_slice::<serde_json::Value>(&buf) {
            Ok(sv) => {
                let m = from_serde(&sv);
                if !json_equiv(v, &m) {
                    return Err(CaseFail::new("independent-parser-disagrees", format!("jaq printed {:?}, which an independent JSON parser reads as {}", String::from_utf8_lossy(&buf), m.show()), case()));
                }
            }
            Err(e) => return Err(CaseFail::new("invalid-json-for-representable-value", format!("jaq printed {:?}: {e}", String::from_utf8_lossy(&buf)), case())),
        }
    }
    let nontrivial = needs_care(v);
    let mut ok = CaseOk::new(nontrivial, fnv(format!("{v:?}").as_bytes()));
    if json_representable(v) {
        ok = ok.class("json-representable");
    }
    if sample {
        ok = ok.desc(Some(json!({"value": v.show(), "tojson": text.show()})));
    }
    Ok(ok)
}

fn needs_care(v: &MVal) -> bool {
    match v {
        MVal::Int(i, _) => i.bits() > 62,
        MVal::Float(_) | MVal::Dec(_) | MVal::BStr(_) => true,
        MVal::TStr(s) => s.iter().any(|c| *c < 0x20 || *c == b'"' || *c == b'\\' || *c >= 0x7f),
        MVal::Arr(a) => a.iter().any(needs_care),
        MVal::Obj(o) => o.len() >= 2 || o.iter().any(|(k, v)| !matches!(k, MVal::TStr(_)) || needs_care(k) || needs_care(v)),
        _ => false,
    }
}

fn json_representable(v: &MVal) -> bool {
    match v {
        MVal::Float(f) => f.is_finite(),
        MVal::Dec(s) => rfc_number(s),
        MVal::BStr(_) => false,
        MVal::TStr(s) => std::str::from_utf8(s).is_ok(),
        MVal::Arr(a) => a.iter().all(json_representable),
        MVal::Obj(o) => o.iter().all(|(k, v)| matches!(k, MVal::TStr(_)) && json_representable(k) && json_representable(v)),
        _ => true,
    }
}

/// RFC 8259 number grammar (jaq's reader is more lenient, e.g. leading zeros)
fn rfc_number(s: &str) -> bool {
    let b = s.as_bytes();
    let mut i = 0;
    if b.get(i) == Some(&b'-') {
        i += 1;
    }
    match b.get(i) {
        Some(b'0') => i += 1,
        Some(b'1'..=b'9') => {
            while matches!(b.get(i), Some(b'0'..=b'9')) {
                i += 1
            }
        }
        _ => return false,
    }
    if b.get(i) == Some(&b'.') {
        i += 1;
        if !matches!(b.get(i), Some(b'0'..=b'9')) {
            return false;
        }
        while matches!(b.get(i), Some(b'0'..=b'9')) {
            i += 1
        }
    }
    if matches!(b.get(i), Some(b'e' | b'E')) {
        i += 1;
        if matches!(b.get(i), Some(b'+' | b'-')) {
            i += 1;
        }
        if !matches!(b.get(i), Some(b'0'..=b'9')) {
            return false;
        }
        while matches!(b.get(i), Some(b'0'..=b'9')) {
            i += 1
        }
    }
    i == b.len()
}

/// serde_json (arbitrary_precision + preserve_order) value to model
fn from_serde(v: &serde_json::Value) -> MVal {
    use serde_json::Value as S;
    match v {
        S::Null => MVal::Null,
        S::Bool(b) => MVal::Bool(*b),
        S::Number(n) => {
            let s = n.to_string();
            match s.parse::<BigInt>() {
                Ok(i) if !s.contains(['.', 'e', 'E']) => MVal::Int(i, false),
                _ => MVal::Dec(s),
            }
        }
        S::String(s) => MVal::TStr(s.as_bytes().to_vec()),
        S::Array(a) => MVal::Arr(a.iter().map(from_serde).collect()),
        S::Object(o) => MVal::Obj(o.iter().map(|(k, v)| (MVal::TStr(k.as_bytes().to_vec()), from_serde(v))).collect()),
    }
}

/// same JSON meaning: integers exact, other numbers as doubles, strings, order of keys
fn json_equiv(a: &MVal, b: &MVal) -> bool {
    use MVal::*;
    match (a, b) {
        (Int(x, _), Int(y, _)) => x == y,
        (x, y) if x.is_num() && y.is_num() && !x.is_int() && !y.is_int() => {
            let (p, q) = (x.as_f64().unwrap(), y.as_f64().unwrap());
            p == q || (p.is_nan() && q.is_nan())
        }
        (Arr(x), Arr(y)) => x.len() == y.len() && x.iter().zip(y).all(|(p, q)| json_equiv(p, q)),
        (Obj(x), Obj(y)) => x.len() == y.len() && x.iter().zip(y).all(|((k1, v1), (k2, v2))| json_equiv(k1, k2) && json_equiv(v1, v2)),
        (x, y) => x.same(y),
    }
}

// ------------------------------------------------------------------ exhaustive domains

const ALPHA: [&[u8]; 24] = [
    b"\"", b"\\", b"/", b"\0", b"\x08", b"\x0c", b"\n", b"\r", b"\t", b"\x1f", b" ", b"\x7f", b"a", b"u", b"x", b"b",
    "é".as_bytes(), "€".as_bytes(), "😀".as_bytes(), b"\xff", b"\x80", b"\xed\xa0\x80", b"\xc0", b"}",
];

fn alpha_string(mut i: u64, len: usize) -> Vec<u8> {
    let mut out = Vec::new();
    for _ in 0..len {
        out.extend_from_slice(ALPHA[(i % 24) as usize]);
        i /= 24;
    }
    out
}

fn edge_numbers() -> Vec<MVal> {
    let mut v = Vec::new();
    for f in gen::FLOAT_POOL {
        v.push(MVal::Float(*f));
        v.push(MVal::Float(-*f));
    }
    for e in -330..=310 {
        let f: f64 = format!("1e{e}").parse().unwrap();
        v.push(MVal::Float(f));
        v.push(MVal::Float(f * 1.0000000000000002));
        v.push(MVal::Float(f * 0.9999999999999999));
        v.push(MVal::Float(-f * 3.0));
    }
    for f in [f64::NAN, f64::INFINITY, f64::NEG_INFINITY, 0.1 + 0.2, 1.0 / 3.0, 2f64.powi(53) + 2.0, 123456789.125, 5e-324, 1.7976931348623157e308, 4.9406564584124654e-324] {
        v.push(MVal::Float(f));
    }
    for i in gen::int_pool() {
        v.push(MVal::Int(i.clone(), false));
        v.push(MVal::Int(i, true));
    }
    for d in gen::DEC_POOL {
        v.push(MVal::Dec(d.to_string()));
    }
    for d in ["0.1e-400", "007.50", "1E+2", "1e+2", "1E-2", "0.0e0", "-0e-0", "12345678901234567890.12345678901234567890", "1.7976931348623159e308", "4.9e-325", "0.30000000000000004", "1.0000000000000000000000001"] {
        // only literals jaq's own reader accepts end up as values: 007.50 is not valid JSON but is kept if it parses
        v.push(MVal::Dec(d.to_string()));
    }
    v
}

// ------------------------------------------------------------------ JSON text generator

fn ws(src: &mut Src, out: &mut Vec<u8>) {
    match src.below(8) {
        0 => out.push(b' '),
        1 => out.push(b'\n'),
        2 => out.push(b'\t'),
        3 => out.push(b'\r'),
        4 => out.extend(b" \n\t "),
        5 => out.extend(b"\r\n"),
        _ => {}
    }
}

fn spell_string(src: &mut Src, s: &str, out: &mut Vec<u8>) {
    out.push(b'"');
    for c in s.chars() {
        let cp = c as u32;
        let must_escape = cp < 0x20 || c == '"' || c == '\\';
        let style = if must_escape { 1 + src.below(2) } else { src.weighted(&[6, 1, 1]) };
        match style {
            0 => {
                let mut b = [0; 4];
                out.extend(c.encode_utf8(&mut b).as_bytes());
            }
            1 => {
                // short escape where one exists, else \u
                let short = match c {
                    '"' => Some("\\\""),
                    '\\' => Some("\\\\"),
                    '/' => Some("\\/"),
                    '\u{8}' => Some("\\b"),
                    '\u{c}' => Some("\\f"),
                    '\n' => Some("\\n"),
                    '\r' => Some("\\r"),
                    '\t' => Some("\\t"),
                    _ => None,
                };
                match short {
                    Some(e) => out.extend(e.as_bytes()),
                    None => u_escape(src, cp, out),
                }
            }
            _ => u_escape(src, cp, out),
        }
    }
    out.push(b'"');
}

fn u_escape(src: &mut Src, cp: u32, out: &mut Vec<u8>) {
    let upper = src.bool();
    let mut one = |u: u32| {
        let s = if upper { format!("\\u{u:04X}") } else { format!("\\u{u:04x}") };
        out.extend(s.as_bytes());
    };
    if cp >= 0x10000 {
        let v = cp - 0x10000;
        one(0xD800 + (v >> 10));
        one(0xDC00 + (v & 0x3ff));
    } else {
        one(cp);
    }
}

fn gen_json_number(src: &mut Src) -> MVal {
    let digits = |src: &mut Src, n: usize| -> String { (0..n).map(|_| (b'0' + src.below(10) as u8) as char).collect() };
    let neg = src.bool();
    let int_part = match src.below(4) {
        0 => "0".to_string(),
        1 => format!("{}", 1 + src.below(9)),
        2 => {
            let n = src.below(25);
            format!("{}{}", 1 + src.below(9), digits(src, n))
        }
        _ => {
            let n = 17 + src.below(60);
            format!("{}{}", 1 + src.below(9), digits(src, n))
        }
    };
    let frac = if src.bool() {
        let m = if src.chance(30) { 40 } else { 5 };
        let n = 1 + src.below(m);
        format!(".{}", digits(src, n))
    } else {
        String::new()
    };
    let exp = if src.chance(90) {
        format!("{}{}{}", if src.bool() { "e" } else { "E" }, *src.pick(&["", "+", "-"]), { let n = 1 + src.below(4); digits(src, n) })
    } else {
        String::new()
    };
    let text = format!("{}{int_part}{frac}{exp}", if neg { "-" } else { "" });
    if frac.is_empty() && exp.is_empty() {
        MVal::Int(text.parse::<BigInt>().unwrap(), false)
    } else {
        MVal::Dec(text)
    }
}

fn gen_json_string(src: &mut Src) -> String {
    let n = src.below(6);
    let mut s = String::new();
    for _ in 0..n {
        match src.weighted(&[6, 3, 1]) {
            0 => s.push(*src.pick(&['a', 'b', 'z', ' ', '"', '\\', '/', '\n', '\r', '\t', '\u{8}', '\u{c}', '\0', '\u{1f}', '\u{7f}', 'é', '€', '😀', '\u{fffd}', '\u{2028}', '\u{ffff}', '\u{10ffff}', '\u{d7ff}', '\u{e000}', '\u{10000}', 'u', '{', ':'])),
            1 => s.push((b' ' + src.below(95) as u8) as char),
            _ => s.push(char::from_u32(src.below(0x110000) as u32).unwrap_or('?')),
        }
    }
    s
}

/// Generates a value and a JSON text spelling it; duplicates = whether duplicate keys were inserted
fn gen_json(src: &mut Src, depth: usize, out: &mut Vec<u8>, dup: &mut bool) -> MVal {
    ws(src, out);
    let v = match if depth == 0 { src.below(5) } else { src.below(8) } {
        0 => {
            out.extend(b"null");
            MVal::Null
        }
        1 => {
            let b = src.bool();
            out.extend(if b { &b"true"[..] } else { b"false" });
            MVal::Bool(b)
        }
        2 | 3 => {
            let n = gen_json_number(src);
            out.extend(n.xjon());
            n
        }
        4 => {
            let s = gen_json_string(src);
            spell_string(src, &s, out);
            MVal::TStr(s.into_bytes())
        }
        5 => {
            // deep nest
            let k = src.below(30);
            for _ in 0..k {
                out.push(b'[');
                ws(src, out);
            }
            let inner = gen_json(src, depth - 1, out, dup);
            let mut v = inner;
            for _ in 0..k {
                ws(src, out);
                out.push(b']');
                v = MVal::Arr(vec![v]);
            }
            v
        }
        6 => {
            out.push(b'[');
            let n = src.below(4);
            let mut a = Vec::new();
            for i in 0..n {
                if i > 0 {
                    out.push(b',');
                }
                a.push(gen_json(src, depth - 1, out, dup));
            }
            ws(src, out);
            out.push(b']');
            MVal::Arr(a)
        }
        _ => {
            out.push(b'{');
            let n = src.below(4);
            let mut o: Vec<(MVal, MVal)> = Vec::new();
            for i in 0..n {
                if i > 0 {
                    out.push(b',');
                }
                ws(src, out);
                let k = if !o.is_empty() && src.chance(50) {
                    *dup = true;
                    match &src.pick(&o).0 {
                        MVal::TStr(b) => String::from_utf8(b.clone()).unwrap(),
                        _ => unreachable!(),
                    }
                } else {
                    gen_json_string(src)
                };
                spell_string(src, &k, out);
                ws(src, out);
                out.push(b':');
                let v = gen_json(src, depth - 1, out, dup);
                let kb = k.into_bytes();
                match o.iter_mut().find(|(k2, _)| matches!(k2, MVal::TStr(b) if *b == kb)) {
                    Some(e) => {
                        *dup = true;
                        e.1 = v
                    }
                    None => o.push((MVal::TStr(kb), v)),
                }
            }
            ws(src, out);
            out.push(b'}');
            MVal::Obj(o)
        }
    };
    ws(src, out);
    v
}

fn eq_unordered(a: &MVal, b: &MVal) -> bool {
    match (a, b) {
        (MVal::Arr(x), MVal::Arr(y)) => x.len() == y.len() && x.iter().zip(y).all(|(p, q)| eq_unordered(p, q)),
        (MVal::Obj(x), MVal::Obj(y)) => x.len() == y.len() && x.iter().all(|(k, v)| y.iter().any(|(k2, v2)| k.same(k2) && eq_unordered(v, v2))),
        (x, y) => x.same(y),
    }
}

fn check_text(src: &mut Src) -> CaseResult {
    let mut text = Vec::new();
    let mut dup = false;
    let want = gen_json(src, 3, &mut text, &mut dup);
    let case = || json!({"text": String::from_utf8_lossy(&text), "expected": want.show()});
    for (lexer, res) in [("slice", parse_all(&text)), ("iter", read_all(&text))] {
        let vals = res.map_err(|e| CaseFail::new("rejects-valid-json", format!("{lexer} lexer: {e}"), case()))?;
        if vals.len() != 1 {
            return Err(CaseFail::new("wrong-value-count", format!("{lexer} lexer read {} values", vals.len()), case()));
        }
        let got = MVal::from_val(&vals[0]);
        let ok = if dup { eq_unordered(&want, &got) } else { want.same(&got) };
        if !ok {
            return Err(CaseFail::new("json-text-wrong-value", format!("{lexer} lexer read {} ({:?})", got.show(), got), case()));
        }
        // untouched non-integer literals print character for character; integers exactly
        let printed = format!("{}", vals[0]);
        let reparsed = parse_all(printed.as_bytes()).map_err(|e| CaseFail::new("reprint-does-not-parse", e, case()))?;
        if reparsed.len() != 1 || !MVal::from_val(&reparsed[0]).same(&got) {
            return Err(CaseFail::new("reprint-changes-value", printed, case()));
        }
    }
    // through fromjson as well
    let via = jq::eval1("fromjson", &[], Val::utf8_str(text.clone())).map_err(|e| CaseFail::new("fromjson-rejects-valid-json", e, case()))?;
    if !(if dup { eq_unordered(&want, &MVal::from_val(&via)) } else { want.same(&MVal::from_val(&via)) }) {
        return Err(CaseFail::new("fromjson-wrong-value", format!("{via}"), case()));
    }
    // the independent parser must agree with the generator (validates the generator)
    match serde_json::from_slice::<serde_json::Value>(&text) {
        Ok(sv) => {
            let m = from_serde(&sv);
            if !eq_unordered(&strip_dec(&want), &strip_dec(&m)) {
                return Err(CaseFail::new("harness-generator-vs-serde", format!("serde_json reads {}", m.show()), case()));
            }
        }
        Err(e) => return Err(CaseFail::new("harness-generator-invalid-json", e.to_string(), case())),
    }
    let has_escape = text.windows(2).any(|w| w[0] == b'\\');
    let has_exp = text.iter().any(|c| *c == b'e' || *c == b'E');
    let mut ok = CaseOk::new(has_escape || has_exp || dup, fnv(&text));
    if dup {
        ok = ok.class("duplicate-keys");
    }
    if has_escape {
        ok = ok.class("escapes");
    }
    if src.sample {
        ok = ok.desc(Some(case()));
    }
    Ok(ok)
}

/// normalise decimal spellings to doubles for the generator self-check
fn strip_dec(v: &MVal) -> MVal {
    match v {
        MVal::Dec(s) => MVal::Float(s.parse().unwrap_or(f64::NAN)),
        MVal::Arr(a) => MVal::Arr(a.iter().map(strip_dec).collect()),
        MVal::Obj(o) => MVal::Obj(o.iter().map(|(k, v)| (k.clone(), strip_dec(v))).collect()),
        o => o.clone(),
    }
}

// ------------------------------------------------------------------ through the binary

const CLI_OPTS: &[&[&str]] = &[&["-c"], &[], &["-S"], &["-c", "-S"], &["--indent", "0"], &["--indent", "1"], &["--indent", "3"], &["--indent", "8"], &["--tab"], &["--tab", "-S"], &["--indent", "5", "-S"], &["-M"], &["--tab", "-c"]];

fn cli_roundtrip(vals: &[MVal], opts: &[&str], scratch: &Scratch) -> CaseResult {
    let mut doc = Vec::new();
    for v in vals {
        doc.extend(v.xjon());
        doc.push(b'\n');
    }
    let f = scratch.file("vals.json", &doc);
    let case = || json!({"options": opts, "values": vals.len(), "first": vals.first().map(|v| v.show())});
    let o1 = Cmd::jaq().args(opts.iter().copied()).arg(".").arg(&f).run().map_err(|e| CaseFail::new("spawn", e.to_string(), case()))?;
    if o1.status != 0 {
        return Err(CaseFail::new("cli-print-fails", format!("exit {} stderr {}", o1.status, o1.err_str()), case()));
    }
    let o2 = Cmd::jaq().arg("-c").arg(".").stdin(o1.stdout.clone()).run().map_err(|e| CaseFail::new("spawn", e.to_string(), case()))?;
    if o2.status != 0 {
        return Err(CaseFail::new("cli-reparse-fails", format!("exit {} stderr {}", o2.status, o2.err_str()), case()));
    }
    let lines: Vec<&[u8]> = o2.stdout.split(|c| *c == b'\n').filter(|l| !l.is_empty()).collect();
    if lines.len() != vals.len() {
        return Err(CaseFail::new("cli-value-count", format!("{} values in, {} lines out", vals.len(), lines.len()), case()));
    }
    let sorted = opts.contains(&"-S");
    for (v, l) in vals.iter().zip(lines) {
        let got = jaq_json::read::parse_single(l).map_err(|e| CaseFail::new("cli-output-does-not-parse", format!("{e}: {:?}", String::from_utf8_lossy(l)), case()))?;
        let got = MVal::from_val(&got);
        let want = if sorted {
            match sort_rec(v) {
                Some(s) => s,
                None => continue,
            }
        } else {
            v.clone()
        };
        if !indist(&want, &got) {
            return Err(CaseFail::new(
                "cli-roundtrip",
                format!("value {} came back as {}", want.show(), got.show()),
                json!({"options": opts, "value": v.show()}),
            ));
        }
    }
    Ok(CaseOk::new(true, fnv_str(&[&opts.join(" "), &vals.len().to_string(), &vals.first().map(|v| v.show()).unwrap_or_default()])).desc(Some(case())))
}

pub fn run(mut rep: Report) -> ! {
    rep.set_rule(
        "values: all text and byte strings up to length 3 over a 24-symbol alphabet of structurally significant bytes (as value, as object key, nested), all 256 single bytes, ~2700 edge numbers (decade boundaries 1e-330..1e310 and neighbours, subnormals, integers at every representation boundary in both representations, decimal literals), all trees up to 4 nodes, random values incl. NaN/bytes/invalid UTF-8/non-string keys; each through tojson|fromjson, the library writer with 8 option sets read back by both lexers, serde_json for JSON-representable values; \
         JSON texts from an independent generator (all escape forms, surrogate pairs, exponents, whitespace, duplicate keys, nesting <= 30+, huge literals) whose value is known by construction; a sample through the binary with 13 output option sets; non-trivial = needs escaping, non-machine-integer number, byte string, non-string key, >= 2 keys; texts: has an escape, exponent or duplicate key",
    );
    rep.assume("a float and the decimal literal that spells exactly it are indistinguishable (a printed float is read back as that literal)");
    rep.assume("key order of objects written with duplicate keys is not asserted");
    let quick = rep.quick();
    // strings
    let maxlen = if quick { 3 } else { 4 };
    let mut total: u64 = 0;
    let mut offs = vec![0u64];
    for l in 0..=maxlen {
        total += 24u64.pow(l as u32);
        offs.push(total);
    }
    {
        let offs = &offs;
        rep.exhaustive("strings-exhaustive", total * 6, move |i, s| {
            let (idx, pos) = (i / 6, i % 6);
            let len = (0..=maxlen).find(|l| idx < offs[*l + 1]).unwrap();
            let bytes = alpha_string(idx - offs[len], len);
            let sv = if pos < 3 { MVal::TStr(bytes) } else { MVal::BStr(bytes) };
            let v = match pos % 3 {
                0 => sv,
                1 => MVal::Obj(vec![(sv.clone(), sv), (tstr("k"), int(1))]),
                _ => MVal::Arr(vec![MVal::Obj(vec![(tstr("a"), sv.clone())]), sv]),
            };
            check_value(&v, s)
        });
    }
    rep.exhaustive("single-bytes", 512, |i, s| {
        let b = vec![(i % 256) as u8];
        check_value(&if i < 256 { MVal::TStr(b) } else { MVal::BStr(b) }, s)
    });
    let nums = edge_numbers();
    {
        let nums = &nums;
        rep.exhaustive("edge-numbers", nums.len() as u64 * 2, move |i, s| {
            let n = nums[(i / 2) as usize].clone();
            // jaq's own reader decides which decimal spellings exist as values
            if let MVal::Dec(d) = &n {
                match jaq_json::read::parse_single(d.as_bytes()) {
                    Ok(v) if matches!(MVal::from_val(&v), MVal::Dec(_)) => {}
                    _ => return Ok(CaseOk::trivial().class("literal-not-a-value")),
                }
            }
            let v = if i % 2 == 0 { n } else { MVal::Obj(vec![(n.clone(), MVal::Arr(vec![n]))]) };
            check_value(&v, s)
        });
    }
    // values that jaq itself computes from decimal literals without leaving the decimal representation
    // (negation): whatever text jaq gives them, they are values and must survive print-then-parse
    {
        let computed: Vec<MVal> = nums
            .iter()
            .filter(|n| matches!(n, MVal::Dec(d) if matches!(jaq_json::read::parse_single(d.as_bytes()).map(|v| MVal::from_val(&v)), Ok(MVal::Dec(_)))))
            .filter_map(|d| jq::eval1("-$x", &[("x", d.to_val())], Val::Null).ok())
            .map(|n| MVal::from_val(&n))
            .collect();
        let computed = &computed;
        rep.exhaustive("negated-decimal-literals", computed.len() as u64 * 2, move |i, s| {
            let n = computed[(i / 2) as usize].clone();
            // (known finding: the reader accepts digits after a leading zero - 007.50 - but not after "-0")
            let leading_zero = matches!(&n, MVal::Dec(d) if { let t = d.trim_start_matches(['-', '+']); t.len() > 1 && t.starts_with('0') && t.as_bytes()[1].is_ascii_digit() });
            let v = if i % 2 == 0 { n } else { MVal::Arr(vec![n.clone(), MVal::Obj(vec![(tstr("k"), n)])]) };
            check_value(&v, s).map_err(|mut f| {
                if leading_zero {
                    f.sig = "negated-leading-zero-decimal-does-not-read-back".into();
                }
                f
            })
        });
    }
    let atoms = vec![MVal::Null, int(0), MVal::Float(-0.0), MVal::Dec("1.10".into()), tstr("a\"\n"), MVal::BStr(b"\xff".to_vec()), MVal::Float(f64::NAN)];
    let keys = vec![tstr("a"), tstr("b"), int(0), MVal::BStr(b"k".to_vec())];
    let trees = gen::enum_trees(&atoms, &keys, if quick { 4 } else { 5 });
    {
        let trees = &trees;
        rep.exhaustive("small-trees", trees.len() as u64, move |i, s| check_value(&trees[i as usize], s));
    }
    let n = rep.n(60_000, 3_000_000);
    rep.random("random-values", n, 300, |src| {
        let cfg = Cfg { nan: true, depth: 4, str_pieces: 5, ..Cfg::default() };
        let v = gen::gen_val(src, &cfg);
        let s = src.sample;
        check_value(&v, s)
    });
    let n = rep.n(60_000, 3_000_000);
    rep.random("json-texts", n, 400, check_text);

    // through the binary: a deterministic sample of the above
    {
        let scratch = Scratch::new("c07");
        let mut batch: Vec<MVal> = Vec::new();
        for i in (0..total).step_by(if quick { 7 } else { 1 }) {
            let len = (0..=maxlen).find(|l| i < offs[*l + 1]).unwrap();
            let b = alpha_string(i - offs[len], len);
            batch.push(if i % 2 == 0 { MVal::TStr(b) } else { MVal::Obj(vec![(MVal::BStr(b.clone()), MVal::TStr(b))]) });
        }
        for n in nums.iter().step_by(3) {
            if let MVal::Dec(d) = n {
                if !matches!(jaq_json::read::parse_single(d.as_bytes()).map(|v| MVal::from_val(&v)), Ok(MVal::Dec(_))) {
                    continue;
                }
            }
            batch.push(n.clone());
        }
        batch.extend(trees.iter().step_by(5).cloned());
        let bytes = vcore::runner::seeded_bytes(rep.seed, "c07-cli", 200_000);
        let mut src = Src::new(&bytes);
        let cfg = Cfg { nan: true, depth: 3, ..Cfg::default() };
        for _ in 0..(if quick { 800 } else { 8000 }) {
            batch.push(gen::gen_val(&mut src, &cfg));
        }
        rep.extra("cli_batch_values", json!(batch.len()));
        let (batch, scratch) = (&batch, &scratch);
        rep.fixed("cli-roundtrip", CLI_OPTS.len(), move |i| cli_roundtrip(batch, CLI_OPTS[i], scratch));
    }
    rep.finish()
}

#[allow(dead_code)]
fn _u(_: Ordering) {}
