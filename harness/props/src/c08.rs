//! C08 — comparison is one consistent total order; equal values are
//! interchangeable keys.  Oracle: the model order `cmp_m` written from the
//! manual's "Ordering" section.

use num_bigint::BigInt;
use serde_json::json;
use std::cmp::Ordering;
use vcore::gen::{self, pow2, Cfg};
use vcore::jq;
use vcore::mval::{cmp_m, eq_m, int, order_domain, tstr, MVal};
use vcore::runner::{fnv_str, CaseFail, CaseOk, CaseResult, Report};
use vcore::Src;

fn big(i: BigInt) -> MVal {
    MVal::Int(i, false)
}

/// Scalar atoms: every number representation class and boundary, strings.
pub fn scalar_atoms() -> Vec<MVal> {
    let mut v = vec![MVal::Null, MVal::Bool(false), MVal::Bool(true)];
    // zero in every representation
    v.push(int(0));
    v.push(MVal::Int(BigInt::from(0), true));
    v.push(MVal::Float(0.0));
    v.push(MVal::Float(-0.0));
    v.push(MVal::Dec("0e0".into()));
    v.push(MVal::Dec("-0.0".into()));
    // one
    v.push(int(1));
    v.push(MVal::Int(BigInt::from(1), true));
    v.push(MVal::Float(1.0));
    v.push(MVal::Dec("1e0".into()));
    v.push(MVal::Dec("1.00".into()));
    v.push(int(-1));
    v.push(MVal::Float(-1.0));
    v.push(int(2));
    v.push(MVal::Float(0.5));
    v.push(MVal::Dec("0.5".into()));
    v.push(MVal::Float(1e-320));
    v.push(MVal::Float(1.5));
    v.push(big(pow2(53) - 1));
    v.push(big(pow2(53)));
    v.push(MVal::Float(9007199254740992.0));
    v.push(big(pow2(63) - 1));
    v.push(big(pow2(63)));
    v.push(big(-pow2(63)));
    v.push(big(-pow2(63) - 1));
    v.push(big(pow2(64)));
    v.push(big(BigInt::from(10).pow(30)));
    v.push(MVal::Float(f64::INFINITY));
    v.push(MVal::Float(f64::NEG_INFINITY));
    v.push(MVal::Dec("1e1000".into()));
    for s in [&b""[..], b"a", b"A", b"ab", b"b", "é".as_bytes(), b"\xff", b"x"] {
        v.push(MVal::TStr(s.to_vec()));
        v.push(MVal::BStr(s.to_vec()));
    }
    v
}

/// Scalars plus one-level containers (arrays of 0..2 elements; objects of
/// 0..2 entries in both insertion orders) over a core of the scalars.
pub fn atoms() -> Vec<MVal> {
    let sc = scalar_atoms();
    let core: Vec<MVal> = vec![
        MVal::Null,
        int(0),
        MVal::Float(-0.0),
        int(1),
        MVal::Float(1.0),
        MVal::Dec("1e0".into()),
        big(pow2(63)),
        tstr("a"),
        MVal::BStr(b"a".to_vec()),
        tstr("b"),
    ];
    let mut v = sc.clone();
    v.push(MVal::Arr(vec![]));
    for x in &core {
        v.push(MVal::Arr(vec![x.clone()]));
    }
    for x in &core {
        for y in &core {
            v.push(MVal::Arr(vec![x.clone(), y.clone()]));
        }
    }
    v.push(MVal::Arr(vec![MVal::Arr(vec![])]));
    v.push(MVal::Arr(vec![MVal::Obj(vec![])]));
    v.push(MVal::Obj(vec![]));
    let keys: Vec<MVal> = vec![tstr("a"), tstr("b"), int(0), MVal::Float(-0.0), int(1), MVal::Float(1.0), MVal::Null, MVal::BStr(b"a".to_vec())];
    let vals: Vec<MVal> = vec![int(1), MVal::Float(1.0), int(2), tstr("a")];
    for k in &keys {
        for x in &vals {
            v.push(MVal::Obj(vec![(k.clone(), x.clone())]));
        }
    }
    for k1 in &keys {
        for k2 in &keys {
            if eq_m(k1, k2) {
                continue;
            }
            for (x, y) in [(int(1), int(2)), (int(2), int(1)), (MVal::Float(1.0), int(2))] {
                v.push(MVal::Obj(vec![(k1.clone(), x.clone()), (k2.clone(), y.clone())]));
            }
        }
    }
    v.push(MVal::Obj(vec![(tstr("a"), MVal::Obj(vec![(tstr("b"), int(1))]))]));
    v.push(MVal::Obj(vec![(MVal::Arr(vec![int(1)]), int(1))]));
    v.push(MVal::Obj(vec![(MVal::Obj(vec![(tstr("b"), int(1))]), int(1))]));
    v
}

const PAIR_PROG: &str = r#"[
  [$a<$b,$a==$b,$a>$b,$a<=$b,$a>=$b,$a!=$b],
  ([$a,$b]|sort),
  ([$a,$b]|min), ([$a,$b]|max),
  ([$a,$b]|unique),
  ([$a,$b]|group_by(.)),
  ([$a]|bsearch($b)),
  ([$a]-[$b]),
  ([$a]|indices([$b])),
  ([$a,$b]|sort_by(.)),
  ([$b,$a]|sort),
  ({($a):1,($o):2} | [has($b), .[$b]]),
  ({($a):1,($o):2} == {($b):1,($o):2}),
  ({($a):1,($o):2} == {($o):2,($b):1}),
  ({($a):1,($o):2}+{($b):3} | [length, .[$a]]),
  ({($a):1,($o):2}*{($b):3} | [length, .[$a]]),
  ({($a):1,($o):2} | .[$b]=9 | [length, .[$a]]),
  ({($a):1,($o):2} | .[$b]|=9 | [length, .[$a]]),
  ({($a):1,($o):2} | del(.[$b]) | length),
  ({($a):1,($b):2} | [length, .[$a], .[$b]]),
  ([$a]|contains([$b])),
  ({($a):1,($o):2} < {($b):1,($o):2}),
  ([{($a):1,($o):2}, {($o):2,($b):1}] | unique | length),
  ([[$a],[$b]] | [(.[0] < .[1]), (.[0] == .[1])]),
  ([$a,$b,$a] | index($b))
]"#;

fn arr(v: Vec<MVal>) -> MVal {
    MVal::Arr(v)
}
fn b(x: bool) -> MVal {
    MVal::Bool(x)
}

fn fail(sig: &str, a: &MVal, bv: &MVal, what: &str, got: &MVal, want: &str) -> CaseFail {
    CaseFail::new(
        sig,
        format!("{what}: jaq gave {} but the model says {want}", got.show()),
        json!({"a": a.show(), "b": bv.show(), "a_debug": format!("{a:?}"), "b_debug": format!("{bv:?}")}),
    )
}

/// Signature suffix naming the representation classes involved, so that a
/// known finding about e.g. negative zero does not hide other violations.
fn repr_class(a: &MVal, bv: &MVal) -> &'static str {
    fn negzero(v: &MVal) -> bool {
        match v {
            MVal::Float(f) => *f == 0.0 && f.is_sign_negative(),
            MVal::Dec(s) => s.parse::<f64>().map_or(false, |f| f == 0.0 && f.is_sign_negative()),
            MVal::Arr(a) => a.iter().any(negzero),
            MVal::Obj(o) => o.iter().any(|(k, v)| negzero(k) || negzero(v)),
            _ => false,
        }
    }
    if negzero(a) != negzero(bv) {
        "negzero"
    } else {
        "general"
    }
}

pub fn check_pair(a: &MVal, bv: &MVal, sample: bool) -> CaseResult {
    if !order_domain(a, bv) {
        return Ok(CaseOk::trivial().class("outside-domain"));
    }
    let o = [tstr("x"), tstr("y"), tstr("z")].into_iter().find(|o| !eq_m(o, a) && !eq_m(o, bv)).unwrap();
    let c = cmp_m(a, bv);
    let res = jq::eval1(PAIR_PROG, &[("a", a.to_val()), ("b", bv.to_val()), ("o", o.to_val())], jaq_json::Val::Null);
    let rc = repr_class(a, bv);
    let res = match res {
        Ok(v) => MVal::from_val(&v),
        Err(e) => {
            return Err(CaseFail::new(
                format!("pair-eval:{rc}"),
                format!("pair program failed: {e}"),
                json!({"a": a.show(), "b": bv.show()}),
            ))
        }
    };
    let r = match &res {
        MVal::Arr(r) => r,
        _ => unreachable!(),
    };
    let eq = c == Ordering::Equal;
    let (lo, hi) = if c == Ordering::Greater { (bv, a) } else { (a, bv) };
    let sig = |s: &str| format!("{s}:{rc}");
    // 0: exactly one of <,==,> and the derived operators
    let want0 = arr(vec![
        b(c == Ordering::Less),
        b(eq),
        b(c == Ordering::Greater),
        b(c != Ordering::Greater),
        b(c != Ordering::Less),
        b(!eq),
    ]);
    if !r[0].same(&want0) {
        return Err(fail(&sig("cmp-ops"), a, bv, "[a<b,a==b,a>b,a<=b,a>=b,a!=b]", &r[0], &want0.show()));
    }
    let sorted = arr(vec![lo.clone(), hi.clone()]);
    if !r[1].same(&sorted) {
        return Err(fail(&sig("sort"), a, bv, "[a,b]|sort", &r[1], &sorted.show()));
    }
    if !(eq_m(&r[2], lo) && (r[2].same(a) || r[2].same(bv))) {
        return Err(fail(&sig("min"), a, bv, "[a,b]|min", &r[2], &lo.show()));
    }
    if !(eq_m(&r[3], hi) && (r[3].same(a) || r[3].same(bv))) {
        return Err(fail(&sig("max"), a, bv, "[a,b]|max", &r[3], &hi.show()));
    }
    let want_unique = if eq { arr(vec![a.clone()]) } else { sorted.clone() };
    if !r[4].same(&want_unique) {
        return Err(fail(&sig("unique"), a, bv, "[a,b]|unique", &r[4], &want_unique.show()));
    }
    let want_group = if eq { arr(vec![arr(vec![a.clone(), bv.clone()])]) } else { arr(vec![arr(vec![lo.clone()]), arr(vec![hi.clone()])]) };
    if !r[5].same(&want_group) {
        return Err(fail(&sig("group_by"), a, bv, "[a,b]|group_by(.)", &r[5], &want_group.show()));
    }
    // [a] | bsearch(b)
    let want_bs = int(match c {
        Ordering::Equal => 0,
        Ordering::Less => -2,
        Ordering::Greater => -1,
    });
    if !r[6].same(&want_bs) {
        return Err(fail(&sig("bsearch"), a, bv, "[a]|bsearch(b)", &r[6], &want_bs.show()));
    }
    let want_sub = if eq { arr(vec![]) } else { arr(vec![a.clone()]) };
    if !r[7].same(&want_sub) {
        return Err(fail(&sig("array-sub"), a, bv, "[a]-[b]", &r[7], &want_sub.show()));
    }
    let want_idx = if eq { arr(vec![int(0)]) } else { arr(vec![]) };
    if !r[8].same(&want_idx) {
        return Err(fail(&sig("indices"), a, bv, "[a]|indices([b])", &r[8], &want_idx.show()));
    }
    if !r[9].same(&sorted) {
        return Err(fail(&sig("sort_by"), a, bv, "[a,b]|sort_by(.)", &r[9], &sorted.show()));
    }
    let sorted_rev = if c == Ordering::Less { arr(vec![a.clone(), bv.clone()]) } else { arr(vec![bv.clone(), a.clone()]) };
    if !r[10].same(&sorted_rev) {
        return Err(fail(&sig("sort"), a, bv, "[b,a]|sort", &r[10], &sorted_rev.show()));
    }
    // keys
    let want11 = if eq { arr(vec![b(true), int(1)]) } else { arr(vec![b(false), MVal::Null]) };
    if !r[11].same(&want11) {
        return Err(fail(&sig("key-lookup"), a, bv, "{(a):1,(o):2}|[has(b),.[b]]", &r[11], &want11.show()));
    }
    if !r[12].same(&b(eq)) {
        return Err(fail(&sig("obj-eq"), a, bv, "{(a):1,(o):2}=={(b):1,(o):2}", &r[12], &b(eq).show()));
    }
    if !r[13].same(&b(eq)) {
        return Err(fail(&sig("obj-eq-order"), a, bv, "{(a):1,(o):2}=={(o):2,(b):1}", &r[13], &b(eq).show()));
    }
    let want_merge = if eq { arr(vec![int(2), int(3)]) } else { arr(vec![int(3), int(1)]) };
    if !r[14].same(&want_merge) {
        return Err(fail(&sig("obj-add"), a, bv, "{(a):1,(o):2}+{(b):3}|[length,.[a]]", &r[14], &want_merge.show()));
    }
    if !r[15].same(&want_merge) {
        return Err(fail(&sig("obj-mul"), a, bv, "{(a):1,(o):2}*{(b):3}|[length,.[a]]", &r[15], &want_merge.show()));
    }
    let want_upd = if eq { arr(vec![int(2), int(9)]) } else { arr(vec![int(3), int(1)]) };
    if !r[16].same(&want_upd) {
        return Err(fail(&sig("key-assign"), a, bv, "{(a):1,(o):2}|.[b]=9|[length,.[a]]", &r[16], &want_upd.show()));
    }
    if !r[17].same(&want_upd) {
        return Err(fail(&sig("key-update"), a, bv, "{(a):1,(o):2}|.[b]|=9|[length,.[a]]", &r[17], &want_upd.show()));
    }
    let want_del = int(if eq { 1 } else { 2 });
    if !r[18].same(&want_del) {
        return Err(fail(&sig("key-del"), a, bv, "{(a):1,(o):2}|del(.[b])|length", &r[18], &want_del.show()));
    }
    let want19 = if eq { arr(vec![int(1), int(2), int(2)]) } else { arr(vec![int(2), int(1), int(2)]) };
    if !r[19].same(&want19) {
        return Err(fail(&sig("obj-construct"), a, bv, "{(a):1,(b):2}|[length,.[a],.[b]]", &r[19], &want19.show()));
    }
    if eq && !r[20].same(&b(true)) {
        return Err(fail(&sig("contains"), a, bv, "[a]|contains([b])", &r[20], "true"));
    }
    // object ordering through the model
    let oa = MVal::Obj(vec![(a.clone(), int(1)), (o.clone(), int(2))]);
    let ob = MVal::Obj(vec![(bv.clone(), int(1)), (o.clone(), int(2))]);
    let want21 = b(cmp_m(&oa, &ob) == Ordering::Less);
    if !r[21].same(&want21) {
        return Err(fail(&sig("obj-lt"), a, bv, "{(a):1,(o):2}<{(b):1,(o):2}", &r[21], &want21.show()));
    }
    let want22 = int(if eq { 1 } else { 2 });
    if !r[22].same(&want22) {
        return Err(fail(&sig("obj-unique"), a, bv, "[{(a):1,(o):2},{(o):2,(b):1}]|unique|length", &r[22], &want22.show()));
    }
    let want23 = arr(vec![b(c == Ordering::Less), b(eq)]);
    if !r[23].same(&want23) {
        return Err(fail(&sig("arr-cmp"), a, bv, "[[a]<[b],[a]==[b]]", &r[23], &want23.show()));
    }
    // [a,b,a] | index(b): for array b this is sub-array search, otherwise element search
    if !matches!(bv, MVal::Arr(_)) {
        let want24 = int(if eq { 0 } else { 1 });
        if !r[24].same(&want24) {
            return Err(fail(&sig("index"), a, bv, "[a,b,a]|index(b)", &r[24], &want24.show()));
        }
    }
    let nontrivial = a.kind() != bv.kind()
        || std::mem::discriminant(a) != std::mem::discriminant(bv)
        || a.kind() >= 4
        || matches!((a, bv), (MVal::Int(_, x), MVal::Int(_, y)) if x != y);
    let mut ok = CaseOk::new(nontrivial, fnv_str(&[&format!("{a:?}"), &format!("{bv:?}")]));
    ok = ok.class(if eq { "equal" } else { "unequal" });
    if eq && !a.same(bv) {
        ok = ok.class("equal-different-representation");
    }
    if sample {
        ok = ok.desc(Some(json!({"a": a.show(), "b": bv.show(), "model_cmp": format!("{c:?}")})));
    }
    Ok(ok)
}

const TRIPLE_PROG: &str = r#"[ ([$a,$b,$c]|sort), ([$a,$b,$c]|unique), ([$a,$b,$c]|group_by(.)), ([$a,$b,$c]|min), ([$a,$b,$c]|max),
  ([$a,$b,$c]|sort_by(.)), ([$a,$b,$c] - [$b]), ([[$a,1],[$b,2],[$c,3]] | sort_by(.[0]) | map(.[1])) ]"#;

fn model_sort(xs: &[MVal]) -> Vec<MVal> {
    let mut v: Vec<MVal> = xs.to_vec();
    v.sort_by(cmp_m); // std sort_by is stable
    v
}

fn model_groups(sorted: &[MVal]) -> Vec<Vec<MVal>> {
    let mut out: Vec<Vec<MVal>> = Vec::new();
    for x in sorted {
        match out.last_mut() {
            Some(g) if eq_m(&g[0], x) => g.push(x.clone()),
            _ => out.push(vec![x.clone()]),
        }
    }
    out
}

pub fn check_triple(a: &MVal, bv: &MVal, c: &MVal, sample: bool) -> CaseResult {
    if !(order_domain(a, bv) && order_domain(a, c) && order_domain(bv, c)) {
        return Ok(CaseOk::trivial().class("outside-domain"));
    }
    let case = || json!({"a": a.show(), "b": bv.show(), "c": c.show()});
    let res = jq::eval1(TRIPLE_PROG, &[("a", a.to_val()), ("b", bv.to_val()), ("c", c.to_val())], jaq_json::Val::Null)
        .map_err(|e| CaseFail::new("triple-eval", e, case()))?;
    let res = MVal::from_val(&res);
    let r = match &res {
        MVal::Arr(r) => r,
        _ => unreachable!(),
    };
    let xs = [a.clone(), bv.clone(), c.clone()];
    let sorted = model_sort(&xs);
    let groups = model_groups(&sorted);
    let rc = if repr_class(a, bv) == "negzero" || repr_class(a, c) == "negzero" || repr_class(bv, c) == "negzero" { "negzero" } else { "general" };
    let chk = |i: usize, what: &str, want: MVal| -> Result<(), CaseFail> {
        if r[i].same(&want) {
            Ok(())
        } else {
            Err(CaseFail::new(
                format!("triple-{what}:{rc}"),
                format!("[a,b,c]|{what}: jaq gave {} but the model says {}", r[i].show(), want.show()),
                case(),
            ))
        }
    };
    chk(0, "sort", arr(sorted.clone()))?;
    chk(1, "unique", arr(groups.iter().map(|g| g[0].clone()).collect()))?;
    chk(2, "group_by", arr(groups.iter().map(|g| arr(g.clone())).collect()))?;
    if !eq_m(&r[3], &sorted[0]) {
        return Err(CaseFail::new(format!("triple-min:{rc}"), format!("min gave {}", r[3].show()), case()));
    }
    if !eq_m(&r[4], &sorted[2]) {
        return Err(CaseFail::new(format!("triple-max:{rc}"), format!("max gave {}", r[4].show()), case()));
    }
    chk(5, "sort_by", arr(sorted.clone()))?;
    chk(6, "array-sub", arr(xs.iter().filter(|x| !eq_m(x, bv)).cloned().collect()))?;
    // stability: tags of the stably sorted sequence
    let mut tagged: Vec<(MVal, i64)> = xs.iter().cloned().zip(1..).collect();
    tagged.sort_by(|p, q| cmp_m(&p.0, &q.0));
    chk(7, "sort_by-stable", arr(tagged.iter().map(|t| int(t.1)).collect()))?;
    let kinds = [a.kind(), bv.kind(), c.kind()];
    let nontrivial = !(kinds[0] == kinds[1] && kinds[1] == kinds[2]) || groups.len() < 3;
    let mut ok = CaseOk::new(nontrivial, fnv_str(&[&format!("{a:?}"), &format!("{bv:?}"), &format!("{c:?}")]));
    ok = ok.class(match groups.len() {
        1 => "all-equal",
        2 => "one-tie",
        _ => "distinct",
    });
    if sample {
        ok = ok.desc(Some(case()));
    }
    Ok(ok)
}

/// An equal twin of `v` in a different representation (model-equal by construction).
pub fn twin(src: &mut Src, v: &MVal) -> MVal {
    match v {
        MVal::Int(i, bigrepr) => {
            let lim = pow2(53);
            let small = i <= &lim && i >= &-lim.clone();
            match src.below(4) {
                0 => MVal::Int(i.clone(), !*bigrepr),
                1 if small => MVal::Float(num_traits::ToPrimitive::to_f64(i).unwrap()),
                2 if small => MVal::Dec(format!("{i}.0")),
                3 if small => MVal::Dec(format!("{i}e0")),
                _ => MVal::Int(i.clone(), !*bigrepr),
            }
        }
        MVal::Float(f) if f.is_finite() && f.fract() == 0.0 && f.abs() <= 9007199254740992.0 => {
            if *f == 0.0 {
                match src.below(3) {
                    0 => MVal::Float(-*f),
                    1 => int(0),
                    _ => MVal::Dec("0.0".into()),
                }
            } else {
                MVal::Int(BigInt::from(*f as i64), src.bool())
            }
        }
        MVal::TStr(s) => MVal::BStr(s.clone()),
        MVal::BStr(s) => MVal::TStr(s.clone()),
        MVal::Arr(a) => MVal::Arr(a.iter().map(|x| twin(src, x)).collect()),
        MVal::Obj(o) => {
            let mut o2: Vec<(MVal, MVal)> = o.iter().map(|(k, v)| (twin(src, k), twin(src, v))).collect();
            if src.bool() {
                o2.reverse();
            }
            MVal::Obj(o2)
        }
        other => other.clone(),
    }
}

const STABLE_PROG: &str = r#"[ sort_by(.k), sort, group_by(.k), unique_by(.k), (map(.k)|unique), min_by(.k), max_by(.k), (map(.k)|sort) ]"#;

fn check_stable(src: &mut Src) -> CaseResult {
    let cfg = Cfg { nan: false, depth: 1, width: 2, ..Cfg::default() };
    // small key pool so that ties are frequent
    let npool = 1 + src.below(4);
    let mut pool: Vec<MVal> = Vec::new();
    for _ in 0..npool {
        let k = gen::gen_val(src, &cfg);
        let k2 = if src.bool() { twin(src, &k) } else { k.clone() };
        pool.push(k);
        pool.push(k2);
    }
    // mostly short arrays, but also arrays beyond the length up to which sorting algorithms fall back
    // to insertion sort (an unstable algorithm reorders equal elements only above ~20 elements)
    let n = match src.weighted(&[5, 3]) {
        0 => src.below(9),
        _ => 21 + src.below(140),
    };
    let mut xs: Vec<MVal> = Vec::new();
    for i in 0..n {
        let k = src.pick(&pool).clone();
        xs.push(MVal::Obj(vec![(tstr("k"), k), (tstr("t"), int(i as i64))]));
    }
    // domain: all pairs comparable
    for x in &xs {
        for y in &xs {
            if !order_domain(x, y) {
                return Ok(CaseOk::trivial().class("outside-domain"));
            }
        }
    }
    let input = MVal::Arr(xs.clone());
    let case = || json!({"input": input.show()});
    let res = jq::eval1(STABLE_PROG, &[], input.to_val()).map_err(|e| CaseFail::new("stable-eval", e, case()))?;
    let res = MVal::from_val(&res);
    let r = match &res {
        MVal::Arr(r) => r,
        _ => unreachable!(),
    };
    let key = |x: &MVal| match x {
        MVal::Obj(o) => o[0].1.clone(),
        _ => unreachable!(),
    };
    let mut by_key = xs.clone();
    by_key.sort_by(|p, q| cmp_m(&key(p), &key(q)));
    let bad = |what: &str, got: &MVal, want: &MVal| {
        CaseFail::new(format!("stable-{what}"), format!("{what}: jaq gave {} but the model says {}", got.show(), want.show()), case())
    };
    let want = MVal::Arr(by_key.clone());
    if !r[0].same(&want) {
        return Err(bad("sort_by", &r[0], &want));
    }
    let want = MVal::Arr(model_sort(&xs));
    if !r[1].same(&want) {
        return Err(bad("sort", &r[1], &want));
    }
    // groups: maximal runs of equal keys of the stably sorted input
    let mut groups: Vec<Vec<MVal>> = Vec::new();
    for x in &by_key {
        match groups.last_mut() {
            Some(g) if eq_m(&key(&g[0]), &key(x)) => g.push(x.clone()),
            _ => groups.push(vec![x.clone()]),
        }
    }
    let want = MVal::Arr(groups.iter().map(|g| MVal::Arr(g.clone())).collect());
    if !r[2].same(&want) {
        return Err(bad("group_by", &r[2], &want));
    }
    let want = MVal::Arr(groups.iter().map(|g| g[0].clone()).collect());
    if !r[3].same(&want) {
        return Err(bad("unique_by", &r[3], &want));
    }
    let keys: Vec<MVal> = xs.iter().map(key).collect();
    let want = MVal::Arr(model_groups(&model_sort(&keys)).iter().map(|g| g[0].clone()).collect());
    if !r[4].same(&want) {
        return Err(bad("unique", &r[4], &want));
    }
    if xs.is_empty() {
        if !r[5].same(&MVal::Null) || !r[6].same(&MVal::Null) {
            return Err(bad("min_by-empty", &r[5], &MVal::Null));
        }
    } else {
        let lo = key(&by_key[0]);
        let hi = key(&by_key[by_key.len() - 1]);
        if !(xs.iter().any(|x| x.same(&r[5])) && eq_m(&key(&r[5]), &lo)) {
            return Err(bad("min_by", &r[5], &by_key[0]));
        }
        if !(xs.iter().any(|x| x.same(&r[6])) && eq_m(&key(&r[6]), &hi)) {
            return Err(bad("max_by", &r[6], &by_key[by_key.len() - 1]));
        }
    }
    let want = MVal::Arr(model_sort(&keys));
    if !r[7].same(&want) {
        return Err(bad("sort-keys", &r[7], &want));
    }
    let ties = groups.iter().any(|g| g.len() > 1);
    let mut ok = CaseOk::new(n >= 2 && ties, fnv_str(&[&format!("{input:?}")]));
    ok = ok.class(if ties { "with-ties" } else { "no-ties" }).class(if n > 20 { "longer-than-20" } else { "short" });
    if src.sample {
        ok = ok.desc(Some(case()));
    }
    Ok(ok)
}

fn check_random_pair(src: &mut Src) -> CaseResult {
    let cfg = Cfg { nan: false, depth: 3, ..Cfg::default() };
    let a = gen::gen_val(src, &cfg);
    let bv = match src.weighted(&[3, 3, 2]) {
        0 => gen::gen_val(src, &cfg),
        1 => twin(src, &a),
        _ => {
            // near miss: twin with one perturbation at the top
            match twin(src, &a) {
                MVal::Arr(mut x) => {
                    if src.bool() {
                        x.push(MVal::Null)
                    } else if !x.is_empty() {
                        x.pop();
                    }
                    MVal::Arr(x)
                }
                MVal::Obj(mut o) => {
                    if let Some(e) = o.last_mut() {
                        e.1 = gen::gen_scalar(src, &cfg);
                    }
                    MVal::Obj(o)
                }
                MVal::Int(i, r) => MVal::Int(i + 1, r),
                other => other,
            }
        }
    };
    let sample = src.sample;
    check_pair(&a, &bv, sample)
}

pub fn run(mut rep: Report) -> ! {
    rep.set_rule(
        "pairs/triples of values compared by jaq (<,==,>,sort,min,max,unique,group_by,bsearch,-,index,contains and object-key look-ups) against the model order written from the manual; \
         exhaustive over an atom set holding every number representation and boundary, strings (text/byte twins), and one-level arrays/objects (both insertion orders); random deeper values with equal-but-differently-represented twins; \
         non-trivial = the two values differ in kind or representation, or are containers; distinct by debug form of the case",
    );
    rep.assume("values contain no NaN; integers beyond 2^53 are compared only with integers or infinities (pairs outside are skipped and counted as outside-domain)");
    let at = atoms();
    let n = at.len() as u64;
    rep.extra("atoms", json!(n));
    // known-finding demonstrations / regression cases
    let demos: Vec<(MVal, MVal)> = vec![
        (MVal::Float(0.0), MVal::Float(-0.0)),
        (int(0), MVal::Float(-0.0)),
        (MVal::Arr(vec![MVal::Float(-0.0)]), MVal::Arr(vec![int(0)])),
    ];
    rep.fixed("regressions", demos.len(), |i| check_pair(&demos[i].0, &demos[i].1, true));
    {
        let at = &at;
        let stride = if rep.quick() { 1 } else { 1 };
        rep.indexed("pairs-exhaustive", n * n, stride, true, move |i, sample| {
            let a = &at[(i / n) as usize];
            let bv = &at[(i % n) as usize];
            check_pair(a, bv, sample)
        });
    }
    {
        let sc = scalar_atoms();
        let mut core: Vec<MVal> = sc;
        core.push(MVal::Arr(vec![]));
        core.push(MVal::Arr(vec![int(1)]));
        core.push(MVal::Arr(vec![MVal::Float(1.0), int(0)]));
        core.push(MVal::Obj(vec![]));
        core.push(MVal::Obj(vec![(tstr("a"), int(1)), (tstr("b"), int(2))]));
        core.push(MVal::Obj(vec![(tstr("b"), int(2)), (tstr("a"), MVal::Float(1.0))]));
        core.push(MVal::Obj(vec![(int(0), int(1))]));
        let m = core.len() as u64;
        rep.extra("triple_core", json!(m));
        // quick: every 3rd triple (rotating with the seed); thorough: all
        let stride = if rep.quick() { 3 } else { 1 };
        let core = &core;
        rep.indexed("triples", m * m * m, stride, true, move |i, sample| {
            let a = &core[(i / (m * m)) as usize];
            let bv = &core[((i / m) % m) as usize];
            let c = &core[(i % m) as usize];
            check_triple(a, bv, c, sample)
        });
    }
    let n_rand = rep.n(60_000, 3_000_000);
    rep.random("pairs-random", n_rand, 160, check_random_pair);
    let n_st = rep.n(30_000, 1_000_000);
    rep.random("sort-stability", n_st, 400, check_stable);
    rep.finish()
}
