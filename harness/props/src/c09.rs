//! C09 — integer arithmetic is exact at any size; operators follow the
//! manual's rules.  Oracle: BigInt / IEEE arithmetic on the model values,
//! the manual's equations for the non-numeric cases, and the metamorphic
//! relation "equal integers behave identically however they are stored".

use jaq_json::Val;
use num_bigint::BigInt;
use num_traits::{ToPrimitive, Zero};
use serde_json::json;
use vcore::gen::{self, Cfg};
use vcore::jq::{self, Out};
use vcore::mval::{eq_m, int, tstr, MVal};
use vcore::runner::{fnv_str, CaseFail, CaseOk, CaseResult, Report};
use vcore::Src;

const OPS_PROG: &str = r#"[ (try [$a+$b] catch "ERR"), (try [$a-$b] catch "ERR"), (try [$a*$b] catch "ERR"),
  (try [$a/$b] catch "ERR"), (try [$a%$b] catch "ERR"), (try [-$a] catch "ERR") ]"#;
const OP_NAMES: [&str; 6] = ["+", "-", "*", "/", "%", "neg"];

fn err() -> MVal {
    tstr("ERR")
}
fn one(v: MVal) -> MVal {
    MVal::Arr(vec![v])
}

/// float result equality: bitwise, NaN by is_nan
fn float_same(got: &MVal, want: f64) -> bool {
    match got {
        MVal::Float(g) => (g.is_nan() && want.is_nan()) || g.to_bits() == want.to_bits(),
        _ => false,
    }
}

fn num_case(a: &MVal, b: &MVal) -> serde_json::Value {
    json!({"a": a.show(), "b": b.show(), "a_debug": format!("{a:?}"), "b_debug": format!("{b:?}")})
}

/// Model of the numeric operators. `None` = not asserted.
enum Want {
    Int(BigInt),
    Float(f64),
    Err,
    Skip,
    /// a decimal literal stays a decimal literal or becomes a float: any number that denotes this double
    /// (in particular, its text must be one that reads back)
    Denotes(f64),
}

fn model_num(op: usize, a: &MVal, b: &MVal) -> Want {
    let both_int = a.is_int() && b.is_int();
    if op == 5 {
        return match a {
            MVal::Int(i, _) => Want::Int(-i),
            MVal::Float(f) => Want::Float(-f),
            // negation of a decimal keeps it a decimal literal
            MVal::Dec(_) => a.as_f64().map_or(Want::Skip, |f| Want::Denotes(-f)),
            _ => Want::Skip,
        };
    }
    if both_int && op != 3 {
        let (x, y) = (a.as_bigint().unwrap(), b.as_bigint().unwrap());
        return match op {
            0 => Want::Int(x + y),
            1 => Want::Int(x - y),
            2 => Want::Int(x * y),
            4 => {
                if y.is_zero() {
                    Want::Err
                } else {
                    Want::Int(x % y)
                }
            }
            _ => unreachable!(),
        };
    }
    let (x, y) = (a.as_f64().unwrap(), b.as_f64().unwrap());
    match op {
        0 => Want::Float(x + y),
        1 => Want::Float(x - y),
        2 => Want::Float(x * y),
        3 => Want::Float(x / y),
        4 => {
            // `%` by an *integer* zero with a non-integer dividend: the property
            // does not say whether this is the error or the IEEE NaN -> not asserted
            if b.is_int() && b.as_bigint().unwrap().is_zero() {
                Want::Skip
            } else {
                Want::Float(x % y)
            }
        }
        _ => unreachable!(),
    }
}

fn check_num_pair(a: &MVal, b: &MVal, sample: bool) -> CaseResult {
    let res = jq::eval1(OPS_PROG, &[("a", a.to_val()), ("b", b.to_val())], Val::Null)
        .map_err(|e| CaseFail::new("ops-eval", e, num_case(a, b)))?;
    let res = MVal::from_val(&res);
    let r = match &res {
        MVal::Arr(r) => r,
        _ => unreachable!(),
    };
    let mut big_involved = false;
    for op in 0..6 {
        let got = &r[op];
        let bad = |want: String| {
            Err(CaseFail::new(
                format!("num-op:{}", OP_NAMES[op]),
                format!("a {} b: jaq gave {} but the model says {}", OP_NAMES[op], got.show(), want),
                num_case(a, b),
            ))
        };
        match model_num(op, a, b) {
            Want::Skip => {}
            Want::Err => {
                if !got.same(&err()) {
                    return bad("an error".into());
                }
            }
            Want::Int(w) => {
                let lim = BigInt::from(1u64 << 62);
                if w > lim || w < -lim {
                    big_involved = true;
                }
                match got {
                    MVal::Arr(x) if x.len() == 1 && matches!(&x[0], MVal::Int(g, _) if *g == w) => {
                        // printed form must be the exact decimal expansion
                        let printed = format!("{}", x[0].to_val());
                        if printed != w.to_string() {
                            return bad(format!("printed as {}", w));
                        }
                    }
                    _ => return bad(format!("[{w}] (integer)")),
                }
            }
            Want::Denotes(w) => {
                let denotes = |s: &str| s.parse::<f64>().map_or(false, |g| g.to_bits() == w.to_bits()) && matches!(jaq_json::read::parse_single(s.as_bytes()).map(|v| MVal::from_val(&v)), Ok(MVal::Dec(_)));
                match got {
                    MVal::Arr(x) if x.len() == 1 && (float_same(&x[0], w) || matches!(&x[0], MVal::Dec(s) if denotes(s))) => {}
                    _ => return bad(format!("a number denoting {w:?} whose text reads back as that number")),
                }
            }
            Want::Float(w) => match got {
                MVal::Arr(x) if x.len() == 1 && float_same(&x[0], w) => {}
                _ => return bad(format!("[{:?}] (float)", w)),
            },
        }
    }
    let mixes = std::mem::discriminant(a) != std::mem::discriminant(b);
    let mut ok = CaseOk::new(big_involved || mixes, fnv_str(&[&format!("{a:?}"), &format!("{b:?}")]));
    ok = ok.class(if a.is_int() && b.is_int() { "int-int" } else { "mixed-or-float" });
    if big_involved {
        ok = ok.class("result-beyond-2^62");
    }
    if sample {
        ok = ok.desc(Some(num_case(a, b)));
    }
    Ok(ok)
}

fn num_pool() -> Vec<MVal> {
    let mut v: Vec<MVal> = Vec::new();
    for i in gen::int_pool() {
        let fits = i.to_isize().is_some();
        v.push(MVal::Int(i.clone(), false));
        if fits {
            v.push(MVal::Int(i, true));
        }
    }
    for f in gen::FLOAT_POOL {
        v.push(MVal::Float(*f));
    }
    v.push(MVal::Float(f64::INFINITY));
    v.push(MVal::Float(f64::NEG_INFINITY));
    v.push(MVal::Float(f64::NAN));
    for d in gen::DEC_POOL {
        v.push(MVal::Dec(d.to_string()));
    }
    v
}

// ---------------------------------------------------------------- representation independence

/// Consumers of an integer `$n` (and a second integer `$m`). Each is run with
/// `$n` stored as machine integer and as arbitrary-precision integer; the
/// output streams (values and errors) must be identical.
const CONSUMERS: &[&str] = &[
    "[1,2,3,4,5] | .[$n]",
    "[1,2,3,4,5] | .[$n:$m]",
    "[1,2,3,4,5] | .[$n:]",
    "[1,2,3,4,5] | .[:$n]",
    "\"aé€😀z\" | .[$n:$m]",
    "(\"aé€😀z\"|tobytes) | .[$n], .[$n:$m]",
    "[1,2,3,4,5] | .[{start:$n,end:$m}]",
    "[limit($n; 1,2,3,4,5)]",
    "[skip($n; 1,2,3,4,5)]",
    "[nth($n; 1,2,3,4,5)]",
    "[1,2,3,4,5] | nth($n)",
    "[limit(20; range($n))]",
    "[limit(20; range($n; $m))]",
    "[limit(20; range($m; $n; $n))]",
    "[limit(20; range(0; $m; $n))]",
    "if $n < 1000 and $n > -1000 then \"ab\" * $n else null end",
    "if $n < 1000 and $n > -1000 then $n * \"ab\" else null end",
    "[$n] | implode",
    "[$n, $m] | implode",
    "$n | tobytes",
    "[$n, [$m]] | tobytes",
    "ldexp(1.5; $n)",
    "scalbln(1.5; $n)",
    "scalb(1.5; $n)",
    "if $n < 50 and $n > -50 then jn($n; 1.5), yn($n; 1.5) else null end",
    "[[1,[2,[3,[4]]]]] | flatten($n)",
    "if $n < 6 then [1,2] | [combinations($n)] else null end",
    "[1,2,3] | has($n)",
    "{(1):1,(2):2,(3):3} | has($n), .[$n]",
    "{($n):1, ($m):2} | has($n), has($m), length, .[$n]",
    "{($n):1} | has($m)",
    "[$n < $m, $n <= $m, $n == $m, $n != $m, $n > $m, $n >= $m]",
    "[$n, $m] | sort, min, max, unique",
    "$n | @text, tojson, tostring, @json, \"\\(.)\"",
    "$n | todate",
    "$n | gmtime",
    "$n | strftime(\"%Y-%m-%dT%H:%M:%SZ\")",
    "$n | gmtime | mktime",
    "$n | length, abs, floor, ceil, round, -., isnormal, isinfinite, isnan, type",
    "$n | sqrt, (. / 2), (. % 3), pow(.; 2), significand, logb, frexp, exp10, trunc, fabs, log2",
    "[1,2,3,4,5] | getpath([$n])",
    "[1,2,3,4,5] | try setpath([$n]; 9) catch \"ERR\"",
    "[1,2,3,4,5] | try (.[$n] = 9) catch \"ERR\"",
    "[1,2,3,4,5] | try (.[$n] |= .+1) catch \"ERR\"",
    "[1,2,3,4,5] | try del(.[$n]) catch \"ERR\"",
    "[1,2,3,4,5] | try (.[$n:$m] = [0]) catch \"ERR\"",
    "[1,2,3,4,5] | try del(.[$n:$m]) catch \"ERR\"",
    "[1,2,3,4,5] | try delpaths([[$n]]) catch \"ERR\"",
    "[1,2,3,4,5] | path(.[$n]), path(.[$n:$m])",
    "[1,2,3,4,5] | [paths] | index([$n])",
    "[[1,2,3],[4,5,6]] | . as [$x, [$y]] | .[0] as {($n): $z} | [$x, $y, $z]",
    "[1,2,3,4,5] | first(.[$n]), last(.[$n,$m])",
    "[$n, $m] | add, (.[0] + .[1]), (.[0] * .[1]), (.[0] - .[1])",
    "[1,$n,3] | index($n), indices($n), (. - [$n]), contains([$n]), inside([1,$n,3,4])",
    "[1,2,3,4,5] | bsearch($n)",
    "$n | tostring | tonumber | . == $n",
    "[$n] | transpose? // null",
    "{a: $n} | .a += 1 | .a",
    "$n | @base64, @uri, @html, @sh, @csv \"\\([.])\", @tsv \"\\([.])\"",
    "\"a,b,c\" | splits(\",\") | ., $n",
    "halt_error? // $n | tojson",
    "$n | tojson | fromjson | . + 1",
    "[., $n] | toyaml? // null",
    "[$n] | tocbor? | fromcbor?",
    "$n | toyaml? | fromyaml?",
    "{a: $n} | totoml? | fromtoml?",
];

fn check_repr(prog_i: usize, n: i64, m: i64, sample: bool) -> CaseResult {
    let prog = CONSUMERS[prog_i];
    let case = || json!({"program": prog, "n": n, "m": m});
    let f = match jq::cached(prog, &["n", "m"]) {
        Some(f) => f,
        None => return Err(CaseFail::new("consumer-does-not-compile", jq::compile(prog, &["n", "m"]).err().unwrap_or_default(), case())),
    };
    let run = |nb: bool, mb: bool| -> Vec<String> {
        let nv = MVal::Int(BigInt::from(n), nb).to_val();
        let mv = MVal::Int(BigInt::from(m), mb).to_val();
        jq::run(&f, vec![nv, mv], Val::Null, 64).iter().map(|o| o.show()).collect()
    };
    let base = run(false, false);
    for (nb, mb) in [(true, false), (false, true), (true, true)] {
        let other = run(nb, mb);
        if other != base {
            return Err(CaseFail::new(
                format!("repr-dependence:{}", prog_i),
                format!(
                    "outputs differ when $n is stored as {} and $m as {}: machine/machine gives [{}], this gives [{}]",
                    if nb { "big integer" } else { "machine integer" },
                    if mb { "big integer" } else { "machine integer" },
                    base.join(" "),
                    other.join(" ")
                ),
                case(),
            ));
        }
    }
    // a panic is a violation here as well (equal integers must behave alike: neither may crash)
    if base.iter().any(|s| s.starts_with("PANIC")) {
        return Err(CaseFail::new(format!("consumer-panic:{}", prog_i), base.join(" "), case()));
    }
    let produced = base.iter().any(|s| !s.starts_with("ERROR"));
    let mut ok = CaseOk::new(true, fnv_str(&[prog, &n.to_string(), &m.to_string()]));
    ok = ok.class(if produced { "consumer-yields-value" } else { "consumer-errors-consistently" });
    if sample {
        ok = ok.desc(Some(json!({"program": prog, "n": n, "m": m, "outputs": base})));
    }
    Ok(ok)
}

/// also: the same integer obtained by different *computations*
const COMPUTED: &[&str] = &[
    "$n",
    "($n + 1180591620717411303424 - 1180591620717411303424)",
    "($n * 1)",
    "(($n * 1180591620717411303424) | . - ($n * 1180591620717411303424) + $n)",
    "(-(-$n))",
    "($n | tojson | fromjson)",
    "($n | tostring | tonumber)",
    "([$n] | .[0])",
    "($n + 0)",
    "(1180591620717411303424 + $n | . - 1180591620717411303424)",
];

const COMPUTED_USERS: &[&str] = &[
    "[1,2,3,4,5] | [.[N], .[N:], .[:N]]",
    "[limit(N; 1,2,3,4,5)], [skip(N; 1,2,3,4,5)], [limit(10; range(N))]",
    "{(N): 1} | has($n), .[$n], keys",
    "{($n): 1} | has(N), .[N]",
    "[N == $n, N < $n, N > $n, ([N, $n] | unique | length)]",
    "N | tojson, @text, type, length",
    "if $n < 100 and $n > -100 then \"ab\" * N else null end",
    "(\"abcde\"|tobytes) | .[N]",
    "[N] | implode? // \"ERR\"",
    "N | tobytes? // \"ERR\"",
    "ldexp(1.5; N)",
    "[1,2,3,4,5] | try (.[N] = 0) catch \"ERR\"",
];

fn check_computed(ci: usize, ui: usize, n: i64, sample: bool) -> CaseResult {
    let make = |c: &str| COMPUTED_USERS[ui].replace('N', c);
    let base_prog = make(COMPUTED[0]);
    let prog = make(COMPUTED[ci]);
    let case = || json!({"program": prog, "reference": base_prog, "n": n});
    let nv = int(n).to_val();
    let base = jq::eval(&base_prog, &[("n", nv.clone())], Val::Null, 64).map_err(|e| CaseFail::new("computed-compile", e, case()))?;
    let other = jq::eval(&prog, &[("n", nv)], Val::Null, 64).map_err(|e| CaseFail::new("computed-compile", e, case()))?;
    let (b, o) = (jq::show_outs(&base), jq::show_outs(&other));
    if b != o {
        return Err(CaseFail::new(
            format!("computed-integer-differs:{ui}"),
            format!("with the integer written as `{}` the outputs are [{o}], with `$n` they are [{b}]", COMPUTED[ci]),
            case(),
        ));
    }
    let mut ok = CaseOk::new(ci > 0, fnv_str(&[&prog, &n.to_string()]));
    if sample {
        ok = ok.desc(Some(json!({"program": prog, "n": n, "outputs": b})));
    }
    Ok(ok)
}

// ---------------------------------------------------------------- non-numeric operators

/// Expected result of a non-numeric operation.
enum W {
    V(MVal),
    /// "anything else yields an error"
    E,
    /// not asserted (numbers are checked elsewhere; undocumented corners)
    Skip,
}

fn mixed_str(a: &MVal, b: &MVal) -> bool {
    matches!((a, b), (MVal::TStr(_), MVal::BStr(_)) | (MVal::BStr(_), MVal::TStr(_)))
}

fn model_add(a: &MVal, b: &MVal) -> W {
    use MVal::*;
    match (a, b) {
        (Null, x) | (x, Null) => W::V(x.clone()),
        (x, y) if x.is_num() && y.is_num() => W::Skip,
        (TStr(x), TStr(y)) => W::V(TStr([x.clone(), y.clone()].concat())),
        (BStr(x), BStr(y)) => W::V(BStr([x.clone(), y.clone()].concat())),
        (x, y) if mixed_str(x, y) => W::Skip,
        (Arr(x), Arr(y)) => W::V(Arr([x.clone(), y.clone()].concat())),
        (Obj(x), Obj(y)) => W::V(Obj(obj_union(x, y))),
        _ => W::E,
    }
}

fn obj_union(x: &[(MVal, MVal)], y: &[(MVal, MVal)]) -> Vec<(MVal, MVal)> {
    let mut out: Vec<(MVal, MVal)> = x.to_vec();
    for (k, v) in y {
        match out.iter_mut().find(|(k2, _)| eq_m(k2, k)) {
            Some(e) => e.1 = v.clone(),
            None => out.push((k.clone(), v.clone())),
        }
    }
    out
}

/// `$x * {k: v, ...}` = `($x + {k: $x[k] * v}) * {...}` if both objects, else `($x + {k: v}) * {...}`
fn obj_merge(x: &[(MVal, MVal)], y: &[(MVal, MVal)]) -> Vec<(MVal, MVal)> {
    let mut out: Vec<(MVal, MVal)> = x.to_vec();
    for (k, v) in y {
        let cur = out.iter().find(|(k2, _)| eq_m(k2, k)).map(|e| e.1.clone());
        let nv = match (&cur, v) {
            (Some(MVal::Obj(l)), MVal::Obj(r)) => MVal::Obj(obj_merge(l, r)),
            _ => v.clone(),
        };
        out = obj_union(&out, &[(k.clone(), nv)]);
    }
    out
}

fn repeat(s: &[u8], n: &BigInt) -> Option<Vec<u8>> {
    if n <= &BigInt::zero() {
        None
    } else {
        Some(s.repeat(n.to_usize().unwrap()))
    }
}

fn model_mul(a: &MVal, b: &MVal) -> W {
    use MVal::*;
    match (a, b) {
        (x, y) if x.is_num() && y.is_num() => W::Skip,
        (TStr(s), Int(n, _)) | (Int(n, _), TStr(s)) => W::V(repeat(s, n).map_or(Null, TStr)),
        (BStr(s), Int(n, _)) | (Int(n, _), BStr(s)) => W::V(repeat(s, n).map_or(Null, BStr)),
        (Obj(x), Obj(y)) => W::V(Obj(obj_merge(x, y))),
        _ => W::E,
    }
}

fn model_sub(a: &MVal, b: &MVal) -> W {
    use MVal::*;
    match (a, b) {
        (x, y) if x.is_num() && y.is_num() => W::Skip,
        (Arr(x), Arr(y)) => W::V(Arr(x.iter().filter(|e| !y.iter().any(|f| eq_m(e, f))).cloned().collect())),
        _ => W::E,
    }
}

fn split_model(s: &[u8], sep: &[u8]) -> Vec<Vec<u8>> {
    let mut out = Vec::new();
    let mut start = 0;
    let mut i = 0;
    while i + sep.len() <= s.len() {
        if &s[i..i + sep.len()] == sep {
            out.push(s[start..i].to_vec());
            i += sep.len();
            start = i;
        } else {
            i += 1;
        }
    }
    out.push(s[start..].to_vec());
    out
}

fn model_div(a: &MVal, b: &MVal) -> W {
    use MVal::*;
    let f = |s: &[u8], sep: &[u8], mk: fn(Vec<u8>) -> MVal| -> W {
        if s.is_empty() {
            return W::V(Arr(vec![]));
        }
        if sep.is_empty() {
            // characters; asserted for valid UTF-8 text only
            return match std::str::from_utf8(s) {
                Ok(t) => W::V(Arr(t.chars().map(|c| mk(c.to_string().into_bytes())).collect())),
                Err(_) => W::Skip,
            };
        }
        W::V(Arr(split_model(s, sep).into_iter().map(mk).collect()))
    };
    match (a, b) {
        (x, y) if x.is_num() && y.is_num() => W::Skip,
        (TStr(s), TStr(t)) => f(s, t, MVal::TStr),
        (BStr(s), BStr(t)) => {
            if t.is_empty() && !s.is_empty() {
                W::Skip
            } else {
                f(s, t, MVal::BStr)
            }
        }
        (x, y) if mixed_str(x, y) => W::Skip,
        _ => W::E,
    }
}

fn model_rem(a: &MVal, b: &MVal) -> W {
    if a.is_num() && b.is_num() {
        W::Skip
    } else {
        W::E
    }
}

fn check_nonnum(a: &MVal, b: &MVal, sample: bool) -> CaseResult {
    // keep repetition counts small (allocation proportional to the count)
    for (s, n) in [(a, b), (b, a)] {
        if let (MVal::TStr(_) | MVal::BStr(_), MVal::Int(n, _)) = (s, n) {
            if n > &BigInt::from(64) {
                return Ok(CaseOk::trivial().class("repetition-count-bounded"));
            }
        }
    }
    let case = || json!({"a": a.show(), "b": b.show()});
    let res = jq::eval1(OPS_PROG, &[("a", a.to_val()), ("b", b.to_val())], Val::Null).map_err(|e| CaseFail::new("ops-eval", e, case()))?;
    let res = MVal::from_val(&res);
    let r = match &res {
        MVal::Arr(r) => r,
        _ => unreachable!(),
    };
    let wants = [model_add(a, b), model_sub(a, b), model_mul(a, b), model_div(a, b), model_rem(a, b)];
    // when not both numbers and not otherwise defined, everything is an error
    let mut asserted = 0;
    for (op, w) in wants.iter().enumerate() {
        let w: Option<&MVal> = match w {
            W::Skip => continue,
            W::V(v) => Some(v),
            W::E => None,
        };
        asserted += 1;
        let want = match w {
            Some(v) => one((*v).clone()),
            None => err(),
        };
        if !r[op].same(&want) {
            return Err(CaseFail::new(
                format!("nonnum-op:{}", OP_NAMES[op]),
                format!("a {} b: jaq gave {} but the manual's rules give {}", OP_NAMES[op], r[op].show(), want.show()),
                case(),
            ));
        }
        // join is the inverse of string division
        if op == 3 {
            if let (Some(_), MVal::TStr(s)) = (w, a) {
                if !s.is_empty() {
                    let j = jq::eval1("$a / $b | join($b)", &[("a", a.to_val()), ("b", b.to_val())], Val::Null)
                        .map_err(|e| CaseFail::new("div-join", e, case()))?;
                    if !eq_m(&MVal::from_val(&j), a) {
                        return Err(CaseFail::new("div-join", format!("a / b | join(b) gave {j}"), case()));
                    }
                }
            }
        }
    }
    if !a.is_num() {
        let want = err();
        if !r[5].same(&want) {
            return Err(CaseFail::new("nonnum-op:neg", format!("-a: jaq gave {}", r[5].show()), case()));
        }
    }
    let mut ok = CaseOk::new(asserted > 0, fnv_str(&[&format!("{a:?}"), &format!("{b:?}")]));
    ok = ok.class(if a.kind() == b.kind() { "same-kind" } else { "mixed-kind" });
    if sample {
        ok = ok.desc(Some(case()));
    }
    Ok(ok)
}

fn nonnum_atoms() -> Vec<MVal> {
    let o1 = MVal::Obj(vec![(tstr("a"), int(1)), (tstr("b"), MVal::Obj(vec![(tstr("c"), int(2)), (tstr("d"), int(3))]))]);
    let o2 = MVal::Obj(vec![(tstr("b"), MVal::Obj(vec![(tstr("c"), int(9)), (tstr("e"), int(4))])), (tstr("z"), int(0)), (tstr("a"), MVal::Null)]);
    let o3 = MVal::Obj(vec![(int(1), int(1)), (MVal::Float(1.0), int(2))].into_iter().take(1).collect());
    vec![
        MVal::Null,
        MVal::Bool(true),
        MVal::Bool(false),
        int(0),
        int(1),
        int(3),
        int(-1),
        MVal::Int(BigInt::from(2), true),
        MVal::Int(BigInt::from(0), true),
        MVal::Int(-gen::pow2(70), false),
        MVal::Float(2.0),
        MVal::Float(0.0),
        MVal::Dec("2.0".into()),
        MVal::Float(f64::NAN),
        tstr(""),
        tstr("a"),
        tstr("ab"),
        tstr("aXbXXc"),
        tstr("X"),
        tstr("XX"),
        tstr("é€😀"),
        MVal::TStr(b"a\xffb".to_vec()),
        MVal::BStr(b"".to_vec()),
        MVal::BStr(b"a".to_vec()),
        MVal::BStr(b"a\xffb\xffc".to_vec()),
        MVal::BStr(b"\xff".to_vec()),
        MVal::Arr(vec![]),
        MVal::Arr(vec![int(1), MVal::Float(1.0), int(2), tstr("a"), int(1)]),
        MVal::Arr(vec![MVal::Float(1.0)]),
        MVal::Arr(vec![MVal::BStr(b"a".to_vec()), int(2)]),
        MVal::Arr(vec![MVal::Arr(vec![])]),
        MVal::Obj(vec![]),
        o1,
        o2,
        o3,
        MVal::Obj(vec![(tstr("a"), MVal::Obj(vec![(tstr("x"), int(1))]))]),
        MVal::Obj(vec![(MVal::Float(1.0), tstr("float-key")), (tstr("a"), int(5))]),
    ]
}

fn check_nonnum_random(src: &mut Src) -> CaseResult {
    let cfg = Cfg { nan: false, depth: 3, ..Cfg::default() };
    let a = gen::gen_val(src, &cfg);
    let b = match src.weighted(&[3, 4, 2]) {
        0 => gen::gen_val(src, &cfg),
        1 => {
            // same kind, sharing structure (overlapping keys / elements)
            match &a {
                MVal::Obj(o) => {
                    let mut o2: Vec<(MVal, MVal)> = Vec::new();
                    for (k, v) in o {
                        if src.bool() {
                            let k2 = if src.bool() { crate::c08::twin(src, k) } else { k.clone() };
                            let v2 = if src.bool() { v.clone() } else { gen::gen_val_d(src, &cfg, 2) };
                            if !o2.iter().any(|(k3, _)| eq_m(k3, &k2)) {
                                o2.push((k2, v2));
                            }
                        }
                    }
                    for _ in 0..src.below(3) {
                        let k = gen::gen_key(src, &cfg, 1);
                        if !k.contains_nan() && !o2.iter().any(|(k3, _)| eq_m(k3, &k)) {
                            o2.push((k, gen::gen_val_d(src, &cfg, 2)));
                        }
                    }
                    if src.bool() {
                        o2.reverse();
                    }
                    MVal::Obj(o2)
                }
                MVal::Arr(x) => {
                    let mut y = Vec::new();
                    for e in x {
                        if src.bool() {
                            y.push(if src.bool() { crate::c08::twin(src, e) } else { e.clone() });
                        }
                    }
                    MVal::Arr(y)
                }
                MVal::TStr(s) => {
                    // a separator occurring in s
                    if s.is_empty() {
                        tstr("a")
                    } else {
                        let i = src.below(s.len());
                        let j = (i + 1 + src.below(2)).min(s.len());
                        MVal::TStr(s[i..j].to_vec())
                    }
                }
                MVal::BStr(s) => {
                    if s.is_empty() {
                        MVal::BStr(b"a".to_vec())
                    } else {
                        let i = src.below(s.len());
                        MVal::BStr(s[i..i + 1].to_vec())
                    }
                }
                _ => gen::gen_val(src, &cfg),
            }
        }
        _ => int(src.range(-2, 5)),
    };
    if !vcore::mval::order_domain(&a, &b) {
        return Ok(CaseOk::trivial().class("outside-equality-domain"));
    }
    let sample = src.sample;
    if a.is_num() && b.is_num() {
        return check_num_pair(&a, &b, sample);
    }
    check_nonnum(&a, &b, sample)
}

fn check_num_random(src: &mut Src) -> CaseResult {
    let cfg = Cfg { nan: true, ..Cfg::default() };
    let a = gen::gen_num(src, &cfg);
    let b = if src.chance(40) {
        // operands whose product/sum straddles 2^63
        match &a {
            MVal::Int(i, _) if !i.is_zero() => {
                let q: BigInt = gen::pow2(63) / i;
                MVal::Int(q + src.range(-2, 2), src.chance(32))
            }
            _ => gen::gen_num(src, &cfg),
        }
    } else {
        gen::gen_num(src, &cfg)
    };
    let sample = src.sample;
    check_num_pair(&a, &b, sample)
}

/// String repetition by a count <= 0 of any magnitude is null (the manual): run by the jaq binary in a
/// child process, because a wrong answer here is an attempt to allocate count x length bytes, which ends
/// the process that makes it.
fn repetition_by_nonpositive_count(i: usize) -> CaseResult {
    const STRS: &[&str] = &["\"\"", "\"a\"", "\"abc\"", "(\"ab\" | tobytes)", "\"\u{00e9}\""];
    const COUNTS: &[&str] = &["0", "-1", "-9223372036854775808", "-9223372036854775809", "-18446744073709551616", "-1180591620717411303424", "(0 - 1267650600228229401496703205376)", "(0 - 9223372036854775807 - 2)", "(-4294967296 * 4294967296 * 4)", "(9223372036854775807 - 9223372036854775807 - 9223372036854775807 - 9223372036854775807 - 9223372036854775807)"];
    let (s, c, flipped) = (STRS[i % STRS.len()], COUNTS[(i / STRS.len()) % COUNTS.len()], i / (STRS.len() * COUNTS.len()) == 1);
    let prog = if flipped { format!("({c} * {s})") } else { format!("({s} * {c})") };
    let case = json!({"command": format!("jaq -nc {prog:?}"), "expected": "null"});
    vcore::runner::note_case(|| case.to_string());
    let out = vcore::cli::Cmd::jaq().args(["-nc", &prog]).run().map_err(|e| CaseFail::new("harness-spawn", e.to_string(), json!({})))?;
    if out.status != 0 || out.out_str().trim() != "null" {
        return Err(CaseFail::new("string-repetition-by-nonpositive-count", format!("`{prog}` must be null; jaq: exit {} stdout {:?} stderr {:?}", out.status, out.out_str().chars().take(100).collect::<String>(), out.err_str().chars().take(200).collect::<String>()), case));
    }
    Ok(CaseOk::new(true, 77_000 + i as u64).class("repetition-by-count-below-the-machine-range").desc(if i % 17 == 0 { Some(case) } else { None }))
}

pub fn run(mut rep: Report) -> ! {
    rep.set_rule(
        "operand pairs over an integer/float/decimal boundary pool (every integer in machine and arbitrary-precision representation), exhaustively, and random pairs (incl. pairs whose product straddles 2^63), checked against BigInt/IEEE arithmetic in the harness; \
         integer-consuming built-ins run with the same integers stored as machine vs big integer and obtained by different computations (n+2^70-2^70, n*1, ...), outputs and errors must be identical; \
         non-numeric operator table and the manual's equations on an atom set (exhaustive pairs) and random structured values; string repetition by 10 counts <= 0 of every magnitude (machine range boundary, -2^64, -2^70, -2^100, computed big integers) x 5 strings x both operand orders, run by the jaq binary in child processes (a wrong answer is an allocation that ends the process): must be null; non-trivial = result or operand beyond 2^62, mixed classes, or a defined non-numeric case",
    );
    rep.assume("x % 0 with non-integer x and integer 0 is not asserted (property text leaves error vs NaN open); text+byte string mixing and byte-string split by the empty string are not asserted (undocumented)");
    rep.fixed("string-repetition-by-nonpositive-counts", 5 * 10 * 2, repetition_by_nonpositive_count);
    let pool = num_pool();
    let n = pool.len() as u64;
    rep.extra("num_pool", json!(n));
    {
        let pool = &pool;
        rep.exhaustive("num-pairs-exhaustive", n * n, move |i, s| check_num_pair(&pool[(i / n) as usize], &pool[(i % n) as usize], s));
    }
    let k = rep.n(150_000, 5_000_000);
    rep.random("num-pairs-random", k, 64, check_num_random);

    // representation independence
    let ints: Vec<i64> = {
        let mut v: Vec<i64> = (-7..=7).collect();
        v.extend([255, 256, 1000, 65, 97, 1114111, 1114112, 55296, -255, -256, 86400, 1 << 31, -(1 << 31), (1 << 31) - 1, 1 << 32, 1 << 53, (1 << 53) + 1, -(1 << 53), 9223372036854, 9223372036855, 253402300799, 253402300800, -62135596800, i64::MAX, i64::MIN, i64::MAX - 1, i64::MIN + 1]);
        v
    };
    let ms: Vec<i64> = vec![-2, 0, 1, 3, 7, i64::MAX];
    let (ni, nm, np) = (ints.len() as u64, ms.len() as u64, CONSUMERS.len() as u64);
    {
        let (ints, ms) = (&ints, &ms);
        rep.exhaustive("repr-independence", np * ni * nm, move |i, s| {
            let p = (i / (ni * nm)) as usize;
            let n = ints[((i / nm) % ni) as usize];
            let m = ms[(i % nm) as usize];
            check_repr(p, n, m, s)
        });
    }
    {
        let small: Vec<i64> = vec![-6, -5, -1, 0, 1, 2, 4, 5, 6, 65, 255, 256, 1 << 40, i64::MAX, i64::MIN];
        let (nc, nu, nn) = (COMPUTED.len() as u64, COMPUTED_USERS.len() as u64, small.len() as u64);
        let small = &small;
        rep.exhaustive("computed-integers", nc * nu * nn, move |i, s| {
            check_computed((i / (nu * nn)) as usize, ((i / nn) % nu) as usize, small[(i % nn) as usize], s)
        });
    }
    // non-numeric
    let at = nonnum_atoms();
    let na = at.len() as u64;
    {
        let at = &at;
        rep.exhaustive("nonnumeric-table", na * na, move |i, s| {
            let (a, b) = (&at[(i / na) as usize], &at[(i % na) as usize]);
            if a.is_num() && b.is_num() {
                return Ok(CaseOk::trivial().class("numeric-pair"));
            }
            check_nonnum(a, b, s)
        });
    }
    let k = rep.n(100_000, 3_000_000);
    rep.random("nonnumeric-random", k, 200, check_nonnum_random);
    rep.finish()
}

#[allow(dead_code)]
fn _unused(_: Out) {}
