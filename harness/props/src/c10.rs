//! C10 — indexing, slicing and element updates follow one position model per
//! container.  Oracles: a small independent position model (reads), and the
//! manual's `iter_upd` / `index_upd` / `slice_upd` definitions evaluated by
//! jaq itself plus the model splice (writes).

use num_bigint::BigInt;
use num_traits::{Signed, ToPrimitive};
use serde_json::json;
use vcore::gen::{self, pow2, Cfg};
use vcore::jq;
use vcore::mval::{eq_m, int, tstr, MVal};
use vcore::runner::{fnv_str, CaseFail, CaseOk, CaseResult, Report};
use vcore::Src;

/// The manual's definitions (docs/advanced.dj, "Pathless" section), verbatim.
const MANUAL_DEFS: &str = r#"
def iter_upd(u; fail):
    if isarray  then [.[] | u]
  elif isobject then with_entries(.value |= u)
  else fail end;
def index_upd($i; u; fail):
    if (isstring or isarray) and ($i | isobject) then
      ([.[:$i.start], .[$i.start:$i.end], .[$i.end:]]? | .[1] |= u | add) // fail
  elif isarray then
        if 0 <= $i and $i < length then .[:$i] + [.[$i] | first(u)] + .[$i+1:]
      elif -length <= $i and $i < 0 then index_upd(length + $i; u; fail)
      else fail end
  elif isobject then
        if has($i) then with_entries(if .key == $i then {key, value: first(.value | u)} end)
      else . + ([{key: $i, value: first(null | u)}] | from_entries) end
  else fail end;
def slice_upd($i; $j; u; fail):
  ([.[:$i], .[$i:$j], .[$j:]]? | .[1] |= u | add) // fail;
"#;

#[derive(Clone, Debug)]
enum Cont {
    Arr(Vec<MVal>),
    /// text string as a sequence of units (characters / invalid-byte units)
    Text(Vec<Vec<u8>>),
    Bytes(Vec<u8>),
    Obj(Vec<(MVal, MVal)>),
    Null,
    Other(MVal),
}

impl Cont {
    fn to_mval(&self) -> MVal {
        match self {
            Cont::Arr(a) => MVal::Arr(a.clone()),
            Cont::Text(u) => MVal::TStr(u.concat()),
            Cont::Bytes(b) => MVal::BStr(b.clone()),
            Cont::Obj(o) => MVal::Obj(o.clone()),
            Cont::Null => MVal::Null,
            Cont::Other(v) => v.clone(),
        }
    }
    fn len(&self) -> usize {
        match self {
            Cont::Arr(a) => a.len(),
            Cont::Text(u) => u.len(),
            Cont::Bytes(b) => b.len(),
            Cont::Obj(o) => o.len(),
            _ => 0,
        }
    }
    fn sliceable(&self) -> bool {
        matches!(self, Cont::Arr(_) | Cont::Text(_) | Cont::Bytes(_))
    }
    fn slice(&self, from: usize, to: usize) -> MVal {
        let to = to.max(from);
        match self {
            Cont::Arr(a) => MVal::Arr(a[from..to].to_vec()),
            Cont::Text(u) => MVal::TStr(u[from..to].concat()),
            Cont::Bytes(b) => MVal::BStr(b[from..to].to_vec()),
            _ => unreachable!(),
        }
    }
}

/// Model result: value, or error.
type R = Result<MVal, ()>;

fn abs_idx(i: &BigInt, len: usize) -> Option<usize> {
    let l = BigInt::from(len);
    let j = if i.is_negative() { &l + i } else { i.clone() };
    if j.is_negative() || j >= l {
        None
    } else {
        j.to_usize()
    }
}

fn clip(i: &BigInt, len: usize) -> usize {
    let l = BigInt::from(len);
    let j = if i.is_negative() { &l + i } else { i.clone() };
    if j.is_negative() {
        0
    } else if j >= l {
        len
    } else {
        j.to_usize().unwrap()
    }
}

/// bound: null = open, integer = position, anything else = error
fn bound(b: &MVal, len: usize, default: usize) -> Result<usize, ()> {
    match b {
        MVal::Null => Ok(default),
        MVal::Int(i, _) => Ok(clip(i, len)),
        _ => Err(()),
    }
}

fn model_slice(c: &Cont, i: &MVal, j: &MVal) -> R {
    if !c.sliceable() {
        return Err(());
    }
    let from = bound(i, c.len(), 0)?;
    let to = bound(j, c.len(), c.len())?;
    Ok(c.slice(from, to))
}

fn obj_get<'a>(o: &'a [(MVal, MVal)], k: &MVal) -> Option<&'a MVal> {
    if k.contains_nan() {
        return None;
    }
    o.iter().find(|(k2, _)| !k2.contains_nan() && eq_m(k2, k)).map(|e| &e.1)
}

/// `.[k]` and whether it "points into the value" (= `has(k)`).
fn model_index(c: &Cont, k: &MVal) -> Result<(MVal, bool), ()> {
    match (c, k) {
        (Cont::Null, _) => Ok((MVal::Null, false)),
        (Cont::Obj(o), k) => Ok(match obj_get(o, k) {
            Some(v) => (v.clone(), true),
            None => (MVal::Null, false),
        }),
        (c, MVal::Obj(o)) if c.sliceable() => {
            let s = obj_get(o, &tstr("start")).cloned().unwrap_or(MVal::Null);
            let e = obj_get(o, &tstr("end")).cloned().unwrap_or(MVal::Null);
            model_slice(c, &s, &e).map(|v| (v, true))
        }
        (Cont::Arr(a), MVal::Int(i, _)) => Ok(match abs_idx(i, a.len()) {
            Some(i) => (a[i].clone(), true),
            None => (MVal::Null, false),
        }),
        (Cont::Bytes(b), MVal::Int(i, _)) => Ok(match abs_idx(i, b.len()) {
            Some(i) => (int(b[i] as i64), true),
            None => (MVal::Null, false),
        }),
        (Cont::Arr(a), MVal::Arr(y)) => {
            // same as indices(y)
            let mut idx = Vec::new();
            if !y.is_empty() && y.len() <= a.len() {
                for i in 0..=(a.len() - y.len()) {
                    if (0..y.len()).all(|d| eq_m(&a[i + d], &y[d])) {
                        idx.push(int(i as i64));
                    }
                }
            }
            Ok((MVal::Arr(idx), true))
        }
        _ => Err(()),
    }
}

fn show_r(r: &R) -> String {
    match r {
        Ok(v) => v.show(),
        Err(()) => "an error".into(),
    }
}

const ERR: &str = "\u{1}ERR";

fn got_r(v: &MVal) -> R {
    match v {
        MVal::Arr(x) if x.len() == 1 => Ok(x[0].clone()),
        MVal::TStr(s) if s == ERR.as_bytes() => Err(()),
        other => Ok(other.clone()), // should not happen
    }
}

fn same_r(a: &R, b: &R) -> bool {
    match (a, b) {
        (Ok(x), Ok(y)) => x.same(y),
        (Err(()), Err(())) => true,
        _ => false,
    }
}

const READ_PROG: &str = r#"[ (try [.[$i]] catch "\u0001ERR"), (try [has($i)] catch "\u0001ERR"),
  (try [.[$i:$j]] catch "\u0001ERR"), (try [.[$i:]] catch "\u0001ERR"), (try [.[:$j]] catch "\u0001ERR"),
  (try [.[{start:$i,end:$j}]] catch "\u0001ERR"), (try [.[{start:$i}]] catch "\u0001ERR"), (try [.[{end:$j, x:1}]] catch "\u0001ERR"),
  (try [nth($i)] catch "\u0001ERR"), (try [getpath([$i])] catch "\u0001ERR"),
  (try [. as {($i): $x} | $x] catch "\u0001ERR"), (try [[.[$i]?]] catch "\u0001ERR"), (try [[.[$i:$j]?]] catch "\u0001ERR") ]"#;

fn check_read(c: &Cont, i: &MVal, j: &MVal, sample: bool) -> CaseResult {
    let cv = c.to_mval();
    let case = || json!({"container": cv.show(), "i": i.show(), "j": j.show()});
    let res = jq::eval1(READ_PROG, &[("i", i.to_val()), ("j", j.to_val())], cv.to_val()).map_err(|e| CaseFail::new("read-eval", e, case()))?;
    let res = MVal::from_val(&res);
    let r = match &res {
        MVal::Arr(r) => r,
        _ => unreachable!(),
    };
    let chk = |k: usize, what: &str, want: R| -> Result<(), CaseFail> {
        let got = got_r(&r[k]);
        if same_r(&got, &want) {
            Ok(())
        } else {
            let huge = [i, j].iter().any(|x| matches!(x, MVal::Int(b, _) if b.magnitude().bits() > 63));
            Err(CaseFail::new(
                format!("read-{what}{}", if huge { ":beyond-64-bit" } else { "" }),
                format!("{what}: jaq gave {} but the position model says {}", show_r(&got), show_r(&want)),
                case(),
            ))
        }
    };
    let idx = model_index(c, i);
    chk(0, ".[i]", idx.clone().map(|x| x.0))?;
    chk(1, "has(i)", idx.clone().map(|x| MVal::Bool(x.1)))?;
    let sl = model_slice(c, i, j);
    chk(2, ".[i:j]", sl.clone())?;
    chk(3, ".[i:]", model_slice(c, i, &MVal::Null))?;
    chk(4, ".[:j]", model_slice(c, &MVal::Null, j))?;
    // slicing through an index object: on non-sliceable containers this is key look-up
    let via_obj = |s: Option<&MVal>, e: Option<&MVal>, extra: bool| -> R {
        let mut o = Vec::new();
        if let Some(s) = s {
            o.push((tstr("start"), s.clone()));
        }
        if let Some(e) = e {
            o.push((tstr("end"), e.clone()));
        }
        if extra {
            o.push((tstr("x"), int(1)));
        }
        model_index(c, &MVal::Obj(o)).map(|x| x.0)
    };
    chk(5, ".[{start:i,end:j}]", via_obj(Some(i), Some(j), false))?;
    chk(6, ".[{start:i}]", via_obj(Some(i), None, false))?;
    chk(7, ".[{end:j,x:1}]", via_obj(None, Some(j), true))?;
    chk(8, "nth(i)", idx.clone().map(|x| x.0))?;
    chk(9, "getpath([i])", idx.clone().map(|x| x.0))?;
    chk(10, ". as {(i):$x}|$x", idx.clone().map(|x| x.0))?;
    chk(11, "[.[i]?]", Ok(MVal::Arr(idx.clone().map(|x| vec![x.0]).unwrap_or_default())))?;
    chk(12, "[.[i:j]?]", Ok(MVal::Arr(sl.clone().map(|x| vec![x]).unwrap_or_default())))?;
    // text slices never split a character: guaranteed by equality with the unit model
    let neg = |x: &MVal| matches!(x, MVal::Int(b, _) if b.is_negative());
    let oob = |x: &MVal| matches!(x, MVal::Int(b, _) if abs_idx(b, c.len()).is_none());
    let nontrivial = neg(i) || neg(j) || oob(i) || oob(j) || matches!(i, MVal::Null) || !matches!(i, MVal::Int(..) | MVal::Null) || matches!(c, Cont::Text(u) if u.iter().any(|x| x.len() > 1));
    let mut ok = CaseOk::new(nontrivial, fnv_str(&[&format!("{cv:?}"), &format!("{i:?}"), &format!("{j:?}")]));
    ok = ok.class(match c {
        Cont::Arr(_) => "array",
        Cont::Text(_) => "text",
        Cont::Bytes(_) => "bytes",
        Cont::Obj(_) => "object",
        Cont::Null => "null",
        Cont::Other(_) => "other",
    });
    if sample {
        ok = ok.desc(Some(case()));
    }
    Ok(ok)
}

const WHOLE_PROG: &str = r#"[ (try [length] catch "\u0001ERR"), (try [keys] catch "\u0001ERR"), (try [[.[]]] catch "\u0001ERR"),
  (try [first] catch "\u0001ERR"), (try [last] catch "\u0001ERR"), (try [. as [$a,$b] | [$a,$b]] catch "\u0001ERR"),
  (try [[.[keys_unsorted[]]]] catch "\u0001ERR"), (try [to_entries] catch "\u0001ERR"), (try [explode|length] catch "\u0001ERR"),
  (try [[.[]?]] catch "\u0001ERR"), (try [keys_unsorted] catch "\u0001ERR") ]"#;

fn check_whole(c: &Cont, sample: bool) -> CaseResult {
    let cv = c.to_mval();
    let case = || json!({"container": cv.show()});
    let res = jq::eval1(WHOLE_PROG, &[], cv.to_val()).map_err(|e| CaseFail::new("whole-eval", e, case()))?;
    let res = MVal::from_val(&res);
    let r = match &res {
        MVal::Arr(r) => r,
        _ => unreachable!(),
    };
    let chk = |k: usize, what: &str, want: R| -> Result<(), CaseFail> {
        let got = got_r(&r[k]);
        if same_r(&got, &want) {
            Ok(())
        } else {
            Err(CaseFail::new(format!("whole-{what}"), format!("{what}: jaq gave {} but the model says {}", show_r(&got), show_r(&want)), case()))
        }
    };
    let len: R = match c {
        Cont::Other(_) => Err(()),
        _ => Ok(int(c.len() as i64)),
    };
    if !matches!(c, Cont::Other(_)) {
        chk(0, "length", len)?;
    }
    let idxs = |n: usize| MVal::Arr((0..n).map(|i| int(i as i64)).collect());
    let keys: R = match c {
        Cont::Arr(a) => Ok(idxs(a.len())),
        Cont::Obj(o) => {
            let mut k: Vec<MVal> = o.iter().map(|e| e.0.clone()).collect();
            k.sort_by(vcore::mval::cmp_m);
            Ok(MVal::Arr(k))
        }
        _ => Err(()),
    };
    chk(1, "keys", keys)?;
    let elems: R = match c {
        Cont::Arr(a) => Ok(MVal::Arr(a.clone())),
        Cont::Obj(o) => Ok(MVal::Arr(o.iter().map(|e| e.1.clone()).collect())),
        _ => Err(()),
    };
    chk(2, "[.[]]", elems.clone())?;
    let at = |i: i64| model_index(c, &int(i)).map(|x| x.0);
    chk(3, "first", at(0))?;
    chk(4, "last", at(-1))?;
    chk(5, ". as [$a,$b]", at(0).and_then(|a| at(1).map(|b| MVal::Arr(vec![a, b]))))?;
    chk(6, "[.[keys_unsorted[]]]", elems.clone())?;
    let entries: R = match c {
        Cont::Arr(a) => Ok(MVal::Arr(a.iter().enumerate().map(|(i, v)| MVal::Obj(vec![(tstr("key"), int(i as i64)), (tstr("value"), v.clone())])).collect())),
        Cont::Obj(o) => Ok(MVal::Arr(o.iter().map(|(k, v)| MVal::Obj(vec![(tstr("key"), k.clone()), (tstr("value"), v.clone())])).collect())),
        _ => Err(()),
    };
    chk(7, "to_entries", entries)?;
    if let Cont::Text(u) = c {
        // the manual equates length and explode|length on valid UTF-8 only
        if std::str::from_utf8(&u.concat()).is_ok() {
            chk(8, "explode|length", Ok(int(u.len() as i64)))?;
        }
    }
    chk(9, "[.[]?]", Ok(elems.clone().unwrap_or(MVal::Arr(vec![]))))?;
    let ku: R = match c {
        Cont::Arr(a) => Ok(idxs(a.len())),
        Cont::Obj(o) => Ok(MVal::Arr(o.iter().map(|e| e.0.clone()).collect())),
        _ => Err(()),
    };
    chk(10, "keys_unsorted", ku)?;
    let mut ok = CaseOk::new(true, fnv_str(&[&format!("{cv:?}")]));
    if sample {
        ok = ok.desc(Some(case()));
    }
    Ok(ok)
}

// ------------------------------------------------------------------ writes

const UPDATES: &[&str] = &["empty", "9", "(8,9)", ".", "[.]", "error(\"u\")", "\"x\"", "[7,8]", ".[1:]", "(.,.)", "null"];

/// Compares jaq's native update with the manual's definition under `==`
/// (the manual's own comparison), error-ness included; additionally demands
/// that non-deleting updates keep `keys_unsorted` of objects.
fn upd_prog(u: &str) -> String {
    format!(
        r#"{MANUAL_DEFS}
def obs(f): try [f] catch "\u0001ERR";
[ obs(.[$i] |= {u}), obs(index_upd($i; {u}; error)),
  obs(.[$i]? |= {u}), obs(index_upd($i; {u}; .)),
  obs(.[$i:$j] |= {u}), obs(slice_upd($i; $j; {u}; error)),
  obs(.[$i:$j]? |= {u}), obs(slice_upd($i; $j; {u}; .)),
  obs(.[$i:] |= {u}), obs(slice_upd($i; length; {u}; error)),
  obs(.[:$j] |= {u}), obs(slice_upd(0; $j; {u}; error)),
  obs(.[] |= {u}), obs(iter_upd({u}; error)),
  obs(.[]? |= {u}), obs(iter_upd({u}; .)),
  obs(.[$i] = $j), obs(index_upd($i; $j; error)),
  obs(del(.[$i])), obs(index_upd($i; empty; error)),
  obs(del(.[$i:$j])), obs(slice_upd($i; $j; empty; error)),
  obs(.[$i] |= {u} | keys_unsorted), obs(keys_unsorted)
]"#
    )
}

const UPD_NAMES: [&str; 11] = [".[i]|=u", ".[i]?|=u", ".[i:j]|=u", ".[i:j]?|=u", ".[i:]|=u", ".[:j]|=u", ".[]|=u", ".[]?|=u", ".[i]=j", "del(.[i])", "del(.[i:j])"];

/// Why a modelled update fails: in the path itself (suppressed by `?`) or
/// in/after the update filter (never suppressed).
#[derive(Clone, Copy, Debug, PartialEq)]
enum F {
    Path,
    U,
}
type W = Result<MVal, F>;

/// All outputs of the fixed update filter `u` on `x` (Err = it raises).
fn model_all(u: usize, x: &MVal) -> Result<Vec<MVal>, ()> {
    Ok(match UPDATES[u] {
        "empty" => vec![],
        "9" => vec![int(9)],
        "(8,9)" => vec![int(8), int(9)],
        "." => vec![x.clone()],
        "(.,.)" => vec![x.clone(), x.clone()],
        "[.]" => vec![MVal::Arr(vec![x.clone()])],
        "error(\"u\")" => return Err(()),
        "\"x\"" => vec![tstr("x")],
        "[7,8]" => vec![MVal::Arr(vec![int(7), int(8)])],
        "null" => vec![MVal::Null],
        ".[1:]" => {
            let c = to_cont(x);
            vec![model_slice(&c, &int(1), &MVal::Null)?]
        }
        _ => unreachable!(),
    })
}

type UF<'a> = &'a dyn Fn(&MVal) -> Result<Vec<MVal>, ()>;

/// Returns None where the behaviour is not modelled (documented in DESIGN.md).
fn m_slice_upd(c: &Cont, i: &MVal, j: &MVal, u: UF) -> Option<W> {
    if !c.sliceable() {
        return Some(Err(F::Path));
    }
    let (from, to) = match (bound(i, c.len(), 0), bound(j, c.len(), c.len())) {
        (Ok(f), Ok(t)) => (f, t.max(f)),
        _ => return Some(Err(F::Path)),
    };
    let cur = c.slice(from, to);
    let y = match u(&cur) {
        Err(()) => return Some(Err(F::U)),
        Ok(v) => v.into_iter().next(),
    };
    // replacing a slice by null is undocumented -> not asserted
    if matches!(y, Some(MVal::Null)) {
        return None;
    }
    Some(match c {
        Cont::Arr(a) => {
            let mid: Vec<MVal> = match y {
                None => vec![],
                Some(MVal::Arr(m)) => m,
                Some(_) => return Some(Err(F::U)),
            };
            Ok(MVal::Arr([&a[..from], &mid[..], &a[to..]].concat()))
        }
        Cont::Text(us) => {
            let mid: Vec<u8> = match y {
                None => vec![],
                Some(MVal::TStr(m)) => m,
                Some(_) => return Some(Err(F::U)),
            };
            Ok(MVal::TStr([&us[..from].concat()[..], &mid[..], &us[to..].concat()[..]].concat()))
        }
        Cont::Bytes(b) => {
            let mid: Vec<u8> = match y {
                None => vec![],
                Some(MVal::BStr(m)) => m,
                Some(_) => return Some(Err(F::U)),
            };
            Ok(MVal::BStr([&b[..from], &mid[..], &b[to..]].concat()))
        }
        _ => unreachable!(),
    })
}

fn m_index_upd(c: &Cont, i: &MVal, u: UF) -> Option<W> {
    match (c, i) {
        (Cont::Obj(o), k) => {
            if k.contains_nan() {
                return None;
            }
            let pos = o.iter().position(|(k2, _)| eq_m(k2, k));
            let mut o2 = o.clone();
            match pos {
                Some(p) => match u(&o[p].1) {
                    Err(()) => return Some(Err(F::U)),
                    Ok(v) => match v.into_iter().next() {
                        Some(y) => o2[p].1 = y,
                        None => {
                            o2.remove(p);
                        }
                    },
                },
                None => match u(&MVal::Null) {
                    Err(()) => return Some(Err(F::U)),
                    Ok(v) => {
                        if let Some(y) = v.into_iter().next() {
                            o2.push((k.clone(), y))
                        }
                    }
                },
            }
            Some(Ok(MVal::Obj(o2)))
        }
        (c, MVal::Obj(o)) if c.sliceable() => {
            let s = obj_get(o, &tstr("start")).cloned().unwrap_or(MVal::Null);
            let e = obj_get(o, &tstr("end")).cloned().unwrap_or(MVal::Null);
            m_slice_upd(c, &s, &e, u)
        }
        (Cont::Arr(a), MVal::Int(ix, _)) => Some(match abs_idx(ix, a.len()) {
            None => Err(F::Path),
            Some(p) => match u(&a[p]) {
                Err(()) => Err(F::U),
                Ok(v) => {
                    let mut b = a.clone();
                    match v.into_iter().next() {
                        None => {
                            b.remove(p);
                        }
                        Some(y) => b[p] = y,
                    }
                    Ok(MVal::Arr(b))
                }
            },
        }),
        _ => Some(Err(F::Path)),
    }
}

fn m_iter_upd(c: &Cont, u: UF) -> Option<W> {
    Some(match c {
        Cont::Arr(a) => {
            let mut out = Vec::new();
            for x in a {
                match u(x) {
                    Err(()) => return Some(Err(F::U)),
                    Ok(v) => out.extend(v),
                }
            }
            Ok(MVal::Arr(out))
        }
        Cont::Obj(o) => {
            let mut out = Vec::new();
            for (k, x) in o {
                match u(x) {
                    Err(()) => return Some(Err(F::U)),
                    Ok(v) => {
                        if let Some(y) = v.into_iter().next() {
                            out.push((k.clone(), y))
                        }
                    }
                }
            }
            Ok(MVal::Obj(out))
        }
        _ => Err(F::Path),
    })
}

fn opt_variant(w: Option<W>, input: &MVal) -> Option<W> {
    w.map(|w| match w {
        Err(F::Path) => Ok(input.clone()),
        other => other,
    })
}

fn is_int(v: &MVal) -> bool {
    matches!(v, MVal::Int(..))
}

/// Domain on which the manual's slice_upd definition is meaningful: integer
/// bounds with from <= to after normalisation.
fn manual_slice_domain(c: &Cont, i: &MVal, j: &MVal) -> bool {
    if !is_int(i) || !is_int(j) {
        return false;
    }
    if !c.sliceable() {
        return true;
    }
    match (bound(i, c.len(), 0), bound(j, c.len(), c.len())) {
        (Ok(f), Ok(t)) => f <= t,
        _ => false,
    }
}

fn check_write(c: &Cont, i: &MVal, j: &MVal, u: usize, sample: bool) -> CaseResult {
    let cv = c.to_mval();
    let case = || json!({"container": cv.show(), "i": i.show(), "j": j.show(), "u": UPDATES[u]});
    // invalid UTF-8 text with `.[1:]` as update is not modelled
    if UPDATES[u] == ".[1:]" && matches!(&cv, MVal::TStr(s) if std::str::from_utf8(s).is_err()) {
        return Ok(CaseOk::trivial().class("not-modelled"));
    }
    let prog = upd_prog(UPDATES[u]);
    let res = jq::eval1(&prog, &[("i", i.to_val()), ("j", j.to_val())], cv.to_val()).map_err(|e| CaseFail::new("write-eval", e, case()))?;
    let res = MVal::from_val(&res);
    let r = match &res {
        MVal::Arr(r) => r,
        _ => unreachable!(),
    };
    let huge = [i, j].iter().any(|x| matches!(x, MVal::Int(b, _) if b.magnitude().bits() > 63));
    let sfx = if huge { ":beyond-64-bit" } else { "" };
    let uf = |x: &MVal| model_all(u, x);
    let jc = j.clone();
    let assign = move |_: &MVal| Ok(vec![jc.clone()]);
    let del = |_: &MVal| Ok(vec![]);
    // ---- primary oracle: the Rust position/splice model
    let models: [Option<W>; 11] = [
        m_index_upd(c, i, &uf),
        opt_variant(m_index_upd(c, i, &uf), &cv),
        m_slice_upd(c, i, j, &uf),
        opt_variant(m_slice_upd(c, i, j, &uf), &cv),
        m_slice_upd(c, i, &MVal::Null, &uf),
        m_slice_upd(c, &MVal::Null, j, &uf),
        m_iter_upd(c, &uf),
        opt_variant(m_iter_upd(c, &uf), &cv),
        m_index_upd(c, i, &assign),
        m_index_upd(c, i, &del),
        m_slice_upd(c, i, j, &del),
    ];
    let mut changed_len = false;
    let size = |x: &MVal| match x {
        MVal::Arr(a) => a.len(),
        MVal::TStr(s) | MVal::BStr(s) => s.len(),
        MVal::Obj(o) => o.len(),
        _ => 0,
    };
    for k in 0..11 {
        let got = got_r(&r[2 * k]);
        if let Some(want) = &models[k] {
            let agree = match (&got, want) {
                (Ok(x), Ok(y)) => {
                    // deleting from an object may reorder the remaining entries
                    if matches!(c, Cont::Obj(_)) && size(y) < c.len() {
                        !x.contains_nan() && eq_m(x, y) && x.kind() == y.kind()
                    } else {
                        x.same(y)
                    }
                }
                (Err(()), Err(_)) => true,
                _ => false,
            };
            if !agree {
                let w = match want {
                    Ok(v) => v.show(),
                    Err(f) => format!("an error ({f:?})"),
                };
                return Err(CaseFail::new(
                    format!("write-model:{}{sfx}", UPD_NAMES[k]),
                    format!("{}: jaq gave {} but the position/splice model says {}", UPD_NAMES[k], show_r(&got), w),
                    case(),
                ));
            }
        }
        if let Ok(x) = &got {
            changed_len |= size(x) != size(&cv);
        }
    }
    // ---- secondary oracle: the manual's definitions on the domain where they are meaningful
    let slice_dom = manual_slice_domain(c, i, j);
    let null_out = |x: &MVal| matches!(model_all(u, x).map(|v| v.into_iter().next()), Ok(Some(MVal::Null)));
    let index_dom = match i {
        MVal::Float(_) | MVal::Dec(_) => false,
        MVal::Obj(o) if c.sliceable() => {
            let s = obj_get(o, &tstr("start")).cloned().unwrap_or(MVal::Null);
            let e = obj_get(o, &tstr("end")).cloned().unwrap_or(MVal::Null);
            manual_slice_domain(c, &s, &e) && !null_out(&cv)
        }
        _ => !i.contains_nan(),
    };
    let empties = matches!(UPDATES[u], "empty");
    let manual_ok: [bool; 11] = [
        index_dom,
        index_dom,
        slice_dom && !null_out(&cv),
        slice_dom && !null_out(&cv),
        is_int(i) && !null_out(&cv),
        is_int(j) && !null_out(&cv),
        !(matches!(c, Cont::Obj(_)) && empties),
        !(matches!(c, Cont::Obj(_)) && empties),
        index_dom && !(matches!(i, MVal::Obj(_)) && c.sliceable()),
        index_dom,
        slice_dom,
    ];
    let mut manual_compared = 0;
    for k in 0..11 {
        if !manual_ok[k] {
            continue;
        }
        manual_compared += 1;
        let (got, want) = (got_r(&r[2 * k]), got_r(&r[2 * k + 1]));
        let agree = match (&got, &want) {
            (Ok(x), Ok(y)) => !x.contains_nan() && !y.contains_nan() && eq_m(x, y) && x.kind() == y.kind(),
            (Err(()), Err(())) => true,
            _ => false,
        };
        if !agree {
            return Err(CaseFail::new(
                format!("write-vs-manual:{}{sfx}", UPD_NAMES[k]),
                format!("{}: jaq gave {} but the manual's definition gives {}", UPD_NAMES[k], show_r(&got), show_r(&want)),
                case(),
            ));
        }
    }
    // key order under non-deleting updates of objects
    if let (Cont::Obj(o), Ok(MVal::Arr(gk))) = (c, got_r(&r[22])) {
        let mut want: Vec<MVal> = o.iter().map(|e| e.0.clone()).collect();
        if obj_get(o, i).is_none() {
            want.push(i.clone());
        }
        if gk.len() == want.len() {
            // same number of keys => nothing was deleted => order must be kept
            if !gk.iter().zip(&want).all(|(a, b)| eq_m(a, b)) {
                return Err(CaseFail::new("write-key-order", format!("keys after non-deleting update: {} expected {}", MVal::Arr(gk.clone()).show(), MVal::Arr(want).show()), case()));
            }
        }
    }
    let neg = |x: &MVal| matches!(x, MVal::Int(b, _) if b.is_negative());
    let nontrivial = changed_len || neg(i) || neg(j) || !matches!(i, MVal::Int(..));
    let mut ok = CaseOk::new(nontrivial, fnv_str(&[&format!("{cv:?}"), &format!("{i:?}"), &format!("{j:?}"), UPDATES[u]]));
    ok = ok.class(if changed_len { "length-changing" } else { "length-preserving-or-error" });
    if manual_compared > 0 {
        ok = ok.class("compared-with-manual-definition");
    }
    if sample {
        ok = ok.desc(Some(case()));
    }
    Ok(ok)
}

// ------------------------------------------------------------------ enumeration domains

const ALPHA: [&[u8]; 5] = [b"a", "é".as_bytes(), "€".as_bytes(), "😀".as_bytes(), b"\xff"];

fn strings_upto(n: usize) -> Vec<Vec<Vec<u8>>> {
    let mut out: Vec<Vec<Vec<u8>>> = vec![vec![]];
    let mut layer: Vec<Vec<Vec<u8>>> = vec![vec![]];
    for _ in 0..n {
        let mut next = Vec::new();
        for s in &layer {
            for a in ALPHA {
                let mut t = s.clone();
                t.push(a.to_vec());
                next.push(t);
            }
        }
        out.extend(next.iter().cloned());
        layer = next;
    }
    out
}

fn containers(strlen: usize) -> Vec<Cont> {
    let mut v = Vec::new();
    let elems = [int(10), tstr("s"), MVal::Null, MVal::Arr(vec![int(0)])];
    for n in 0..=4 {
        v.push(Cont::Arr(elems[..n].to_vec()));
    }
    v.push(Cont::Arr(vec![int(1), int(2), int(1), int(2), int(1)]));
    for s in strings_upto(strlen) {
        v.push(Cont::Bytes(s.concat()));
        v.push(Cont::Text(s));
    }
    v.push(Cont::Null);
    v.push(Cont::Obj(vec![]));
    // (the last key is an object with two entries: positions name it in both entry orders)
    let keys = [tstr("a"), int(0), MVal::Float(0.0), MVal::Null, MVal::Arr(vec![int(1)]), MVal::Obj(vec![(tstr("b"), int(1))]), tstr("start"), int(-1), int(1), MVal::Obj(vec![(tstr("p"), int(1)), (tstr("q"), int(2))])];
    for (a, ka) in keys.iter().enumerate() {
        v.push(Cont::Obj(vec![(ka.clone(), int(100))]));
        for (b, kb) in keys.iter().enumerate() {
            if eq_m(ka, kb) {
                continue;
            }
            v.push(Cont::Obj(vec![(ka.clone(), int(100)), (kb.clone(), int(101))]));
            if a < 3 && b < 5 {
                for kc in &keys {
                    if !eq_m(ka, kc) && !eq_m(kb, kc) {
                        v.push(Cont::Obj(vec![(ka.clone(), int(100)), (kb.clone(), int(101)), (kc.clone(), int(102))]));
                    }
                }
            }
        }
    }
    v.push(Cont::Other(MVal::Bool(true)));
    v.push(Cont::Other(int(3)));
    v
}

fn positions() -> Vec<MVal> {
    let mut v: Vec<MVal> = (-6..=6).map(int).collect();
    v.push(MVal::Null);
    v
}

fn junk_positions() -> Vec<MVal> {
    vec![
        MVal::Int(pow2(63), false),
        MVal::Int(-pow2(63), false),
        MVal::Int(pow2(64), false),
        MVal::Int(-pow2(64), false),
        MVal::Int(BigInt::from(2), true),
        MVal::Int(BigInt::from(-1), true),
        MVal::Float(1.0),
        MVal::Float(1.5),
        MVal::Dec("1.0".into()),
        tstr("a"),
        MVal::Arr(vec![]),
        MVal::Arr(vec![int(1), int(2)]),
        MVal::Arr(vec![int(10)]),
        MVal::Obj(vec![]),
        MVal::Obj(vec![(tstr("start"), int(1))]),
        MVal::Obj(vec![(tstr("start"), tstr("x"))]),
        MVal::Obj(vec![(tstr("end"), int(-1)), (tstr("start"), MVal::Null)]),
        MVal::Obj(vec![(tstr("p"), int(1)), (tstr("q"), int(2))]),
        MVal::Obj(vec![(tstr("q"), int(2)), (tstr("p"), MVal::Float(1.0))]),
        MVal::Bool(true),
    ]
}

fn to_cont(v: &MVal) -> Cont {
    match v {
        MVal::Arr(a) => Cont::Arr(a.clone()),
        MVal::BStr(b) => Cont::Bytes(b.clone()),
        MVal::TStr(s) => {
            // split into units: characters, and each invalid byte sequence as bstr does.
            // Restrict to strings whose invalid units are single bytes that cannot
            // start or continue a sequence ambiguously: we only build such strings.
            let mut units = Vec::new();
            let mut rest = &s[..];
            while !rest.is_empty() {
                match std::str::from_utf8(rest) {
                    Ok(t) => {
                        units.extend(t.chars().map(|c| c.to_string().into_bytes()));
                        break;
                    }
                    Err(e) => {
                        let good = e.valid_up_to();
                        let t = std::str::from_utf8(&rest[..good]).unwrap();
                        units.extend(t.chars().map(|c| c.to_string().into_bytes()));
                        let bad = e.error_len().unwrap_or(rest.len() - good);
                        units.push(rest[good..good + bad].to_vec());
                        rest = &rest[good + bad..];
                    }
                }
            }
            Cont::Text(units)
        }
        MVal::Obj(o) => Cont::Obj(o.clone()),
        MVal::Null => Cont::Null,
        other => Cont::Other(other.clone()),
    }
}

fn gen_pos(src: &mut Src) -> MVal {
    match src.weighted(&[10, 2, 2]) {
        0 => int(src.range(-50, 50)),
        1 => MVal::Null,
        _ => src.pick(&junk_positions()).clone(),
    }
}

fn gen_cont(src: &mut Src) -> Cont {
    let cfg = Cfg { nan: false, depth: 2, str_pieces: 12, ..Cfg::default() };
    match src.weighted(&[4, 4, 2, 3, 1]) {
        0 => {
            let n = src.below(41);
            Cont::Arr((0..n).map(|k| if src.chance(40) { gen::gen_val_d(src, &cfg, 1) } else { int(k as i64) }).collect())
        }
        1 => {
            let n = src.below(41);
            let mut u = Vec::new();
            for _ in 0..n {
                u.push(src.pick(&ALPHA).to_vec());
            }
            Cont::Text(u)
        }
        2 => {
            let n = src.below(41);
            Cont::Bytes((0..n).map(|_| src.byte()).collect())
        }
        3 => match gen::gen_val_d(src, &cfg, 2) {
            MVal::Obj(o) => Cont::Obj(o),
            _ => Cont::Obj(vec![(tstr("a"), int(1)), (int(0), int(2)), (MVal::Null, int(3))]),
        },
        _ => to_cont(&gen::gen_val(src, &cfg)),
    }
}

fn check_random(src: &mut Src) -> CaseResult {
    let c = gen_cont(src);
    let (i, j) = match &c {
        // an existing key, half of the time spelled differently (other number representation,
        // text/byte twin, other entry order of an object key)
        Cont::Obj(o) if !o.is_empty() && src.bool() => {
            let k = src.pick(o).0.clone();
            (if src.bool() { crate::c08::twin(src, &k) } else { k }, gen_pos(src))
        }
        _ => (gen_pos(src), gen_pos(src)),
    };
    let sample = src.sample;
    if src.bool() {
        check_read(&c, &i, &j, sample)
    } else {
        let u = src.below(UPDATES.len());
        check_write(&c, &i, &j, u, sample)
    }
}

pub fn run(mut rep: Report) -> ! {
    rep.set_rule(
        "containers (all arrays of length 0..4, all text and byte strings of length 0..4/0..3 over {a, é, €, 😀, 0xff}, small objects with arbitrary keys, null, non-containers) x positions (-6..6, null, and junk: big integers, floats, strings, arrays, slice objects, booleans) enumerated exhaustively for reads (model of .[i], has, .[i:j], slice objects, nth, getpath, destructuring, ?-variants) and writes (11 update filters; native update vs the manual's iter_upd/index_upd/slice_upd under ==, plus an independent splice model and key-order preservation); random larger containers (length <= 40, bounds +-50); \
         non-trivial = negative, null, out-of-range or non-integer position, multi-byte text, or length-changing update",
    );
    rep.assume("text-string positions: each character and each invalid byte of the alphabet is one position (the manual equates length with explode|length on valid UTF-8 only)");
    rep.assume("element order after a *deleting* object update is unspecified (compared with ==, like the manual's own checks)");
    let quick = rep.quick();
    let conts = containers(if quick { 3 } else { 4 });
    let nc = conts.len() as u64;
    let mut pos = positions();
    pos.extend(junk_positions());
    let np = pos.len() as u64;
    rep.extra("containers", json!(nc));
    rep.extra("positions", json!(np));
    {
        let conts = &conts;
        rep.exhaustive("whole-container", nc, move |i, s| check_whole(&conts[i as usize], s));
    }
    // known-finding demonstrations / regressions
    {
        let demos: Vec<(Cont, MVal, MVal)> = vec![
            (Cont::Arr(vec![int(1), int(2)]), MVal::Int(pow2(64), false), MVal::Null),
            (Cont::Arr(vec![int(1), int(2)]), MVal::Int(-pow2(64), false), MVal::Int(pow2(64), false)),
            (Cont::Text(vec![b"a".to_vec()]), MVal::Null, MVal::Int(pow2(64), false)),
        ];
        rep.fixed("regressions", demos.len(), |k| check_read(&demos[k].0, &demos[k].1, &demos[k].2, true));
    }
    {
        let (conts, pos) = (&conts, &pos);
        rep.exhaustive("reads-exhaustive", nc * np * np, move |k, s| {
            let c = &conts[(k / (np * np)) as usize];
            let i = &pos[((k / np) % np) as usize];
            let j = &pos[(k % np) as usize];
            check_read(c, i, j, s)
        });
    }
    {
        // writes: containers with strings up to length 2 (quick) / 3 (thorough)
        let wconts = containers(if quick { 2 } else { 3 });
        let nw = wconts.len() as u64;
        let nu = UPDATES.len() as u64;
        let (wconts, pos) = (&wconts, &pos);
        rep.extra("write_containers", json!(nw));
        rep.exhaustive("writes-exhaustive", nw * np * np * nu, move |k, s| {
            let c = &wconts[(k / (np * np * nu)) as usize];
            let i = &pos[((k / (np * nu)) % np) as usize];
            let j = &pos[((k / nu) % np) as usize];
            check_write(c, i, j, (k % nu) as usize, s)
        });
    }
    let n = rep.n(150_000, 3_000_000);
    rep.random("random-large", n, 200, check_random);
    rep.finish()
}
