//! C11 — stream combinators and generators satisfy their defining equations.
//!
//! (a) every equation of the manual is an obligation `lhs == rhs` evaluated
//!     by jaq on generated argument streams (finite streams with embedded
//!     errors, empties and multiplicities), counts of any size and
//!     representation, predicates with 0/1/2 outputs and generated inputs;
//!     both sides are compared as streams including the terminating error.
//! (b) the counting combinators are additionally compared with a model that
//!     the harness computes from the observed items of the argument stream.
//! (c) reduce / foreach are compared with their nested-pipe expansion, which
//!     the harness writes out textually.

use num_bigint::BigInt;
use serde_json::json;
use vcore::gen::{self, pow2, Cfg};
use vcore::jq::OutM;
use vcore::laws::{self, Cmp, Side, Verdict};
use vcore::mval::MVal;
use vcore::runner::{fnv_str, CaseFail, CaseOk, CaseResult, Report};
use vcore::Src;

#[derive(Clone, Debug, Default)]
struct Stream {
    text: String,
    items: usize,
    errors: bool,
    empties: bool,
    multi: bool,
}

const VALUES: &[&str] = &["0", "1", "2", "3", "\"a\"", "null", "false", "true", "[1,2]", "{\"a\":1}", ".", "$v", "-1", "1.5", "[]", "\"\""];
const ERRORS: &[&str] = &["error(\"e\")", "error(null)", "error({\"k\":1})", "error(.)", "error(\"f\")", "error([1])"];
const MULTIS: &[&str] = &["(1,2)", ".[]?", "range(3)", "((1,2)|(.,.*10))", "(.,.)", "range(1;3)", "(null,false)", "(\"a\",\"b\")", "($v,$v)"];

fn gen_item(src: &mut Src, st: &mut Stream, depth: usize) -> String {
    match src.weighted(&[10, 3, 3, 5, if depth > 0 { 4 } else { 0 }]) {
        0 => src.pick(VALUES).to_string(),
        1 => {
            st.errors = true;
            src.pick(ERRORS).to_string()
        }
        2 => {
            st.empties = true;
            src.pick(&["empty", "(.[]?|empty)", "select(false)", "limit(0; 1, 2)"]).to_string()
        }
        3 => {
            st.multi = true;
            src.pick(MULTIS).to_string()
        }
        _ => {
            let inner = gen_stream_d(src, depth - 1, 3);
            st.errors |= inner.errors;
            st.empties |= inner.empties;
            st.multi |= inner.multi;
            match src.below(6) {
                0 => format!("(({}) | select(. != 1))", inner.text),
                1 => format!("first({})", inner.text),
                2 => {
                    st.errors = true;
                    format!("(({}) | if . == 2 then error(\"m\") else . end)", inner.text)
                }
                3 => format!("limit(2; {})", inner.text),
                4 => format!("(try ({}) catch \"c\")", inner.text),
                _ => format!("[{}]", inner.text),
            }
        }
    }
}

fn gen_stream_d(src: &mut Src, depth: usize, max_items: usize) -> Stream {
    let mut st = Stream::default();
    let n = src.below(max_items + 1);
    st.items = n;
    if n == 0 {
        st.text = "empty".into();
        st.empties = true;
        return st;
    }
    let parts: Vec<String> = (0..n).map(|_| gen_item(src, &mut st, depth)).collect();
    st.text = format!("({})", parts.join(", "));
    st
}

fn gen_stream(src: &mut Src) -> Stream {
    gen_stream_d(src, 2, 6)
}

const PREDS: &[&str] = &[".", ". == 1", "true", "false", "(true,false)", "(false,true)", "empty", ". != null", "error(\"p\")", "type == \"number\"", ". > 0", "(., .) | not", "null", ". == 2 or . == \"a\"", "if . == 2 then error(\"q\") else . end"];

/// counts around 0 and the stream length, and far outside, in both integer representations
fn gen_count(src: &mut Src) -> MVal {
    let big = src.chance(80);
    let i: BigInt = match src.weighted(&[10, 4]) {
        0 => BigInt::from(src.range(-2, 9)),
        _ => {
            let pool = [
                -pow2(63) - 1,
                -pow2(63),
                -pow2(31),
                BigInt::from(-1000),
                pow2(31),
                pow2(63) - 1,
                pow2(63),
                pow2(64),
                BigInt::from(10).pow(30),
                -BigInt::from(10).pow(30),
                BigInt::from(100),
            ];
            src.pick(&pool).clone()
        }
    };
    MVal::Int(i, big)
}

fn gen_input(src: &mut Src) -> MVal {
    if src.chance(128) {
        let parse = |s: &str| MVal::from_val(&jaq_json::read::parse_single(s.as_bytes()).unwrap());
        parse(*src.pick(&["null", "0", "1", "2", "[1,2,3]", "[[1,2],[3]]", "{\"a\":1,\"b\":2}", "\"abc\"", "[]", "{}", "[0,1,2,null]", "[1,[2,[3]]]", "true"]))
    } else {
        gen::gen_val(src, &Cfg { nan: false, depth: 2, width: 3, str_pieces: 2, small_nums: true, ..Cfg::default() })
    }
}

struct Case {
    input: MVal,
    v: MVal,
    n: MVal,
}

fn verdict(name: &'static str, lhs: &str, rhs: &str, c: &Case, st: Option<&Stream>, sample: bool, extra_nontrivial: bool) -> CaseResult {
    let vars: Vec<(&str, &MVal)> = vec![("v", &c.v), ("n", &c.n)];
    let case = || json!({"equation": name, "lhs": lhs, "rhs": rhs, "input": c.input.show(), "$v": c.v.show(), "$n": c.n.show()});
    vcore::runner::note_case(|| format!("{name}: {lhs} == {rhs} <- {}", c.input.show()));
    match laws::equation(lhs, rhs, &vars, &c.input, Cmp::Same, true) {
        Verdict::Inconclusive => Ok(CaseOk::trivial().class("discarded-time-limit")),
        Verdict::Differ(m) => Err(CaseFail::new(name, m, case())),
        Verdict::Agree(outs) => {
            let nt = st.map_or(false, |s| s.items >= 2 && (s.errors || s.empties || s.multi)) || extra_nontrivial;
            let mut ok = CaseOk::new(nt, fnv_str(&[name, lhs, &c.input.show(), &c.v.show(), &c.n.show()])).class(name);
            if laws::ends_abnormally(&outs) {
                ok = ok.class("stream-ends-with-error");
            }
            if sample {
                ok = ok.desc(Some(json!({"equation": name, "lhs": lhs, "rhs": rhs, "input": c.input.show(), "$n": c.n.show(), "outputs": vcore::jq::show_outs_m(&outs).chars().take(160).collect::<String>()})));
            }
            Ok(ok)
        }
    }
}

fn gen_case(src: &mut Src) -> Case {
    Case { input: gen_input(src), v: gen_input(src), n: gen_count(src) }
}

fn count_nontrivial(n: &MVal, st: &Stream) -> bool {
    match n {
        MVal::Int(i, big) => *big || i.bits() > 62 || (*i >= BigInt::from(-1) && *i <= BigInt::from(st.items as i64 + 2)),
        _ => false,
    }
}

/// (a) the manual's equations for consumers
fn consumers(src: &mut Src) -> CaseResult {
    // the obligation is chosen first, so that an exhausted byte source does not favour one of them
    let which = src.below(16);
    let c = gen_case(src);
    let s = gen_stream(src);
    let p = src.pick(PREDS).to_string();
    let t = &s.text;
    let nt = count_nontrivial(&c.n, &s);
    let sample = src.sample;
    let (name, lhs, rhs): (&'static str, String, String) = match which {
        0 => ("limit-then-skip-reproduces-f", format!("limit($n; {t}), skip($n; {t})"), t.clone()),
        1 => ("first-is-limit-1", format!("first({t})"), format!("limit(1; {t})")),
        2 => ("first-is-label-break", format!("first({t})"), format!("label $l | {t} | ., break $l")),
        3 => ("last-is-last-of-collected", format!("[last({t})]"), format!("[{t}] | if length == 0 then [] else [.[-1]] end")),
        4 => ("last-is-reduce", format!("[last({t})]"), format!("reduce ({t}) as $x ([]; [$x])")),
        5 => ("nth-is-first-of-skip", format!("nth($n; {t})"), format!("first(skip($n; {t}))")),
        6 => ("isempty-definition", format!("isempty({t})"), format!("first((({t}) | false), true)")),
        7 => ("any-definition", format!("any({t}; {p})"), format!("isempty(first(({t}) | ({p}) | select(.))) | not")),
        8 => ("all-definition", format!("all({t}; {p})"), format!("isempty(first(({t}) | ({p}) | select(. | not)))")),
        9 => ("add-is-reduce", format!("add({t})"), format!("reduce ({t}) as $x (null; . + $x)")),
        10 => ("select-is-if", format!("[({t}) | select({p})]"), format!("[({t}) | if {p} then . else empty end]")),
        11 => ("error-of-stream", format!("[try error({t}) catch .]"), format!("[try first({t}) catch .]")),
        12 => ("limit-of-limit", format!("limit($n; limit(3; {t}))"), format!("limit([$n, 3] | min; {t})")),
        13 => ("skip-then-limit-is-slice", format!("[limit(2; skip($n; {t}))]"), format!("[limit(([$n, 0] | max) + 2; {t})] | .[([$n, 0] | max):]")),
        14 => ("any-all-short-forms", format!("[({t})] | [any({p}), all({p}), any, all]"), format!("[({t})] | [any(.[]; {p}), all(.[]; {p}), any(.[]; .), all(.[]; .)]")),
        _ => ("array-first-last-nth", format!("[({t})] | [first, last, nth(1)]"), format!("[({t})] | [.[0], .[-1], .[1]]")),
    };
    // `skip-then-limit-is-slice` needs machine-sized counts on its right-hand side (array slicing by a
    // huge sum is fine, but `limit(huge + 2)` of an erroring stream differs in where the error shows)
    if name == "skip-then-limit-is-slice" && (s.errors || !matches!(&c.n, MVal::Int(i, _) if i.bits() < 20)) {
        return Ok(CaseOk::trivial().class("skipped-outside-equation-domain"));
    }
    verdict(name, &lhs, &rhs, &c, Some(&s), sample, nt)
}

/// (a) the manual's equations for generators
fn generators(src: &mut Src) -> CaseResult {
    let which = src.below(12);
    let c = gen_case(src);
    let sample = src.sample;
    let f = src.pick(&[".+1", ".[]?", "empty", "(., .)", ".[0]?", "if . < 3 then .+1 else empty end", ".[1:]", "error(\"g\")", "if type == \"number\" and . < 2 then (.+1, .+2) else empty end", "select(. != null) | null", ". * 2", "tostring"]).to_string();
    let p = src.pick(&[". < 3", "type == \"number\" and . < 2", "true", "false", ". != null", "length > 0", "(true, false)", "error(\"p\")", "empty", "."]).to_string();
    let k = 1 + src.below(7);
    // `repeat(f)` with an `f` that yields nothing, and `until(p; f)` with a `p` that never becomes true,
    // loop forever without output (documented behaviour, nothing to compare): not generated
    let rf = src.pick(&[".+1", "(., .)", ". * 2", "tostring", "error(\"g\")", ".[1:]", "(1, 2)", "(., empty)", "[.]"]).to_string();
    let up = src.pick(&[". >= 3", "type == \"number\" and . >= 2", "true", "(true, false)", "error(\"p\")", "empty", "(. >= 2, true)", ". != null"]).to_string();
    let (name, lhs, rhs): (&'static str, String, String) = match which {
        0 => ("repeat-unfolds", format!("limit({k}; repeat({rf}))"), format!("limit({k}; ({rf}), repeat({rf}))")),
        1 => ("recurse1-unfolds", format!("limit({k}; recurse({f}))"), format!("limit({k}; ., (({f}) | recurse({f})))")),
        2 => ("recurse2-is-recurse-select", format!("limit({k}; recurse({f}; {p}))"), format!("limit({k}; recurse(({f}) | select({p})))")),
        3 => ("recurse0-is-recurse-iter-is-dotdot", "[recurse] == [recurse(.[]?)] and [recurse] == [..]".to_string(), "true".to_string()),
        4 => ("while-unfolds", format!("limit({k}; while({p}; {f}))"), format!("limit({k}; if {p} then ., (({f}) | while({p}; {f})) else empty end)")),
        5 => ("until-unfolds", format!("limit({k}; until({up}; if type == \"number\" then .+1 else 3 end))"), format!("limit({k}; if {up} then . else (if type == \"number\" then .+1 else 3 end) | until({up}; if type == \"number\" then .+1 else 3 end) end)")),
        6 => ("repeat-does-not-cache", format!("limit({k}; repeat({rf}))"), format!("limit({k}; def r: ({rf}), r; r)")),
        7 => ("dotdot-paths", "[paths] == [skip(1; path(..))] and [..] == [getpath(path(..))]".to_string(), "true".to_string()),
        8 => ("recurse-on-values", "[recurse] | length".to_string(), "[.. | 1] | length".to_string()),
        9 => ("while-is-recurse-cut", format!("limit({k}; while({p}; {f}))"), format!("limit({k}; def w: if {p} then ., (({f}) | w) else empty end; w)")),
        10 => ("empty-definition", "[empty, ({}[] as $x | .)]".to_string(), "[]".to_string()),
        _ => ("error0-is-error-dot", "try error catch .".to_string(), "try error(.) catch .".to_string()),
    };
    verdict(name, &lhs, &rhs, &c, None, sample, true)
}

const RANGE_ARGS: &[&str] = &["0", "1", "2", "3", "5", "-1", "-3", "10", "0.5", "1.5", "2.5", "-0.5", "\"\"", "\"a\"", "\"aa\"", "\"aaa\"", "[]", "[1]", "[1,1]", "[1,1,1]", "null", "$n", "$v", "(0,1)", "(2,-1)", "(1,0)", "empty", "error(\"r\")", "{}", "true", "1e1", "7"];

/// (a) range/1,2,3 against the `while` definition, with non-numeric and multi-valued arguments
fn ranges(src: &mut Src) -> CaseResult {
    let which = src.below(5);
    let mut c = gen_case(src);
    // keep $n small here: range($n) with a huge bound is cut by limit, but range(0; $n; -1) etc. too
    if src.chance(200) {
        c.n = MVal::Int(BigInt::from(src.range(-4, 12)), src.chance(60));
    }
    let sample = src.sample;
    let (a, b, s) = (src.pick(RANGE_ARGS).to_string(), src.pick(RANGE_ARGS).to_string(), src.pick(RANGE_ARGS).to_string());
    let def = "def rng($from; $to; $by): $from | if $by > 0 then while(. < $to; . + $by) elif $by < 0 then while(. > $to; . + $by) else while(. != $to; . + $by) end;";
    // (compared as streams, not collected: the outputs before a failing step are part of the equation)
    let (name, lhs, rhs): (&'static str, String, String) = match which {
        0 => ("range3-is-while-definition", format!("limit(20; range({a}; {b}; {s}))"), format!("{def} limit(20; rng({a}; {b}; {s}))")),
        1 => ("range2-is-range3-step-1", format!("limit(20; range({a}; {b}))"), format!("limit(20; range({a}; {b}; 1))")),
        2 => ("range1-is-range2-from-0", format!("limit(20; range({b}))"), format!("limit(20; range(0; {b}))")),
        3 => ("range3-arguments-are-cartesian", format!("limit(30; range({a}; {b}; {s}))"), format!("limit(30; ({a}) as $a | ({b}) as $b | ({s}) as $s | range($a; $b; $s))")),
        _ => ("range3-is-while-definition-numeric", format!("limit(20; range({}; {}; {}))", src.range(-5, 5), src.range(-5, 9), src.pick(&["1", "2", "-1", "-2", "3", "0.5", "-0.5", "0"])), String::new()),
    };
    let rhs = if rhs.is_empty() { format!("{def} {}", lhs.replacen("range(", "rng(", 1)) } else { rhs };
    let multi = [&a, &b, &s].iter().any(|x| x.contains(',') || *x == "empty");
    let nonnum = [&a, &b, &s].iter().any(|x| x.starts_with('"') || x.starts_with('[') || *x == "null" || *x == "{}" || *x == "true");
    let r = verdict(name, &lhs, &rhs, &c, None, sample, true)?;
    Ok(if multi { r.class("multi-valued-or-empty-argument") } else { r }.class(if nonnum { "non-numeric-argument" } else { "numeric-arguments" }))
}

// ---------------------------------------------------------------- (b) models computed from observed items

#[derive(Clone, Debug)]
enum ItemM {
    V(MVal),
    E(MVal),
}

fn observe(code: &str, c: &Case) -> Option<Vec<ItemM>> {
    match laws::run_side(code, &[("v", &c.v), ("n", &c.n)], &c.input) {
        Side::Outs(o) => {
            let mut v = Vec::new();
            for x in o {
                match x {
                    OutM::Val(m) => v.push(ItemM::V(m)),
                    OutM::Err(m) => v.push(ItemM::E(m)),
                    _ => return None,
                }
            }
            Some(v)
        }
        _ => None,
    }
}

fn items_same(a: &[ItemM], b: &[ItemM]) -> bool {
    a.len() == b.len()
        && a.iter().zip(b).all(|(x, y)| match (x, y) {
            (ItemM::V(p), ItemM::V(q)) | (ItemM::E(p), ItemM::E(q)) => p.same(q),
            _ => false,
        })
}

fn show_items(a: &[ItemM]) -> String {
    a.iter().map(|i| match i { ItemM::V(v) => v.show(), ItemM::E(v) => format!("ERROR({})", v.show()) }).collect::<Vec<_>>().join(" ")
}

/// clamp a count to 0..=cap
fn clamp(n: &MVal, cap: usize) -> usize {
    match n {
        MVal::Int(i, _) => {
            if *i <= BigInt::from(0) {
                0
            } else if *i >= BigInt::from(cap) {
                cap
            } else {
                use num_traits::ToPrimitive;
                i.to_usize().unwrap()
            }
        }
        _ => 0,
    }
}

fn model(src: &mut Src) -> CaseResult {
    let which = src.below(8);
    let c = gen_case(src);
    let s = gen_stream(src);
    let sample = src.sample;
    let t = &s.text;
    let items = match observe(t, &c) {
        Some(i) => i,
        None => return Ok(CaseOk::trivial().class("discarded-argument-stream-does-not-run")),
    };
    // position of the terminating error, if any (it is the last item)
    let err_at = items.iter().position(|i| matches!(i, ItemM::E(_)));
    let len = items.len();
    let n = clamp(&c.n, len + 5);
    let (name, prog, want): (&'static str, String, Vec<ItemM>) = match which {
        // the first n items; an error among them ends the result, an error after them is never reached
        0 => ("limit-model", format!("limit($n; {t})"), items[..n.min(len)].to_vec()),
        // an error inside the skipped prefix is still an error
        1 => ("skip-model", format!("skip($n; {t})"), match err_at {
            Some(e) if e < n => vec![items[e].clone()],
            _ => items[n.min(len)..].to_vec(),
        }),
        2 => ("first-model", format!("first({t})"), items[..1.min(len)].to_vec()),
        3 => ("last-model", format!("last({t})"), match err_at {
            Some(e) => vec![items[e].clone()],
            None => items.last().cloned().into_iter().collect(),
        }),
        4 => ("nth-model", format!("nth($n; {t})"), match err_at {
            Some(e) if e <= n => vec![items[e].clone()],
            _ => items.get(n).cloned().into_iter().collect(),
        }),
        5 => ("isempty-model", format!("isempty({t})"), match items.first() {
            None => vec![ItemM::V(MVal::Bool(true))],
            Some(ItemM::V(_)) => vec![ItemM::V(MVal::Bool(false))],
            Some(e) => vec![e.clone()],
        }),
        6 => ("collect-model", format!("[{t}]"), match err_at {
            Some(e) => vec![items[e].clone()],
            None => vec![ItemM::V(MVal::Arr(items.iter().map(|i| match i { ItemM::V(v) => v.clone(), ItemM::E(v) => v.clone() }).collect()))],
        }),
        // outputs before the first error are delivered, the error is reported once and ends the stream
        _ => ("try-delivers-prefix-then-one-error", format!("[try ({t}) catch {{caught: .}}]"), {
            let mut a: Vec<MVal> = Vec::new();
            for i in &items {
                match i {
                    ItemM::V(v) => a.push(v.clone()),
                    ItemM::E(e) => a.push(MVal::Obj(vec![(vcore::mval::tstr("caught"), e.clone())])),
                }
            }
            vec![ItemM::V(MVal::Arr(a))]
        }),
    };
    // nth with a negative count is `first(skip(n; f))` = first(f) by definition
    let want = if name == "nth-model" && matches!(&c.n, MVal::Int(i, _) if *i < BigInt::from(0)) { items[..1.min(len)].to_vec() } else { want };
    vcore::runner::note_case(|| format!("{name}: {prog} <- {}", c.input.show()));
    let got = match observe(&prog, &c) {
        Some(g) => g,
        None => return Err(CaseFail::new(name, "the combinator does not run (compile error, halt or time limit) although its argument does", json!({"program": prog, "input": c.input.show(), "$n": c.n.show()}))),
    };
    if !items_same(&got, &want) {
        return Err(CaseFail::new(
            name,
            format!("jaq yields [{}], the model over the observed items [{}] of the argument yields [{}]", show_items(&got), show_items(&items), show_items(&want)),
            json!({"program": prog, "input": c.input.show(), "$v": c.v.show(), "$n": c.n.show()}),
        ));
    }
    let nt = (s.items >= 2 && (s.errors || s.empties || s.multi)) || count_nontrivial(&c.n, &s);
    let mut ok = CaseOk::new(nt, fnv_str(&[name, &prog, &c.input.show(), &c.v.show(), &c.n.show()])).class(name);
    if err_at.is_some() {
        ok = ok.class("argument-stream-has-error");
    }
    if sample {
        ok = ok.desc(Some(json!({"obligation": name, "program": prog, "input": c.input.show(), "$n": c.n.show(), "items": show_items(&items), "result": show_items(&got)})));
    }
    Ok(ok)
}

// ---------------------------------------------------------------- (c) reduce / foreach against the nested-pipe expansion

const XS_VALUES: &[&str] = &["0", "1", "2", "3", "\"a\"", "null", "[1,2]", "[3]", "{\"a\":1}", "{\"a\":2,\"b\":3}", "true", "[]", "{}", "-1"];
const UPDATES: &[&str] = &[". + $x", "[., $x]", "$x", "empty", "(., $x)", "., .", "error(\"u\")", "if $x == 2 then empty else [.[]?, $x] end", ".[$x]?", "[.[]?, $x]", "select($x != 1)", "if . == null then $x else (., $x) end", "if $x == 1 then error($x) else . end", ". as $y | [$y, $x]", "first(., $x)", "limit(2; ., $x, 7)"];
const INITS: &[&str] = &["null", "0", "[]", ".", "$v", "(0, 10)", "empty", "error(\"i\")", "\"\"", "{}", "(., null)"];
const PROJS: &[&str] = &[".", "[$x, .]", "empty", "(., $x)", "$x", "error(\"p\")", "select(. != null)", "length?", "if $x == 2 then empty else . end"];
const PATS: &[(&str, &str)] = &[("$x", "$x"), ("$x", "$x"), ("[$x, $y]", "$x"), ("{a: $x}", "$x"), ("{a: $x, $b}", "$x"), ("[$y, $x]", "$x")];

fn folds(src: &mut Src) -> CaseResult {
    let kind = src.below(3);
    let c = gen_case(src);
    let sample = src.sample;
    let n = src.below(5);
    let xs: Vec<String> = (0..n).map(|_| src.pick(XS_VALUES).to_string()).collect();
    let xs_text = if xs.is_empty() { "empty".to_string() } else { format!("({})", xs.join(", ")) };
    let (pat, _) = *src.pick(PATS);
    let init = src.pick(INITS).to_string();
    let upd = src.pick(UPDATES).to_string();
    let proj = src.pick(PROJS).to_string();
    let (name, lhs, rhs): (&'static str, String, String) = match kind {
        0 => {
            // init | x1 as $x | update | ... | xn as $x | update
            let mut e = format!("({init})");
            for x in &xs {
                e = format!("{e} | ({x} as {pat} | ({upd}))");
            }
            ("reduce-is-nested-pipes", format!("reduce {xs_text} as {pat} ({init}; {upd})"), e)
        }
        1 => {
            // init | (x1 as $x | update | project, (... (empty)))
            let mut e = "empty".to_string();
            for x in xs.iter().rev() {
                e = format!("({x} as {pat} | ({upd}) | (({proj}), ({e})))");
            }
            ("foreach3-is-nested-pipes", format!("foreach {xs_text} as {pat} ({init}; {upd}; {proj})"), format!("({init}) | {e}"))
        }
        _ => ("foreach2-is-foreach3-identity", format!("foreach {xs_text} as {pat} ({init}; {upd})"), format!("foreach {xs_text} as {pat} ({init}; {upd}; .)")),
    };
    let multi_update = ["(., $x)", "., .", "empty", "select", "first(", "limit("].iter().any(|m| upd.contains(m)) || upd.contains("empty");
    let r = verdict(name, &lhs, &rhs, &c, None, sample, xs.len() >= 2)?;
    Ok(if multi_update { r.class("update-with-0-or-several-outputs") } else { r }.class(if pat == "$x" { "variable-pattern" } else { "destructuring-pattern" }))
}

pub fn run(mut rep: Report) -> ! {
    rep.set_rule(
        "argument streams: comma-compositions of 0..6 items drawn from values, `error(..)` calls, empties, multi-valued filters and nested transformations (select, first, limit, try, an error injected at value 2); counts $n from -2..9 and from {+-2^31, +-2^63 and neighbours, 2^64, +-10^30} in machine and big-integer representation; predicates with 0/1/2 outputs and errors; inputs and a variable $v from the value generator. \
         Each equation of the manual (consumers, generators, range/1,2,3 incl. strings and arrays, reduce/foreach vs their textual nested-pipe expansion with 0..4 inputs, destructuring patterns, updates with 0/1/2 outputs and errors, projections) is one obligation: both sides are run by jaq and compared as streams, values by indistinguishability, terminating error payload included. \
         The counting combinators are also compared with a model computed in the harness from the observed items of the argument stream. \
         non-trivial = the argument stream has >= 2 items and an error, an empty or a multi-valued item, or the count is within [-1, items+2] or not a machine integer, or the fold has >= 2 inputs; distinct by (obligation, program text, input, $v, $n)",
    );
    rep.assume("both sides of an equation are evaluated by jaq itself (the evaluator's own correctness is C01's business); the models of limit/skip/first/last/nth/isempty/[..]/try are computed by the harness from the items jaq yields for the bare argument stream");
    rep.assume("non-integer counts (1.5, \"a\", null) are outside the documented domain of limit/skip/nth and are not generated here (crash-freedom only, C05)");
    let n = rep.n(30_000, 3_000_000);
    rep.random("consumer-equations", n, 96, consumers);
    rep.random("counting-models", n, 96, model);
    rep.random("generator-equations", n / 2, 64, generators);
    rep.random("range-equations", n / 2, 64, ranges);
    rep.random("fold-expansions", n, 64, folds);
    rep.finish()
}
