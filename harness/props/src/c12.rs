//! C12 — collection built-ins obey the invariants and equations the manual states.
//!
//! (a) the sort family (`sort_by`, `group_by`, `unique_by`, `min_by`,
//!     `max_by` and their `[f]` forms) against a model computed in the
//!     harness: the keys are obtained with `map([f])`, ordered with the
//!     harness' own transcription of the manual's order, stably;
//! (b) every other documented equation / invariant as an in-language
//!     obligation evaluated by jaq on generated inputs with ties,
//!     duplicates, mixed types, empties and non-string keys.

use crate::c08::twin;
use serde_json::json;
use std::cmp::Ordering;
use vcore::gen::{self, Cfg};
use vcore::jq::{self, OutM};
use vcore::laws::{self, Cmp, Side, Verdict};
use vcore::mval::{cmp_m, eq_m, int, order_domain, tstr, MVal};
use vcore::runner::{fnv_str, CaseFail, CaseOk, CaseResult, Report};
use vcore::Src;

fn cfg() -> Cfg {
    Cfg { nan: false, depth: 2, width: 3, str_pieces: 2, small_nums: true, ..Cfg::default() }
}

/// arrays with many ties: elements drawn (with repetition) from a small pool that contains
/// equal-but-distinguishable twins
fn gen_tied_array(src: &mut Src, long: bool) -> Vec<MVal> {
    let npool = 1 + src.below(5);
    let mut pool: Vec<MVal> = Vec::new();
    for _ in 0..npool {
        let v = match src.below(4) {
            0 => gen::gen_val(src, &cfg()),
            1 => MVal::Obj(vec![(tstr("a"), gen::gen_scalar(src, &cfg())), (tstr("b"), int(src.range(0, 2)))]),
            2 => MVal::Obj(vec![(tstr("b"), int(src.range(0, 2))), (tstr("a"), int(src.range(0, 2)))]),
            _ => MVal::Arr(vec![int(src.range(0, 2)), gen::gen_scalar(src, &cfg())]),
        };
        let t = if src.bool() { twin(src, &v) } else { v.clone() };
        pool.push(v);
        pool.push(t);
    }
    let n = if long { 21 + src.below(100) } else { src.below(9) };
    (0..n).map(|_| src.pick(&pool).clone()).collect()
}

const KEYS: &[&str] = &[".", ".a?", "(.a?, .b?)", "empty", "length?", "type", "[.a?]", ".b? // 0", "tostring", ".[0]?", "(.[0]?, .[1]?)", ".a", "error(\"k\")", "(., .)", "(.b?, empty)", "null"];

fn key_cmp(a: &MVal, b: &MVal) -> Ordering {
    cmp_m(a, b)
}

/// (a) sort family against the model
fn sort_family(src: &mut Src) -> CaseResult {
    let which = src.below(8);
    let long = src.chance(70);
    let xs = gen_tied_array(src, long);
    let f = src.pick(KEYS).to_string();
    let sample = src.sample;
    let input = MVal::Arr(xs.clone());
    let case = |prog: &str| json!({"program": prog, "input": input.show()});
    // keys as jaq computes them, one array of outputs per element
    let keys: Result<Vec<MVal>, ()> = match laws::run_side(&format!("map([{f}])"), &[], &input) {
        Side::Outs(o) => match o.as_slice() {
            [OutM::Val(MVal::Arr(k))] => Ok(k.clone()),
            [OutM::Err(_)] => Err(()),
            _ => return Err(CaseFail::new("harness-keys", format!("map([{f}]) gave {}", jq::show_outs_m(&o)), case(&f))),
        },
        _ => return Ok(CaseOk::trivial().class("discarded-keys-do-not-run")),
    };
    let (name, prog): (&'static str, String) = match which {
        0 => ("sort_by", format!("sort_by({f})")),
        1 => ("sort_by-array-key", format!("sort_by([{f}])")),
        2 => ("group_by", format!("group_by({f})")),
        3 => ("unique_by", format!("unique_by({f})")),
        4 => ("min_by", format!("min_by({f})")),
        5 => ("max_by", format!("max_by({f})")),
        6 => ("min_by-array-key", format!("min_by([{f}])")),
        _ => ("max_by-array-key", format!("max_by([{f}])")),
    };
    vcore::runner::note_case(|| format!("{prog} <- {}", input.show()));
    let got = match laws::run_side(&prog, &[], &input) {
        Side::Outs(o) => o,
        Side::NoCompile(e) => return Err(CaseFail::new("harness-program", e, case(&prog))),
        Side::Timeout => return Ok(CaseOk::trivial().class("discarded-time-limit")),
    };
    let keys = match keys {
        Err(()) => {
            // the key filter fails on some element: so must the built-in
            return if matches!(got.as_slice(), [OutM::Err(_)]) {
                Ok(CaseOk::new(xs.len() >= 1, fnv_str(&[&prog, &input.show()])).class(name).class("key-filter-fails"))
            } else {
                Err(CaseFail::new(format!("{name}-swallows-key-error"), format!("the key filter fails on an element but {prog} yields {}", jq::show_outs_m(&got)), case(&prog)))
            };
        }
        Ok(k) => k,
    };
    // domain of the order
    for a in &keys {
        for b in &keys {
            if !order_domain(a, b) {
                return Ok(CaseOk::trivial().class("outside-order-domain"));
            }
        }
    }
    let mut idx: Vec<usize> = (0..xs.len()).collect();
    idx.sort_by(|&i, &j| key_cmp(&keys[i], &keys[j]));
    let sorted: Vec<MVal> = idx.iter().map(|&i| xs[i].clone()).collect();
    let mut groups: Vec<Vec<usize>> = Vec::new();
    for &i in &idx {
        match groups.last_mut() {
            Some(g) if eq_m(&keys[g[0]], &keys[i]) => g.push(i),
            _ => groups.push(vec![i]),
        }
    }
    let got_val = match got.as_slice() {
        [OutM::Val(v)] => v.clone(),
        _ => return Err(CaseFail::new(name, format!("expected one value, got {}", jq::show_outs_m(&got)), case(&prog))),
    };
    let bad = |want: &MVal| CaseFail::new(name, format!("jaq gave {} but the model (keys {}) says {}", got_val.show(), MVal::Arr(keys.clone()).show(), want.show()), case(&prog));
    match which {
        0 | 1 => {
            let want = MVal::Arr(sorted);
            if !got_val.same(&want) {
                return Err(bad(&want));
            }
        }
        2 => {
            let want = MVal::Arr(groups.iter().map(|g| MVal::Arr(g.iter().map(|&i| xs[i].clone()).collect())).collect());
            if !got_val.same(&want) {
                return Err(bad(&want));
            }
        }
        3 => {
            let want = MVal::Arr(groups.iter().map(|g| xs[g[0]].clone()).collect());
            if !got_val.same(&want) {
                return Err(bad(&want));
            }
        }
        _ => {
            if xs.is_empty() {
                if !got_val.same(&MVal::Null) {
                    return Err(bad(&MVal::Null));
                }
            } else {
                // an extremal element: one of the input elements whose key is minimal / maximal
                let ext = if which % 2 == 0 { &keys[idx[0]] } else { &keys[idx[idx.len() - 1]] };
                let ok = (0..xs.len()).any(|i| xs[i].same(&got_val) && eq_m(&keys[i], ext));
                if !ok {
                    return Err(bad(&xs[if which % 2 == 0 { idx[0] } else { idx[idx.len() - 1] }]));
                }
            }
        }
    }
    let ties = groups.iter().any(|g| g.len() > 1);
    let mut ok = CaseOk::new(xs.len() >= 2 && ties, fnv_str(&[&prog, &input.show()])).class(name).class(if ties { "with-ties" } else { "no-ties" }).class(if xs.len() > 20 { "longer-than-20" } else { "short" });
    if keys.iter().any(|k| matches!(k, MVal::Arr(a) if a.len() != 1)) {
        ok = ok.class("key-filter-with-0-or-2-outputs");
    }
    if sample {
        ok = ok.desc(Some(json!({"program": prog, "input": input.show(), "result": got_val.show()})));
    }
    Ok(ok)
}

const STR_ALPHA: &[&str] = &["a", "b", "ab", "X", " ", "é", "€", "😀", ",", "aa", "-", "1"];

fn gen_text(src: &mut Src, max: usize) -> String {
    let n = src.below(max + 1);
    (0..n).map(|_| *src.pick(STR_ALPHA)).collect()
}

fn jstr(s: &str) -> String {
    MVal::TStr(s.as_bytes().to_vec()).show()
}

const DEFS: &str = r#"
def flattens: if isarray then .[] | flattens end;
def flattens($d): if isarray and $d >= 0 then .[] | flattens($d-1) end;
def verify_transpose: transpose as $t |
  ($t | length) == ((map(length) | max) // 0),
  (range($t | length) as $x |
    ($t[$x] | length) == length,
    (range(length) as $y |
      $t[$x][$y] == .[$y][$x]
    )
  );
def c($x):
  if isstring and ($x | isstring) then ($x | length) as $n | any(range(0; length - $n + 1) as $i | .[$i:][:$n] == $x; .)
  elif isarray and ($x | isarray) then . as $in | all($x[] as $v | any($in[] | c($v); .); .)
  elif isobject and ($x | isobject) then . as $in | all($x | to_entries[] as $e | ($in | has($e.key)) and ($in[$e.key] | c($e.value)); .)
  elif (. == null or isboolean or isnumber) then . == $x
  else false end;
def w(f): def rec: (.[]? |= rec) | f; rec;
"#;

/// (b) documented equations, one obligation each
fn equations(src: &mut Src) -> CaseResult {
    let which = src.below(48);
    let sample = src.sample;
    let long = src.chance(40);
    let arr = MVal::Arr(gen_tied_array(src, long));
    let any = gen::gen_val(src, &Cfg { nan: true, depth: 2, width: 3, str_pieces: 2, small_nums: true, ..Cfg::default() });
    let f = src.pick(KEYS).to_string();
    let obj = match gen::gen_val_d(src, &Cfg { nonstring_keys: true, ..cfg() }, 2) {
        o @ MVal::Obj(_) => o,
        _ => MVal::Obj(vec![(tstr("b"), int(1)), (int(0), MVal::Null), (tstr("a"), MVal::Arr(vec![]))]),
    };
    // needle: a slice of the array, a single element, or something foreign
    let needle = match &arr {
        MVal::Arr(a) if !a.is_empty() => {
            let i = src.below(a.len());
            match src.below(6) {
                0 => a[i].clone(),
                1 => MVal::Arr(a[i..(i + 1 + src.below(2)).min(a.len())].to_vec()),
                2 => twin(src, &a[i]),
                3 | 4 => {
                    // an array of parts of the input's elements, drawn with repetition: it may be longer
                    // than the input and still be contained in it
                    let k = 1 + src.below(a.len() + 3);
                    MVal::Arr((0..k).map(|_| {
                        let e = src.pick(a).clone();
                        match &e {
                            MVal::TStr(b) if !b.is_empty() && src.bool() => {
                                let cs: Vec<char> = String::from_utf8_lossy(b).chars().collect();
                                let i = src.below(cs.len());
                                MVal::TStr(cs[i..(i + 1 + src.below(2)).min(cs.len())].iter().collect::<String>().into_bytes())
                            }
                            MVal::Arr(x) if !x.is_empty() && src.bool() => MVal::Arr(vec![src.pick(x).clone()]),
                            MVal::Obj(o) if !o.is_empty() && src.bool() => MVal::Obj(vec![src.pick(o).clone()]),
                            _ => e,
                        }
                    }).collect())
                }
                _ => gen::gen_scalar(src, &cfg()),
            }
        }
        _ => gen::gen_scalar(src, &cfg()),
    };
    let s = gen_text(src, 8);
    let t = if !s.is_empty() && src.chance(170) {
        let cs: Vec<char> = s.chars().collect();
        let i = src.below(cs.len());
        let j = (i + 1 + src.below(2)).min(cs.len());
        cs[i..j].iter().collect::<String>()
    } else {
        gen_text(src, 2)
    };
    let d = src.below(4);
    let uf = *src.pick(&[".", "if isnumber then . + 1 else . end", "if isarray then length else . end", "tostring", "if isobject then keys_unsorted else . end", "[.]?", "(., .)", "empty", "if . == null then empty else . end"]);
    let nested = MVal::Arr((0..src.below(4)).map(|_| MVal::Arr((0..src.below(4)).map(|_| gen::gen_val_d(src, &cfg(), 1)).collect())).collect());
    // (name, program lhs, program rhs, input, compare payloads)
    let (name, lhs, rhs, input, payload): (&'static str, String, String, MVal, bool) = match which {
        0 => ("keys-is-sorted-keys_unsorted", "keys".into(), "keys_unsorted | sort".into(), if src.bool() { obj.clone() } else { arr.clone() }, false),
        1 => ("entries-round-trip", "to_entries | from_entries".into(), ".".into(), obj.clone(), true),
        2 => ("with_entries-identity", "with_entries(.)".into(), ".".into(), obj.clone(), true),
        3 => ("unique-is-unique_by-identity", "unique".into(), "unique_by(.)".into(), arr.clone(), true),
        4 => ("min-max-sort-short-forms", "[min, max, sort]".into(), "[min_by(.), max_by(.), sort_by(.)]".into(), arr.clone(), true),
        5 => ("group_by-concatenation-is-sort_by", format!("(group_by({f}) | add) // []"), format!("sort_by({f})"), arr.clone(), false),
        6 => ("unique_by-is-first-of-each-group", format!("unique_by({f})"), format!("[group_by({f})[] | .[0]]"), arr.clone(), false),
        7 => ("indices-of-array-in-array", "($x | length) as $n | if ($x | isarray) and $n > 0 then indices($x) else \"skip\" end".into(), "($x | length) as $n | if ($x | isarray) and $n > 0 then [range(0; length + 1) as $i | select(.[$i:][:$n] == $x) | $i] else \"skip\" end".into(), arr.clone(), true),
        8 => ("indices-of-element-in-array", "if ($x | isarray) then \"skip\" else indices($x) end".into(), "if ($x | isarray) then \"skip\" else [range(0; length) as $i | select(.[$i] == $x) | $i] end".into(), arr.clone(), true),
        9 => ("indices-of-string-in-string", format!("{} as $t | if $t == \"\" then \"skip\" else indices($t) end", jstr(&t)), format!("{} as $t | ($t | length) as $n | if $t == \"\" then \"skip\" else [range(0; length + 1) as $i | select(.[$i:][:$n] == $t) | $i] end", jstr(&t)), MVal::TStr(s.clone().into_bytes()), true),
        10 => ("index-rindex-are-first-last-of-indices", "if ($x | isarray) and ($x | length) == 0 then \"skip\" else [index($x), rindex($x)] end".into(), "if ($x | isarray) and ($x | length) == 0 then \"skip\" else [(indices($x) | first), (indices($x) | last)] end".into(), arr.clone(), true),
        11 => ("index-rindex-in-strings", format!("{} as $t | if $t == \"\" then \"skip\" else [index($t), rindex($t)] end", jstr(&t)), format!("{} as $t | if $t == \"\" then \"skip\" else [(indices($t) | first), (indices($t) | last)] end", jstr(&t)), MVal::TStr(s.clone().into_bytes()), true),
        12 => ("flatten-is-manual-definition", "flatten".into(), "[flattens]".into(), if src.bool() { nested.clone() } else { arr.clone() }, true),
        13 => ("flatten-depth-is-manual-definition", format!("flatten({d})"), format!("[flattens({d})]"), if src.bool() { nested.clone() } else { arr.clone() }, true),
        14 => ("transpose-shape-law", "all(verify_transpose; .)".into(), "true".into(), nested.clone(), true),
        15 => ("combinations-is-cartesian-product", "[limit(200; combinations)]".into(), "[limit(200; reduce .[] as $a ([]; . + ($a[] | [.])))]".into(), nested.clone(), false),
        16 => ("combinations-n-is-repeated-input", format!("[limit(200; combinations({d}))]"), format!("[limit(200; [limit({d}; repeat(.))] | combinations)]"), MVal::Arr(match &arr { MVal::Arr(a) => a.iter().take(3).cloned().collect(), _ => vec![] }), false),
        17 => ("bsearch-found-or-insertion-point", "sort | bsearch($x) as $i | if $i >= 0 then .[$i] == $x else (.[:(-$i-1)] + [$x] + .[(-$i-1):]) as $r | ($r == ($r | sort)) and (any(.[]; . == $x) | not) end".into(), "true".into(), arr.clone(), true),
        18 => ("contains-is-four-clause-definition", "contains($x)".into(), "c($x)".into(), if src.bool() { arr.clone() } else { any.clone() }, false),
        19 => ("contains-in-strings", format!("contains({})", jstr(&t)), format!("c({})", jstr(&t)), MVal::TStr(s.clone().into_bytes()), false),
        20 => ("inside-is-flipped-contains", "inside($x)".into(), ". as $i | $x | contains($i)".into(), any.clone(), true),
        21 => ("in-is-flipped-has", "try in($x) catch \"error\"".into(), "try (. as $k | $x | has($k)) catch \"error\"".into(), any.clone(), true),
        22 => ("walk-is-update-of-dotdot", format!("walk({uf})"), format!(".. |= ({uf})"), any.clone(), true),
        23 => ("walk-is-jq-definition", format!("walk({uf})"), format!("w({uf})"), any.clone(), true),
        24 => ("map-is-collect-iterate", format!("map({uf})"), format!("[.[] | {uf}]"), if src.bool() { arr.clone() } else { obj.clone() }, true),
        25 => ("map_values-is-update-iterate", format!("map_values({uf})"), format!(".[] |= ({uf})"), if src.bool() { arr.clone() } else { obj.clone() }, true),
        26 => ("join-definition", format!("join({})", jstr(&t)), format!("{} as $s | if length == 0 then \"\" else reduce .[1:][] as $x (\"\\(.[0])\"; . + $s + \"\\($x)\") end", jstr(&t)), arr.clone(), false),
        27 => ("split-is-division", format!("split({})", jstr(&t)), format!(". / {}", jstr(&t)), MVal::TStr(s.clone().into_bytes()), true),
        28 => ("ltrimstr-removes-one-occurrence-iff-startswith", format!("{} as $t | [ltrimstr($t), startswith($t)]", jstr(&t)), format!("{} as $t | ($t | length) as $n | (.[:$n] == $t) as $st | [if $st then .[$n:] else . end, $st]", jstr(&t)), MVal::TStr(s.clone().into_bytes()), true),
        29 => ("rtrimstr-removes-one-occurrence-iff-endswith", format!("{} as $t | [rtrimstr($t), endswith($t)]", jstr(&t)), format!("{} as $t | ($t | length) as $n | ($n <= length and .[length - $n:] == $t) as $en | [if $en then .[:length - $n] else . end, $en]", jstr(&t)), MVal::TStr(s.clone().into_bytes()), true),
        30 => ("tonumber-toboolean", "[try tonumber catch \"e\", try toboolean catch \"e\"]".into(), "[if isnumber then . elif isstring then (try (fromjson | if isnumber then . else error end) catch \"e\") else \"e\" end, if isboolean then . elif isstring then (try (fromjson | if isboolean then . else error end) catch \"e\") else \"e\" end]".into(), if src.bool() { any.clone() } else { MVal::TStr(src.pick(&["1", "1.5", "-0", "true", "false", "null", " 1", "1 ", "[1]", "\"1\"", "1e3", "nan", "NaN", "", "0x10", "tru", "1 2"]).as_bytes().to_vec()) }, true),
        31 => ("abs-definition", "abs".into(), "if . < 0 then - . else . end".into(), any.clone(), true),
        32 => ("type-and-is-filters-partition-values", "[type, ([isboolean, isnumber, isstring, isarray, isobject, . == null] | map(select(.)) | length), ([nulls, booleans, numbers, strings, arrays, objects] | length), ([scalars, iterables] | length), ([values] | length), ([scalars] | length)]".into(), "(tojson | .[0:1]) as $c | (if $c == \"n\" then \"null\" elif $c == \"t\" or $c == \"f\" then \"boolean\" elif $c == \"\\\"\" or $c == \"b\" then \"string\" elif $c == \"[\" then \"array\" elif $c == \"{\" then \"object\" else \"number\" end) as $t | [$t, 1, 1, 1, (if $t == \"null\" then 0 else 1 end), (if $t == \"array\" or $t == \"object\" then 0 else 1 end)]".into(), any.clone(), true),
        33 => ("selection-filters-select-by-type", "[numbers, strings, arrays, objects, booleans, nulls, iterables, scalars, values]".into(), "[select(type == \"number\"), select(type == \"string\"), select(type == \"array\"), select(type == \"object\"), select(type == \"boolean\"), select(type == \"null\"), select(type == \"array\" or type == \"object\"), select(type != \"array\" and type != \"object\"), select(. != null)]".into(), any.clone(), true),
        34 => ("has-in-duality-on-keys", "[keys_unsorted[] as $k | has($k), ($k | in($o))] | all".into(), "true".into(), if src.bool() { obj.clone() } else { arr.clone() }, true),
        35 => ("min_by-max_by-array-key-forms", format!("[min_by({f}), max_by({f})] | map(tojson)"), format!("[min_by([{f}]), max_by([{f}])] | map(tojson)"), arr.clone(), false),
        36 => ("sort_by-array-key-form", format!("sort_by({f})"), format!("sort_by([{f}])"), arr.clone(), false),
        37 => ("reverse-twice-and-positions", "[(reverse | reverse), (reverse | .[0]), (reverse | length)]".into(), "[., .[-1], length]".into(), arr.clone(), true),
        38 => ("add-and-length-of-entries", "[(to_entries | length), (to_entries | map(.value))]".into(), "[length, [.[]]]".into(), if src.bool() { obj.clone() } else { arr.clone() }, true),
        39 => ("paths-p-is-filtered-paths", "[paths(type == \"number\")], [paths(isarray)], [paths(. == $x)]".into(), "[paths as $p | select(getpath($p) | type == \"number\") | $p], [paths as $p | select(getpath($p) | isarray) | $p], [paths as $p | select(getpath($p) == $x) | $p]".into(), if src.bool() { any.clone() } else { arr.clone() }, true),
        40 => ("to_entries-definition", "to_entries".into(), "[keys_unsorted[] as $k | {key: $k, value: .[$k]}]".into(), obj.clone(), true),
        41 => ("from_entries-last-entry-of-a-key-wins", "[(to_entries | . + reverse | from_entries) == ., (to_entries | . + map(.value = 0) | from_entries) == map_values(0), ([] | from_entries)]".into(), "[true, true, {}]".into(), obj.clone(), true),
        42 => ("any-all-short-forms", "[any, all, any(. == $x), all(. == $x), any(.[]; . == $x), all(.[]; . == $x)]".into(), "([.[] | select(.)] | length > 0) as $a | ([.[] | select(. | not)] | length == 0) as $b | ([.[] | select(. == $x)] | length) as $n | [$a, $b, $n > 0, $n == length, $n > 0, $n == length]".into(), arr.clone(), true),
        43 => ("splits-by-literal-regex-is-division", format!("if {0} == \"\" or . == \"\" then \"skip\" else [[splits({1})], split({1}; \"\")] end", jstr(&t), jstr(&regex_quote(&t))), format!("if {0} == \"\" or . == \"\" then \"skip\" else [. / {0}, . / {0}] end", jstr(&t)), MVal::TStr(s.clone().into_bytes()), true),
        44 => ("del-one-array-element", format!("length as $n | if $n == 0 then \"skip\" else ({d} % $n) as $i | [del(.[$i]), del(.[$i - $n]), del(.[$i:$i + 1]), del(.[$n:]), del(.[$i:$i])] end"), format!("length as $n | if $n == 0 then \"skip\" else ({d} % $n) as $i | (.[:$i] + .[$i + 1:]) as $r | [$r, $r, $r, ., .] end"), arr.clone(), true),
        45 => ("del-one-object-key", ". as $o | [keys_unsorted[] as $k | del(.[$k]) | (. == ($o | with_entries(select(.key != $k)))) and (has($k) | not) and length == ($o | length) - 1 and all(keys_unsorted[] as $j | .[$j] == $o[$j]; .)] | all".into(), "true".into(), obj.clone(), true),
        46 => ("pick-keeps-every-picked-leaf", ". as $o | [paths(scalars) | select(all(.[]; isstring))] as $ps | pick(getpath($ps[])) as $r | [all($ps[]; . as $p | ($r | getpath($p)) == ($o | getpath($p))), ($r | [paths(scalars)] | length) == ($ps | length)]".into(), "[true, true]".into(), if src.bool() { obj.clone() } else { any.clone() }, true),
        _ => ("utf8bytelength-and-explode-length", "[utf8bytelength, length]".into(), "[(tobytes | length), (explode | length)]".into(), MVal::TStr(s.clone().into_bytes()), true),
    };
    let lhs = format!("{DEFS} {lhs}");
    let rhs = format!("{DEFS} {rhs}");
    let vars: Vec<(&str, &MVal)> = vec![("x", &needle), ("o", &input)];
    let case = || json!({"obligation": name, "lhs": lhs.replace(DEFS, "").trim(), "rhs": rhs.replace(DEFS, "").trim(), "input": input.show(), "$x": needle.show()});
    vcore::runner::note_case(|| format!("{name} <- {}", input.show()));
    // the order-dependent obligations are stated on the order's domain
    if matches!(which, 0 | 3 | 4 | 5 | 6 | 17 | 35 | 36) && !order_domain(&input, &needle) {
        return Ok(CaseOk::trivial().class("outside-order-domain"));
    }
    match laws::equation(&lhs, &rhs, &vars, &input, Cmp::Same, payload) {
        Verdict::Inconclusive => Ok(CaseOk::trivial().class("discarded-time-limit")),
        Verdict::Differ(m) => Err(CaseFail::new(name, m, case())),
        Verdict::Agree(outs) => {
            let skipped = matches!(outs.as_slice(), [OutM::Val(MVal::TStr(s))] if s == b"skip");
            let mut ok = CaseOk::new(!skipped && !outs.is_empty(), fnv_str(&[name, &lhs, &input.show(), &needle.show()])).class(name);
            if laws::ends_abnormally(&outs) {
                ok = ok.class("ends-with-error");
            }
            if skipped {
                ok = ok.class("outside-obligation-domain");
            }
            if sample {
                ok = ok.desc(Some(json!({"obligation": name, "lhs": lhs.replace(DEFS, "").trim(), "rhs": rhs.replace(DEFS, "").trim(), "input": input.show(), "$x": needle.show(), "outputs": jq::show_outs_m(&outs).chars().take(160).collect::<String>()})));
            }
            Ok(ok)
        }
    }
}

/// the text as a regular expression that matches exactly itself
fn regex_quote(t: &str) -> String {
    let mut o = String::new();
    for c in t.chars() {
        if c.is_ascii_punctuation() {
            o.push('\\');
        }
        o.push(c);
    }
    o
}

/// floor / round / ceil against IEEE arithmetic in the harness
fn rounding(src: &mut Src) -> CaseResult {
    let v = match src.below(4) {
        0 => MVal::Float(src.range(-40, 40) as f64 / 4.0),
        1 => gen::gen_num(src, &Cfg { nan: true, ..Cfg::default() }),
        2 => MVal::Float(*src.pick(&[0.5, -0.5, 1.5, -1.5, 2.5, -2.5, 0.49999999999999994, -0.49999999999999994, 4503599627370495.5, 4503599627370496.5, 9007199254740993.0, 1e300, -1e300, f64::INFINITY, f64::NEG_INFINITY, f64::NAN, -0.0, 0.0])),
        _ => gen::gen_int(src, &Cfg::default()),
    };
    let sample = src.sample;
    let got = match laws::run_side("[floor, round, ceil]", &[], &v) {
        Side::Outs(o) => o,
        _ => return Ok(CaseOk::trivial()),
    };
    let case = || json!({"program": "[floor, round, ceil]", "input": v.show(), "result": jq::show_outs_m(&got)});
    let r = match got.as_slice() {
        [OutM::Val(MVal::Arr(r))] if r.len() == 3 => r.clone(),
        _ => return Err(CaseFail::new("rounding-fails", "floor/round/ceil of a number must not fail", case())),
    };
    match &v {
        MVal::Int(..) => {
            // integers of any size are unchanged
            if !r.iter().all(|x| x.same(&v) || matches!((x, &v), (MVal::Int(a, _), MVal::Int(b, _)) if a == b)) {
                return Err(CaseFail::new("rounding-changes-integer", "an integer must be returned unchanged", case()));
            }
        }
        _ => {
            let f = v.as_f64().unwrap();
            let want = [f.floor(), f.round(), f.ceil()];
            for (x, w) in r.iter().zip(want) {
                let g = x.as_f64().unwrap_or(f64::NAN);
                let same = (g.is_nan() && w.is_nan()) || g == w;
                if !same {
                    return Err(CaseFail::new("rounding-differs-from-ieee", format!("expected {w}"), case()));
                }
                // a finite result is an integer value
                if w.is_finite() && !(matches!(x, MVal::Int(..)) || g.fract() == 0.0) {
                    return Err(CaseFail::new("rounding-not-integral", "result is not integral", case()));
                }
            }
        }
    }
    let nt = !matches!(&v, MVal::Int(i, false) if i.bits() < 30);
    Ok(CaseOk::new(nt, fnv_str(&[&v.show()])).class(match &v { MVal::Int(..) => "integer", MVal::Dec(_) => "decimal-literal", _ => "float" }).desc(if sample { Some(case()) } else { None }))
}

pub fn run(mut rep: Report) -> ! {
    rep.set_rule(
        "arrays of 0..8 (and 21..120) elements drawn with repetition from a small pool of generated values and their equal-but-distinguishable twins (ties, duplicates, mixed types, small objects in both key orders), objects with arbitrary keys, ragged arrays of arrays, strings over an alphabet with multi-byte characters with needles cut from them, 16 key filters with 0/1/2 outputs and errors: \
         (a) sort_by/group_by/unique_by/min_by/max_by and their [f] forms against a model: keys from map([f]), ordered stably with the harness' transcription of the manual's order (stability, maximal runs, first of each run, an extremal element, null on []); a failing key filter must fail the built-in; \
         (b) 48 documented equations/invariants evaluated by jaq on both sides (keys, entries round trip, indices completeness in arrays and strings, index/rindex, flatten and flatten($d) vs the manual's definitions, transpose shape law, combinations, bsearch insertion point, contains vs its four clauses, inside/in duality, walk, map, map_values, join, split, ltrimstr/rtrimstr vs startswith/endswith, tonumber/toboolean, abs, type and the is*/selection filters as a partition); \
         (c) floor/round/ceil against IEEE arithmetic (integers of any size unchanged); \
         non-trivial = array with >= 2 elements and a tie (a), an obligation inside its documented domain with an output (b), a non-small-integer number (c); distinct by (obligation, input, needle)",
    );
    rep.assume("order-dependent obligations are checked on the domain of the documented order (no NaN; integers beyond 2^53 only against integers/infinities)");
    rep.assume("min_by/max_by: any extremal element is accepted (the manual does not fix the tie-break)");
    let n = rep.n(40_000, 2_000_000);
    rep.random("sort-family-model", n, 300, sort_family);
    rep.random("equations", n * 2, 300, equations);
    rep.random("rounding", n / 2, 32, rounding);
    rep.finish()
}
