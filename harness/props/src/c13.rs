//! C13 — string codecs invert exactly; positions count characters; escaping is safe.
//!
//! (a) inverses (`explode|implode`, `tobytes|tostring`, `@base64|@base64d`, `@uri|@urid`,
//!     `@html|@htmld`, `split|join`), ASCII case mapping and length relations: exhaustively
//!     on all strings up to length 3 over an alphabet of metacharacters, multi-byte
//!     characters, NUL, DEL and invalid bytes; randomly on longer ones;
//! (b) decoders reject rather than truncate malformed input;
//! (c) regex results: offsets and lengths count characters, mismatches and matches reassemble
//!     the input, test/scan/capture/sub agree with match;
//! (d) independent consumers as ground truth: dash evaluates `@sh` output (alone and inside
//!     format strings), Python's csv / json / html / urllib.parse / base64 read `@csv`, `@json`,
//!     `@html`, `@uri`, `@base64` output, a TSV reader written from the format's definition
//!     reads `@tsv`.

use serde_json::{json, Value};
use std::io::Write;
use vcore::cli::{self, Cmd, Scratch};
use vcore::jq::{self, OutM};
use vcore::laws::{self, Side};
use vcore::mval::{tstr, MVal};
use vcore::runner::{fnv, fnv_str, seeded_bytes, CaseFail, CaseOk, CaseResult, Report};
use vcore::Src;

/// alphabet of structurally significant pieces
const ALPHA: &[&[u8]] = &[
    b"'", b"\"", b"\\", b"`", b"$", b" ", b"\t", b"\n", b"\r", b";", b"&", b"|", b"<", b">", b"(", b"*", b"?", b"~", b"#", b"%", b"+", b"=", b",", b"-", b"!", b"a", b"Z", b"0", b"\0", b"\x7f",
    "é".as_bytes(), "€".as_bytes(), "😀".as_bytes(), b"\xff", b"\x80", b"\xe2\x82",
    // what the codecs themselves write: a string that spells an escape sequence must come back as it is,
    // not decoded twice
    b"&lt;", b"&amp;", b"&quot;", b"&#39;", b"&apos;", b"&gt;", b"%41", b"%25", b"\\n", b"\\t", b"\"\"", b"''",
];

fn hexs(b: &[u8]) -> String {
    b.iter().map(|x| format!("{x:02x}")).collect()
}

fn nth_string(mut k: u64) -> Vec<u8> {
    // bijective numbering of strings over ALPHA: length 0, 1, 2, 3
    let n = ALPHA.len() as u64;
    let mut len = 0;
    let mut block = 1;
    while k >= block {
        k -= block;
        block *= n;
        len += 1;
    }
    let mut out = Vec::new();
    for _ in 0..len {
        out.extend_from_slice(ALPHA[(k % n) as usize]);
        k /= n;
    }
    out
}

fn count_strings(max_len: u32) -> u64 {
    let n = ALPHA.len() as u64;
    (0..=max_len).map(|l| n.pow(l)).sum()
}

const INV_PROG: &str = r#"[ (explode|implode), (tobytes|tostring), (@base64|@base64d), (@uri|@urid), (@html|@htmld), ascii_downcase, ascii_upcase, length, (explode|length), utf8bytelength, (tobytes|length), (tojson|fromjson), (@text), ([.]|@json|fromjson|.[0]), (explode|map(if . < 0 then 1 else 0 end)|add // 0) ]"#;

fn bytes_of(v: &MVal) -> Option<(&[u8], bool)> {
    match v {
        MVal::TStr(b) => Some((b, true)),
        MVal::BStr(b) => Some((b, false)),
        _ => None,
    }
}

fn inverse_case(s: &[u8], sample: bool) -> CaseResult {
    let input = MVal::TStr(s.to_vec());
    let case = || json!({"string_hex": hexs(s), "string": input.show(), "program": INV_PROG});
    let r = jq::eval1_m(INV_PROG, &[], &input).map_err(|e| CaseFail::new("codec-fails", e, case()))?;
    let r = match r {
        MVal::Arr(a) => a,
        _ => unreachable!(),
    };
    let names = ["explode|implode", "tobytes|tostring", "@base64|@base64d", "@uri|@urid", "@html|@htmld"];
    for (i, n) in names.iter().enumerate() {
        match bytes_of(&r[i]) {
            Some((b, true)) if b == s => {}
            _ => return Err(CaseFail::new(format!("not-inverse:{n}"), format!("{n} gives {} for {}", r[i].show(), input.show()), case())),
        }
    }
    let lower: Vec<u8> = s.iter().map(|c| if c.is_ascii_uppercase() { c + 32 } else { *c }).collect();
    let upper: Vec<u8> = s.iter().map(|c| if c.is_ascii_lowercase() { c - 32 } else { *c }).collect();
    if bytes_of(&r[5]).map(|b| b.0) != Some(&lower) || bytes_of(&r[6]).map(|b| b.0) != Some(&upper) {
        return Err(CaseFail::new("ascii-case-mapping", format!("ascii_downcase/upcase give {} / {}", r[5].show(), r[6].show()), case()));
    }
    let valid = std::str::from_utf8(s).is_ok();
    let as_usize = |v: &MVal| v.as_bigint().and_then(|i| num_traits::ToPrimitive::to_usize(i));
    let (len, elen, blen, blen2, invalid_units) = (as_usize(&r[7]), as_usize(&r[8]), as_usize(&r[9]), as_usize(&r[10]), as_usize(&r[14]));
    if blen != Some(s.len()) || blen2 != Some(s.len()) {
        return Err(CaseFail::new("byte-length", format!("utf8bytelength / tobytes|length give {} / {}", r[9].show(), r[10].show()), case()));
    }
    if valid {
        let chars = std::str::from_utf8(s).unwrap().chars().count();
        if len != Some(chars) || elen != Some(chars) || invalid_units != Some(0) {
            return Err(CaseFail::new("character-count", format!("length {} and explode|length {} for a string of {chars} characters", r[7].show(), r[8].show()), case()));
        }
    } else if invalid_units == Some(0) {
        return Err(CaseFail::new("invalid-bytes-not-reported", "explode yields no negative number for a string with invalid bytes", case()));
    }
    for (i, n) in [(11, "tojson|fromjson"), (12, "@text"), (13, "@json of array")] {
        match bytes_of(&r[i]) {
            Some((b, true)) if b == s => {}
            _ => return Err(CaseFail::new(format!("not-inverse:{n}"), format!("{n} gives {}", r[i].show()), case())),
        }
    }
    // byte-string twin: the formatters convert to text first
    let binput = MVal::BStr(s.to_vec());
    let rb = jq::eval1_m("[ tostring, (@base64|@base64d), (@uri|@urid), (@html|@htmld), (tostring|tobytes), length ]", &[], &binput).map_err(|e| CaseFail::new("codec-fails-on-bytes", e, case()))?;
    if let MVal::Arr(rb) = rb {
        for (i, x) in rb.iter().take(5).enumerate() {
            let want_text = i != 4;
            match bytes_of(x) {
                Some((b, t)) if b == s && t == want_text => {}
                _ => return Err(CaseFail::new("not-inverse-on-byte-string", format!("obligation #{i} gives {} for {}", x.show(), binput.show()), case())),
            }
        }
        if as_usize(&rb[5]) != Some(s.len()) {
            return Err(CaseFail::new("byte-string-length", format!("length of a byte string gives {}", rb[5].show()), case()));
        }
    }
    let nt = s.iter().any(|c| !c.is_ascii_alphanumeric());
    Ok(CaseOk::new(nt, fnv(s)).class(if valid { "valid-utf8" } else { "invalid-utf8" }).desc(if sample { Some(json!({"string": input.show()})) } else { None }))
}

fn gen_string(src: &mut Src, max: usize) -> Vec<u8> {
    let n = src.below(max + 1);
    let mut out = Vec::new();
    for _ in 0..n {
        if src.chance(30) {
            out.push(src.byte());
        } else if src.chance(30) {
            let c = char::from_u32(src.below(0x11000) as u32).unwrap_or('x');
            let mut b = [0; 4];
            out.extend_from_slice(c.encode_utf8(&mut b).as_bytes());
        } else {
            out.extend_from_slice(*src.pick(ALPHA));
        }
    }
    out
}

fn split_join(src: &mut Src) -> CaseResult {
    let s = gen_string(src, 10);
    let x = if !s.is_empty() && src.chance(180) {
        // a needle that occurs: a piece of s cut at unit boundaries is hard on invalid bytes - cut the text form
        let t = String::from_utf8_lossy(&s).into_owned();
        let cs: Vec<char> = t.chars().collect();
        let i = src.below(cs.len());
        let j = (i + 1 + src.below(2)).min(cs.len());
        cs[i..j].iter().collect::<String>().into_bytes()
    } else {
        gen_string(src, 2)
    };
    if x.is_empty() {
        return Ok(CaseOk::trivial().class("empty-separator"));
    }
    let (input, sep) = (MVal::TStr(s.clone()), MVal::TStr(x.clone()));
    let case = || json!({"string": input.show(), "separator": sep.show()});
    let prog = "[ (split($x)|join($x)), (. / $x | join($x)), true ]";
    let r = jq::eval1_m(prog, &[("x", &sep)], &input).map_err(|e| CaseFail::new("split-join-fails", e, case()))?;
    if let MVal::Arr(r) = &r {
        for (i, y) in r.iter().take(2).enumerate() {
            match bytes_of(y) {
                Some((b, _)) if b == s.as_slice() => {}
                _ => return Err(CaseFail::new("split-join-not-inverse", format!("obligation #{i}: split|join gives {}", y.show()), case())),
            }
        }
        if !matches!(r.get(2), Some(MVal::Bool(true))) {
            return Err(CaseFail::new("regex-split-differs-from-plain-split", "splits by the escaped separator differs from . / $x", case()));
        }
    }
    let occurs = s.windows(x.len()).any(|w| w == x.as_slice());
    Ok(CaseOk::new(occurs, fnv_str(&[&input.show(), &sep.show()])).class(if occurs { "separator-occurs" } else { "separator-absent" }).desc(if src.sample { Some(case()) } else { None }))
}

// ---------------------------------------------------------------- (b) decoders reject malformed input

fn b64(s: &[u8]) -> String {
    const T: &[u8] = b"ABCDEFGHIJKLMNOPQRSTUVWXYZabcdefghijklmnopqrstuvwxyz0123456789+/";
    let mut out = String::new();
    for c in s.chunks(3) {
        let n = (c[0] as u32) << 16 | (*c.get(1).unwrap_or(&0) as u32) << 8 | *c.get(2).unwrap_or(&0) as u32;
        out.push(T[(n >> 18) as usize & 63] as char);
        out.push(T[(n >> 12) as usize & 63] as char);
        out.push(if c.len() > 1 { T[(n >> 6) as usize & 63] as char } else { '=' });
        out.push(if c.len() > 2 { T[n as usize & 63] as char } else { '=' });
    }
    out
}

fn decoders(src: &mut Src) -> CaseResult {
    let s = gen_string(src, 7);
    let enc = b64(&s);
    // the encoder agrees with the independent one
    let got = jq::eval1_m("@base64", &[], &MVal::TStr(s.clone())).map_err(|e| CaseFail::new("base64-fails", e, json!({"string_hex": hexs(&s)})))?;
    if bytes_of(&got).map(|b| b.0) != Some(enc.as_bytes()) {
        return Err(CaseFail::new("base64-encoding", format!("@base64 gives {} instead of {enc}", got.show()), json!({"string_hex": hexs(&s)})));
    }
    // a malformed variant of a valid encoding
    let mut m = enc.clone().into_bytes();
    let kind = src.below(8);
    match kind {
        0 => {
            while m.last() == Some(&b'=') {
                m.pop();
                if src.bool() {
                    break;
                }
            }
        }
        1 => {
            let at = src.below(m.len() + 1);
            m.insert(at, *src.pick(b"! \n-_=.,\0A"));
        }
        2 => m.extend_from_slice(*src.pick(&[&b"A"[..], b"=", b"AA", b"A===", b"QQ==", b" ", b"\n"])),
        3 => {
            if !m.is_empty() {
                m.pop();
            }
        }
        4 => {
            if !m.is_empty() {
                let at = src.below(m.len());
                m[at] = *src.pick(b"-_ *%");
            }
        }
        5 => {
            // non-canonical trailing bits
            if m.len() >= 2 && m[m.len() - 1] == b'=' {
                let at = if m[m.len() - 2] == b'=' { m.len() - 3 } else { m.len() - 2 };
                m[at] = match m[at] { b'A' => b'B', b'Q' => b'R', b'g' => b'h', b'w' => b'x', c => c.wrapping_add(1) };
            }
        }
        6 => m = gen_string(src, 6),
        _ => {}
    }
    let mv = MVal::TStr(m.clone());
    let case = || json!({"original_hex": hexs(&s), "input": mv.show()});
    match laws::run_side("@base64d", &[], &mv) {
        Side::Outs(o) => match o.as_slice() {
            [OutM::Err(_)] => Ok(CaseOk::new(m != enc.as_bytes(), fnv(&m)).class("rejected").desc(if src.sample { Some(case()) } else { None })),
            [OutM::Val(v)] => {
                // accepted: then nothing may have been ignored or dropped - re-encoding the result gives the input (up to padding)
                let d = bytes_of(v).map(|b| b.0.to_vec()).unwrap_or_default();
                let re = b64(&d);
                let strip = |x: &[u8]| -> Vec<u8> { let mut x = x.to_vec(); while x.last() == Some(&b'=') { x.pop(); } x };
                if strip(re.as_bytes()) != strip(&m) {
                    return Err(CaseFail::new("base64d-accepts-malformed-input", format!("@base64d accepts {} and yields {}, whose encoding is {re}", mv.show(), v.show()), case()));
                }
                Ok(CaseOk::new(true, fnv(&m)).class("accepted-complete-decoding"))
            }
            other => Err(CaseFail::new("base64d-odd-result", jq::show_outs_m(other), case())),
        },
        _ => Ok(CaseOk::trivial()),
    }
}

// ---------------------------------------------------------------- (c) regular expressions

const RE_ATOMS: &[&str] = &["a", "b", "é", "€", "😀", ".", "[ab]", "[^a]", "\\d", "\\w", "\\s", "0", "x", "\\.", "[é€]", "(?:ab)", "\\b", "^", "$", "", "a|b", "\\S"];
const RE_QUANT: &[&str] = &["", "", "*", "+", "?", "{1,2}", "*?", "+?", "{2}"];

fn gen_re(src: &mut Src, depth: usize) -> String {
    if depth == 0 {
        let a = src.pick(RE_ATOMS).to_string();
        let q = *src.pick(RE_QUANT);
        return if a.is_empty() || matches!(a.as_str(), "^" | "$" | "\\b") || (a.contains('|') && !q.is_empty()) { a } else { format!("{a}{q}") };
    }
    let d = depth - 1;
    match src.below(8) {
        0 | 1 => format!("{}{}", gen_re(src, d), gen_re(src, d)),
        2 => format!("{}|{}", gen_re(src, d), gen_re(src, d)),
        3 => format!("({}){}", gen_re(src, d), src.pick(RE_QUANT)),
        4 => format!("(?<{}>{}){}", src.pick(&["n", "m", "x1"]), gen_re(src, d), src.pick(&["", "", "?", "*"])),
        5 => format!("(?:{}){}", gen_re(src, d), src.pick(RE_QUANT)),
        6 => format!("(?:({})|({}))*", gen_re(src, 0), gen_re(src, 0)),
        _ => gen_re(src, 0),
    }
}

const RE_PROG: &str = r#"
. as $s
| [match($re; $fl)] as $ms
| [match($re; "g" + $fl)] as $gms
| {
    compiled: true,
    positions: all($ms[], $gms[] | ., .captures[] | . as $m | $s[$m.offset : $m.offset + $m.length] == $m.string and ($m.string | length) == $m.length; .),
    reassemble: ([split($re; $fl)] | .[0]) as $parts
      | ($gms | map(.string)) as $mm
      | (($parts | length) == ($mm | length) + 1 and ([range($mm | length) as $i | $parts[$i], $mm[$i]] + [$parts[-1]] | join("")) == $s),
    test_agrees: (test($re; $fl) == ($ms | length > 0)),
    scan_agrees: ([scan($re; "g" + $fl)] | length) == ($gms | length),
    capture_agrees: ([capture($re; "g" + $fl)] == ($gms | map(.captures | map(select(.name) | {(.name): .string}) | add + {}))),
    gsub_agrees: (gsub($re; "<>"; $fl) == ([splits($re; $fl)] | join("<>"))),
    increasing: ($gms | map(.offset) | . == sort),
    matches: ($gms | length),
    nonascii_prefix: any($gms[]; .offset > 0 and ($s[: .offset] | test("[^\\x00-\\x7f]"))),
    has_captures: any($gms[]; .captures | length > 0)
  }"#;

fn regexes(src: &mut Src) -> CaseResult {
    let depth = src.below(3);
    let re = gen_re(src, depth);
    let mut fl = String::new();
    for f in ["n", "i", "x", "s", "l"] {
        if src.chance(40) {
            fl.push_str(f);
        }
    }
    // subject: valid UTF-8 with multi-byte characters, so that byte and character offsets differ
    // ... and, now and then, invalid bytes (a stray continuation byte, 0xff, a truncated sequence), which
    // `length` and slicing count as one position each
    let n = src.below(9);
    let invalid = src.chance(60);
    let mut sb: Vec<u8> = Vec::new();
    for _ in 0..n {
        if invalid && src.chance(80) {
            sb.extend_from_slice(*src.pick(&[&b"\x80"[..], b"\xbf", b"\xff", b"\xe2\x82", b"\xc3"]));
        } else {
            sb.extend_from_slice(src.pick(&["a", "b", "é", "€", "😀", "0", " ", "ab", "x", ".", "\n", "A", "B"]).as_bytes());
        }
    }
    let sv = MVal::TStr(sb.clone());
    let s = sv.show();
    let (rev, flv) = (tstr(&re), tstr(&fl));
    let case = || json!({"string": s, "regex": re, "flags": fl});
    vcore::runner::note_case(|| format!("regex {re} flags {fl} on {s}"));
    let out = match laws::run_side(RE_PROG, &[("re", &rev), ("fl", &flv)], &sv) {
        Side::Outs(o) => o,
        Side::NoCompile(e) => return Err(CaseFail::new("harness-regex-program", e, case())),
        Side::Timeout => return Ok(CaseOk::trivial().class("discarded-time-limit")),
    };
    match out.as_slice() {
        [OutM::Panic(p)] => Err(CaseFail::new(format!("panic:{}", jq::panic_sig(p)), p.clone(), case())),
        // the regex does not compile (e.g. an unsupported construct): nothing to check
        [OutM::Err(_)] => Ok(CaseOk::trivial().class("regex-rejected")),
        [OutM::Val(MVal::Obj(o))] => {
            let get = |k: &str| o.iter().find(|(kk, _)| matches!(kk, MVal::TStr(b) if b == k.as_bytes())).map(|(_, v)| v.clone()).unwrap_or(MVal::Null);
            for k in ["positions", "reassemble", "test_agrees", "scan_agrees", "capture_agrees", "gsub_agrees", "increasing"] {
                if !matches!(get(k), MVal::Bool(true)) {
                    return Err(CaseFail::new(format!("regex-{k}"), format!("obligation {k} fails"), case()));
                }
            }
            let nm = get("matches").as_bigint().map_or(0, |i| num_traits::ToPrimitive::to_usize(i).unwrap_or(0));
            let nt = nm > 0 && (matches!(get("nonascii_prefix"), MVal::Bool(true)) || matches!(get("has_captures"), MVal::Bool(true)));
            let mut ok = CaseOk::new(nt, fnv_str(&[&s, &re, &fl])).class(if nm == 0 { "no-match" } else { "matches" });
            if matches!(get("nonascii_prefix"), MVal::Bool(true)) {
                ok = ok.class("match-after-non-ascii-prefix");
            }
            if matches!(get("has_captures"), MVal::Bool(true)) {
                ok = ok.class("with-capture-groups");
            }
            if std::str::from_utf8(&sb).is_err() {
                ok = ok.class("subject-with-invalid-bytes");
            }
            Ok(ok.desc(if src.sample { Some(case()) } else { None }))
        }
        other => Err(CaseFail::new("regex-odd-result", jq::show_outs_m(other), case())),
    }
}

// ---------------------------------------------------------------- (d) independent consumers

struct Batch {
    /// (kind, description of the case, line for the consumer)
    cases: Vec<(String, Value, Value)>,
}

fn scalar(src: &mut Src) -> MVal {
    match src.below(8) {
        0 => MVal::Null,
        1 => MVal::Bool(src.bool()),
        2 => vcore::gen::gen_num(src, &vcore::gen::Cfg { nan: false, inf: false, ..Default::default() }),
        _ => {
            let mut s = gen_string(src, 4);
            s.retain(|b| *b != 0);
            // CSV/TSV rows and shell words are texts: keep valid UTF-8 here (invalid bytes are covered by the string cases)
            MVal::TStr(String::from_utf8_lossy(&s).into_owned().into_bytes())
        }
    }
}

/// the text a scalar must be recovered as by a row reader
fn scalar_text(v: &MVal) -> Vec<u8> {
    match v {
        MVal::Null => Vec::new(),
        MVal::TStr(b) | MVal::BStr(b) => b.clone(),
        other => match jq::eval1_m("tostring", &[], other) {
            Ok(MVal::TStr(b)) => b,
            _ => b"?".to_vec(),
        },
    }
}

fn run_jq_text(prog: &str, input: &MVal) -> Result<Vec<u8>, String> {
    match jq::eval1_m(prog, &[], input)? {
        MVal::TStr(b) | MVal::BStr(b) => Ok(b),
        other => Err(format!("{prog} yields the non-string {}", other.show())),
    }
}

pub fn run(mut rep: Report) -> ! {
    rep.set_rule(
        "strings: exhaustively all strings of length <= 3 (quick: <= 2 plus a seed-dependent stride through length 3) over 48 pieces (shell/CSV/HTML/URI metacharacters, the escape sequences that the codecs themselves write such as &lt; &amp; %41 %25 and doubled quotes, blanks, NUL, DEL, 2/3/4-byte characters, invalid bytes 0xff, 0x80, truncated 0xe2 0x82), as text and as byte strings; random longer strings with arbitrary bytes and code points; \
         (a) explode|implode, tobytes|tostring, @base64|@base64d, @uri|@urid, @html|@htmld, tojson|fromjson, @text, split|join are the identity, ascii case mapping touches ASCII letters only, length = explode|length = character count on valid UTF-8, byte lengths; (b) @base64 equals an independent encoder and @base64d rejects 8 kinds of malformed variants or decodes completely; \
         (c) regexes from a generator (literals incl. multi-byte, classes, quantifiers, alternation, named/unnamed/optional/repeated groups, anchors, empty-matching patterns) x flags x subjects with multi-byte characters: offsets/lengths of matches and captures count characters, split parts and matches reassemble the subject, test/scan/capture/gsub agree with match; \
         (d) consumers: dash evaluates @sh output of strings and arrays of scalars, alone and inside a format string (a canary command in the data must not run); Python csv.reader(strict) reads @csv rows, a TSV reader reads @tsv rows, json.loads reads @json, html.unescape reads @html (no raw < > & ' \"), urllib.parse reads @uri (unreserved or %XX only) and agrees with @urid on malformed escapes, base64.b64decode(validate) reads @base64; \
         non-trivial = string with a non-alphanumeric byte (a), malformed variant (b), a match after a non-ASCII prefix or with capture groups (c), every consumer case (d)",
    );
    rep.assume("consumers: /bin/sh is dash, /usr/bin/python3 with csv, json, html, urllib.parse, base64; strings with NUL are not passed to the shell (argv cannot carry NUL)");
    let quick = rep.quick();
    // (a)
    let full_len = if quick { 2 } else { 3 };
    rep.exhaustive("codec-inverses-exhaustive", count_strings(full_len), |k, s| inverse_case(&nth_string(k), s));
    if quick {
        let (lo, hi) = (count_strings(2), count_strings(3));
        rep.indexed("codec-inverses-length-3", hi, 7, false, move |k, s| if k < lo { Ok(CaseOk::trivial()) } else { inverse_case(&nth_string(k), s) });
    }
    let n = rep.n(30_000, 2_000_000);
    rep.random("codec-inverses-random", n, 64, |src| {
        let s = gen_string(src, 24);
        inverse_case(&s, src.sample)
    });
    rep.random("split-join", n, 64, split_join);
    rep.random("decoders-reject-malformed", n, 48, decoders);
    rep.random("regex-positions", n, 64, regexes);

    // (d) consumer batches, generated from the seed
    let nb = rep.n(6_000, 200_000);
    let bytes = seeded_bytes(rep.seed, "C13-consumers", nb * 24);
    let mut src = Src::new(&bytes);
    let mut strings: Vec<Vec<u8>> = (0..count_strings(2)).map(nth_string).collect();
    for _ in 0..nb {
        strings.push(gen_string(&mut src, 12));
    }
    let mut batch = Batch { cases: Vec::new() };
    let mut prep_fail: Vec<CaseFail> = Vec::new();
    for s in &strings {
        let input = MVal::TStr(s.clone());
        for (kind, prog) in [("html", "@html"), ("uri", "@uri"), ("base64", "@base64")] {
            match run_jq_text(prog, &input) {
                Ok(out) => batch.cases.push((kind.into(), json!({"formatter": prog, "string": input.show()}), json!({"kind": kind, "in": hexs(s), "out": hexs(&out)}))),
                Err(e) => prep_fail.push(CaseFail::new(format!("formatter-fails:{prog}"), e, json!({"string": input.show()}))),
            }
        }
        if std::str::from_utf8(s).is_ok() {
            match run_jq_text("@json", &input) {
                Ok(out) => batch.cases.push(("json".into(), json!({"formatter": "@json", "string": input.show()}), json!({"kind": "json", "in": hexs(s), "out": hexs(&out)}))),
                Err(e) => prep_fail.push(CaseFail::new("formatter-fails:@json", e, json!({"string": input.show()}))),
            }
        }
        // @urid on arbitrary (possibly malformed) text: must agree with urllib's decoder
        if let Ok(out) = run_jq_text("@urid", &input) {
            batch.cases.push(("urid".into(), json!({"formatter": "@urid", "string": input.show()}), json!({"kind": "uri-decode", "in": hexs(s), "out": hexs(&out)})));
        }
    }
    // rows of scalars
    let mut rows: Vec<Vec<MVal>> = vec![vec![], vec![MVal::Null], vec![tstr("")], vec![tstr(""), tstr("")], vec![tstr("a\rb")], vec![tstr("\r")], vec![tstr("a\"b,c"), tstr("\n")], vec![tstr("\\"), tstr("\\t"), tstr("\t")]];
    for _ in 0..nb / 2 {
        let k = src.below(5);
        rows.push((0..k).map(|_| scalar(&mut src)).collect());
    }
    for r in &rows {
        let input = MVal::Arr(r.clone());
        let want: Vec<String> = r.iter().map(|v| hexs(&scalar_text(v))).collect();
        for (kind, prog) in [("csv", "@csv"), ("tsv", "@tsv")] {
            match run_jq_text(prog, &input) {
                Ok(out) => batch.cases.push((kind.into(), json!({"formatter": prog, "row": input.show()}), json!({"kind": kind, "in": want, "out": hexs(&out)}))),
                Err(e) => prep_fail.push(CaseFail::new(format!("formatter-fails:{prog}"), e, json!({"row": input.show()}))),
            }
        }
    }
    // python
    let scratch = Scratch::new("c13");
    let mut lines = Vec::new();
    for (i, (_, _, l)) in batch.cases.iter().enumerate() {
        let mut l = l.clone();
        l["id"] = json!(i);
        if l["kind"] == "uri-decode" {
            l["kind"] = json!("uri-decode");
        }
        lines.push(l.to_string());
    }
    let infile = scratch.file("cases.jsonl", (lines.join("\n") + "\n").as_bytes());
    let py = Cmd::new("/usr/bin/python3").arg(format!("{}/tools/consumers.py", cli::root())).arg(&infile).run();
    let mut verdicts: std::collections::HashMap<usize, String> = std::collections::HashMap::new();
    match py {
        Ok(o) if o.status == 0 => {
            for l in o.out_str().lines() {
                if let Ok(v) = serde_json::from_str::<Value>(l) {
                    verdicts.insert(v["id"].as_u64().unwrap_or(0) as usize, v["why"].as_str().unwrap_or("").to_string());
                }
            }
        }
        Ok(o) => rep.inconclusive(&format!("python-consumer-failed:{}", o.err_str().chars().take(300).collect::<String>())),
        Err(e) => rep.inconclusive(&format!("python-consumer-not-runnable:{e}")),
    }
    if verdicts.values().any(|w| w.starts_with("HARNESS")) {
        rep.inconclusive(&format!("python-consumer-crashed:{}", verdicts.values().find(|w| w.starts_with("HARNESS")).unwrap()));
    }
    {
        let (cases, verdicts, prep_fail) = (&batch.cases, &verdicts, &prep_fail);
        rep.fixed("consumers-python", cases.len() + prep_fail.len(), |i| {
            if i >= cases.len() {
                return Err(prep_fail[i - cases.len()].clone());
            }
            let (kind, desc, _) = &cases[i];
            match verdicts.get(&i) {
                Some(why) => Err(CaseFail::new(format!("consumer-{kind}"), why.clone(), desc.clone())),
                None => Ok(CaseOk::new(true, fnv_str(&[kind, &desc.to_string()])).class(match kind.as_str() { "html" => "html", "uri" => "uri", "urid" => "urid-vs-urllib", "base64" => "base64", "json" => "json", "csv" => "csv", _ => "tsv" }).desc(if i % 997 == 0 { Some(desc.clone()) } else { None })),
            }
        });
    }

    // dash: @sh of strings, of arrays of scalars, and inside a format string
    let canary = scratch.path.join("canary");
    let canary_s = canary.to_string_lossy().into_owned();
    let mut sh_cases: Vec<(Value, Vec<Vec<u8>>, Vec<u8>)> = Vec::new(); // (description, expected words, shell text)
    let mut sh_fail: Vec<CaseFail> = Vec::new();
    let hostile: Vec<Vec<u8>> = vec![
        format!("$(touch {canary_s})").into_bytes(),
        format!("`touch {canary_s}`").into_bytes(),
        format!("'; touch {canary_s}; '").into_bytes(),
        format!("\"; touch {canary_s}; \"").into_bytes(),
        format!("'$(touch {canary_s})'").into_bytes(),
        format!("\\'; touch {canary_s} #").into_bytes(),
        b"$HOME".to_vec(),
        b"*".to_vec(),
        b"~".to_vec(),
        b"a b".to_vec(),
        b"-n".to_vec(),
        b"".to_vec(),
        b"'".to_vec(),
        b"''".to_vec(),
        b"\\".to_vec(),
        b"\n".to_vec(),
    ];
    let shell_strings: Vec<Vec<u8>> = strings.iter().filter(|s| !s.contains(&0)).cloned().chain(hostile.iter().cloned()).collect();
    for s in &shell_strings {
        let input = MVal::TStr(s.clone());
        match run_jq_text("@sh", &input) {
            Ok(out) => sh_cases.push((json!({"program": "@sh", "input": input.show()}), vec![s.clone()], out)),
            Err(e) => sh_fail.push(CaseFail::new("formatter-fails:@sh", e, json!({"input": input.show()}))),
        }
        // inside a format string: the literal parts reach the shell unchanged, the interpolation is one word
        match run_jq_text("@sh \"pre\\\\ fix \\(.) 'po st'\"", &input) {
            Ok(out) => sh_cases.push((json!({"program": "@sh \"pre\\\\ fix \\(.) 'po st'\"", "input": input.show()}), vec![b"pre fix".to_vec(), s.clone(), b"po st".to_vec()], out)),
            Err(e) => sh_fail.push(CaseFail::new("formatter-fails:@sh-format-string", e, json!({"input": input.show()}))),
        }
    }
    for r in &rows {
        if r.iter().any(|v| matches!(v, MVal::TStr(b) if b.contains(&0))) {
            continue;
        }
        let input = MVal::Arr(r.clone());
        // null, booleans and numbers appear as their printed text
        let want: Vec<Vec<u8>> = r.iter().map(|v| if matches!(v, MVal::Null) { b"null".to_vec() } else { scalar_text(v) }).collect();
        match run_jq_text("@sh", &input) {
            Ok(out) => sh_cases.push((json!({"program": "@sh", "input": input.show()}), want, out)),
            Err(e) => sh_fail.push(CaseFail::new("formatter-fails:@sh", e, json!({"input": input.show()}))),
        }
    }
    const SEP: &[u8] = b"\n--c13-8f3a1d--\n";
    let mut script: Vec<u8> = Vec::new();
    for (_, _, text) in &sh_cases {
        script.extend_from_slice(b"printf '%s\\0' ");
        script.extend_from_slice(text);
        script.extend_from_slice(b"\nprintf '\\n--c13-8f3a1d--\\n'\n");
    }
    let script_file = scratch.file("words.sh", &script);
    let sh = Cmd::new("/bin/sh").arg(&script_file).cwd(&scratch.path).env("HOME", "/nonexistent-home").run();
    let sh_out = match sh {
        Ok(o) => o,
        Err(e) => rep.inconclusive(&format!("shell-not-runnable:{e}")),
    };
    // split the shell's output into one record per case
    let mut records: Vec<Vec<u8>> = Vec::new();
    {
        let out = &sh_out.stdout;
        let mut start = 0;
        let mut i = 0;
        while i + SEP.len() <= out.len() {
            if &out[i..i + SEP.len()] == SEP {
                records.push(out[start..i].to_vec());
                i += SEP.len();
                start = i;
            } else {
                i += 1;
            }
        }
    }
    let canary_exists = canary.exists();
    {
        let (sh_cases, records, sh_fail) = (&sh_cases, &records, &sh_fail);
        let status = sh_out.status;
        let stderr = sh_out.err_str();
        rep.fixed("consumer-shell", sh_cases.len() + sh_fail.len() + 1, |i| {
            if i == sh_cases.len() + sh_fail.len() {
                return if canary_exists {
                    Err(CaseFail::new("shell-executed-data", "a command embedded in the data was executed by the shell", json!({"canary": canary_s})))
                } else if status != 0 || records.len() != sh_cases.len() {
                    Err(CaseFail::new("shell-rejects-sh-output", format!("the shell ended with status {status} after {} of {} cases: {}", records.len(), sh_cases.len(), stderr.chars().take(300).collect::<String>()), json!({"next_case": sh_cases.get(records.len()).map(|c| c.0.clone())})))
                } else {
                    Ok(CaseOk::new(true, 1).class("canary-intact"))
                };
            }
            if i >= sh_cases.len() {
                return Err(sh_fail[i - sh_cases.len()].clone());
            }
            let (desc, want, text) = &sh_cases[i];
            let rec = match records.get(i) {
                Some(r) => r,
                None => return Ok(CaseOk::trivial().class("not-reached-by-the-shell")),
            };
            let mut words: Vec<Vec<u8>> = rec.split(|b| *b == 0).map(|w| w.to_vec()).collect();
            words.pop(); // after the last NUL
            // `printf '%s\0'` without arguments prints one empty word
            let want2: Vec<Vec<u8>> = if want.is_empty() { vec![Vec::new()] } else { want.clone() };
            if &words != &want2 {
                return Err(CaseFail::new("shell-recovers-different-words", format!("the shell sees {:?} instead of {:?} for the text {}", words.iter().map(|w| String::from_utf8_lossy(w).into_owned()).collect::<Vec<_>>(), want2.iter().map(|w| String::from_utf8_lossy(w).into_owned()).collect::<Vec<_>>(), String::from_utf8_lossy(text)), desc.clone()));
            }
            Ok(CaseOk::new(true, fnv_str(&[&desc.to_string()])).class(if desc["program"] == "@sh" { "sh-alone" } else { "sh-in-format-string" }).desc(if i % 997 == 0 { Some(desc.clone()) } else { None }))
        });
    }
    drop(scratch);
    let _ = std::io::stdout().flush();
    rep.finish()
}
