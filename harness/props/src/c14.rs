//! C14 — every supported data format round-trips values on its documented domain.
//!
//! Per format: `to* | from*` through the filters on generated values of the documented domain
//! (string atoms from the format's reserved words, indicators and number-like spellings), values
//! just outside the domain must be rejected, independent readers (an RFC 8949 decoder in the
//! harness, Python's tomllib / csv / expat) must accept what jaq writes and see the same data,
//! and `--to` / `--from` on the command line must agree with the filters.

use num_bigint::BigInt;
use serde_json::{json, Value};
use vcore::cli::{self, Cmd, Scratch};
use vcore::gen::{self, Cfg};
use vcore::jq::{self, OutM};
use vcore::laws::{self, Side};
use vcore::mval::{int, tstr, MVal};
use vcore::runner::{fnv, fnv_str, seeded_bytes, CaseFail, CaseOk, CaseResult, Report};
use vcore::Src;

const YAML_STRS: &[&str] = &[
    "null", "Null", "NULL", "~", "true", "True", "TRUE", "false", "False", "yes", "no", "on", "off", "Yes", "ON", ".inf", "-.inf", "+.inf", ".Inf", ".nan", ".NaN", "0", "+1", "-1", "1.", ".5", "+.5", "-.5", "1e3", "1E3", "1e+3", "1_000", "0x1F", "0o17", "0b1", "-0x1", "1:30",
    "---", "...", "-", "- a", "-a", "?", "? a", ":", "a: b", "a:b", ": a", "a #b", "a# b", "#x", "[", "]", "{", "}", ",", "a,b", "[a]", "{a: 1}", "&a", "*a", "!a", "!!str a", "|", ">", "| a", "'", "\"", "'a'", "\"a\"", "%", "%YAML", "@", "`", "",
    " ", " a", "a ", "a\t", "\ta", "a\nb", "\n", "a\n", "\r", "a  b", "\u{a0}", "\u{2028}", "\u{feff}", "é", "😀", "\u{0}", "\u{7}", "\u{7f}", "\u{85}", "\\", "\\n", "a\\", "a'b", "a\"b", "0.0", "-0.0", "1e1000", "12345678901234567890", "2001-12-14", "<<", "=", "null ", "true ", "~ ",
    "0 ", " 0", "a: ", "a :", "- ", "# ", "key", "value", "a\u{1b}b", "\u{fffd}",
];

const CSV_STRS: &[&str] = &["", " ", "a", "1", "1.5", "-1", "+1", "1e3", "true", "false", "null", "nan", "NaN", "Infinity", "-Infinity", "a,b", "a\"b", "\"", "\"\"", "a\nb", "a\r\nb", "\r", "\n", " a", "a ", "\t", "a\tb", "0x10", "007", "é", "😀", ",", "#", "1 2", "\\", "\\n", "\\t", "\\0", "\\\\", "'", "a;b"];

fn pick_str(src: &mut Src, pool: &[&str]) -> MVal {
    if src.chance(200) {
        tstr(*src.pick(pool))
    } else {
        gen::gen_str(src, &Cfg { bytes: false, invalid_utf8: false, ..Cfg::default() })
    }
}

/// values with the format's reserved spellings as string atoms and keys
fn gen_with_strs(src: &mut Src, pool: &'static [&'static str], depth: usize, cfg: &Cfg) -> MVal {
    if depth == 0 || src.chance(90) {
        return match src.weighted(&[2, 2, 5, 9]) {
            0 => MVal::Null,
            1 => MVal::Bool(src.bool()),
            2 => gen::gen_num(src, cfg),
            _ => {
                if cfg.bytes && src.chance(30) {
                    MVal::BStr(gen::gen_bytes(src, cfg, false))
                } else if cfg.invalid_utf8 && src.chance(16) {
                    MVal::TStr(gen::gen_bytes(src, cfg, false))
                } else {
                    pick_str(src, pool)
                }
            }
        };
    }
    if src.bool() {
        let n = src.below(4);
        MVal::Arr((0..n).map(|_| gen_with_strs(src, pool, depth - 1, cfg)).collect())
    } else {
        let n = src.below(4);
        let mut o: Vec<(MVal, MVal)> = Vec::new();
        for _ in 0..n {
            let k = if cfg.nonstring_keys && src.chance(50) { gen_with_strs(src, pool, depth.min(2) - 1, cfg) } else { pick_str(src, pool) };
            if k.contains_nan() || o.iter().any(|(k2, _)| vcore::mval::eq_m(k2, &k)) {
                continue;
            }
            o.push((k, gen_with_strs(src, pool, depth - 1, cfg)));
        }
        MVal::Obj(o)
    }
}

fn run1(prog: &str, input: &MVal) -> Result<Vec<OutM>, String> {
    match laws::run_side(prog, &[], input) {
        Side::Outs(o) => Ok(o),
        Side::NoCompile(e) => Err(format!("does not compile: {e}")),
        Side::Timeout => Err("time limit".into()),
    }
}

/// `from(to(v))` yields exactly one value indistinguishable from `v`
fn round_trip(fmt: &'static str, prog: &str, v: &MVal, same: impl Fn(&MVal, &MVal) -> bool, sample: bool, nt: bool) -> CaseResult {
    let case = || json!({"format": fmt, "program": prog, "value": v.show()});
    let out = run1(prog, v).map_err(|e| CaseFail::new("harness", e, case()))?;
    match out.as_slice() {
        [OutM::Val(r)] if same(r, v) => Ok(CaseOk::new(nt, fnv_str(&[fmt, &v.show()])).class(fmt).desc(if sample { Some(case()) } else { None })),
        [OutM::Panic(p)] => Err(CaseFail::new(format!("panic:{}", jq::panic_sig(p)), p.clone(), case())),
        other => Err(CaseFail::new(format!("{fmt}-round-trip"), format!("the value comes back as {}", jq::show_outs_m(other).chars().take(400).collect::<String>()), case())),
    }
}

/// equality of what was written and what is read back: integers exactly, other numbers by their
/// double (a decimal literal and the float it spells are one value), everything else indistinguishable
fn num_same(a: &MVal, b: &MVal) -> bool {
    flex_same(a, b, false, false)
}

/// `int_float`: an integer-valued float and the integer are one value (CBOR writers may choose);
/// `any_key_order`: objects are compared per key (TOML writers order tables after plain values)
fn flex_same(a: &MVal, b: &MVal, int_float: bool, any_key_order: bool) -> bool {
    match (a, b) {
        (MVal::Int(x, _), MVal::Int(y, _)) => x == y,
        (x, y) if x.is_num() && y.is_num() => {
            let (p, q) = (x.as_f64().unwrap(), y.as_f64().unwrap());
            (x.is_int() == y.is_int() || (int_float && p.fract() == 0.0)) && ((p.is_nan() && q.is_nan()) || p.to_bits() == q.to_bits() || (int_float && p == q))
        }
        (MVal::Arr(x), MVal::Arr(y)) => x.len() == y.len() && x.iter().zip(y).all(|(p, q)| flex_same(p, q, int_float, any_key_order)),
        (MVal::Obj(x), MVal::Obj(y)) if any_key_order => x.len() == y.len() && x.iter().all(|(k, v)| y.iter().any(|(k2, v2)| k.same(k2) && flex_same(v, v2, int_float, any_key_order))),
        (MVal::Obj(x), MVal::Obj(y)) => x.len() == y.len() && x.iter().zip(y).all(|((k1, v1), (k2, v2))| flex_same(k1, k2, int_float, any_key_order) && flex_same(v1, v2, int_float, any_key_order)),
        _ => a.same(b),
    }
}

fn yaml(src: &mut Src) -> CaseResult {
    let cfg = Cfg { nan: true, depth: 3, ..Cfg::default() };
    let d = src.below(4);
    let v = gen_with_strs(src, YAML_STRS, d, &cfg);
    let nt = v.depth() >= 2 || matches!(&v, MVal::TStr(b) if YAML_STRS.iter().any(|s| s.as_bytes() == b.as_slice()));
    // text strings with invalid UTF-8 are written but cannot be read back (documented): not asserted
    fn has_invalid(v: &MVal) -> bool {
        match v {
            MVal::TStr(b) => std::str::from_utf8(b).is_err(),
            MVal::Arr(a) => a.iter().any(has_invalid),
            MVal::Obj(o) => o.iter().any(|(k, v)| has_invalid(k) || has_invalid(v)),
            _ => false,
        }
    }
    if has_invalid(&v) {
        return match run1("toyaml | type", &v) {
            Ok(o) if matches!(o.as_slice(), [OutM::Val(_)]) => Ok(CaseOk::trivial().class("yaml-invalid-utf8-written-only")),
            Ok(o) => Err(CaseFail::new("yaml-write-fails", jq::show_outs_m(&o), json!({"value": v.show()}))),
            Err(e) => Err(CaseFail::new("harness", e, json!({"value": v.show()}))),
        };
    }
    round_trip("yaml", "toyaml | fromyaml", &v, num_same, src.sample, nt)
}

fn yaml_strings(k: u64, sample: bool) -> CaseResult {
    // every reserved spelling as scalar, as key, as array element, nested in an object value
    let s = YAML_STRS[(k / 4) as usize];
    let v = match k % 4 {
        0 => tstr(s),
        1 => MVal::Obj(vec![(tstr(s), int(1)), (tstr("k"), tstr(s))]),
        2 => MVal::Arr(vec![tstr(s), tstr(s)]),
        _ => MVal::Obj(vec![(tstr("a"), MVal::Arr(vec![MVal::Obj(vec![(tstr(s), tstr(s))])]))]),
    };
    round_trip("yaml", "toyaml | fromyaml", &v, |a, b| a.same(b), sample, true)
}

// ---------------------------------------------------------------- CBOR: independent RFC 8949 decoder

struct Dec<'a> {
    b: &'a [u8],
    p: usize,
}

impl<'a> Dec<'a> {
    fn byte(&mut self) -> Result<u8, String> {
        let x = *self.b.get(self.p).ok_or("truncated")?;
        self.p += 1;
        Ok(x)
    }
    fn take(&mut self, n: usize) -> Result<&'a [u8], String> {
        let s = self.b.get(self.p..self.p + n).ok_or("truncated")?;
        self.p += n;
        Ok(s)
    }
    fn arg(&mut self, info: u8) -> Result<Option<u64>, String> {
        Ok(Some(match info {
            0..=23 => info as u64,
            24 => self.byte()? as u64,
            25 => u16::from_be_bytes(self.take(2)?.try_into().unwrap()) as u64,
            26 => u32::from_be_bytes(self.take(4)?.try_into().unwrap()) as u64,
            27 => u64::from_be_bytes(self.take(8)?.try_into().unwrap()),
            31 => return Ok(None),
            _ => return Err("reserved additional information".into()),
        }))
    }
    fn value(&mut self) -> Result<Option<MVal>, String> {
        let ib = self.byte()?;
        let (major, info) = (ib >> 5, ib & 31);
        if ib == 0xff {
            return Ok(None); // break
        }
        let arg = if major == 7 { None } else { self.arg(info)? };
        Ok(Some(match major {
            0 => MVal::Int(BigInt::from(arg.ok_or("indefinite integer")?), false),
            1 => MVal::Int(-BigInt::from(arg.ok_or("indefinite integer")?) - 1, false),
            2 | 3 => {
                let mut bytes = Vec::new();
                match arg {
                    Some(n) => bytes.extend_from_slice(self.take(n as usize)?),
                    None => loop {
                        match self.value()? {
                            None => break,
                            Some(MVal::BStr(c)) | Some(MVal::TStr(c)) => bytes.extend(c),
                            _ => return Err("bad chunk".into()),
                        }
                    },
                }
                if major == 2 {
                    MVal::BStr(bytes)
                } else {
                    if std::str::from_utf8(&bytes).is_err() {
                        return Err("text string is not valid UTF-8".into());
                    }
                    MVal::TStr(bytes)
                }
            }
            4 => {
                let mut a = Vec::new();
                match arg {
                    Some(n) => {
                        for _ in 0..n {
                            a.push(self.value()?.ok_or("unexpected break")?);
                        }
                    }
                    None => {
                        while let Some(x) = self.value()? {
                            a.push(x);
                        }
                    }
                }
                MVal::Arr(a)
            }
            5 => {
                let mut o = Vec::new();
                let mut n = arg;
                loop {
                    if let Some(k) = n {
                        if k == 0 {
                            break;
                        }
                        n = Some(k - 1);
                    }
                    let key = match self.value()? {
                        Some(k) => k,
                        None if arg.is_none() => break,
                        None => return Err("unexpected break".into()),
                    };
                    let val = self.value()?.ok_or("unexpected break")?;
                    o.push((key, val));
                }
                MVal::Obj(o)
            }
            6 => {
                let tag = arg.ok_or("indefinite tag")?;
                let inner = self.value()?.ok_or("unexpected break")?;
                match (tag, inner) {
                    (2, MVal::BStr(b)) => MVal::Int(BigInt::from_bytes_be(num_bigint::Sign::Plus, &b), true),
                    (3, MVal::BStr(b)) => MVal::Int(-BigInt::from_bytes_be(num_bigint::Sign::Plus, &b) - 1, true),
                    (t, _) => return Err(format!("unexpected tag {t}")),
                }
            }
            _ => match info {
                20 => MVal::Bool(false),
                21 => MVal::Bool(true),
                22 => MVal::Null,
                25 => {
                    let h = u16::from_be_bytes(self.take(2)?.try_into().unwrap());
                    MVal::Float(half_to_f64(h))
                }
                26 => MVal::Float(f32::from_be_bytes(self.take(4)?.try_into().unwrap()) as f64),
                27 => MVal::Float(f64::from_be_bytes(self.take(8)?.try_into().unwrap())),
                _ => return Err(format!("unsupported simple value {info}")),
            },
        }))
    }
}

fn half_to_f64(h: u16) -> f64 {
    let (s, e, m) = ((h >> 15) & 1, (h >> 10) & 31, (h & 1023) as f64);
    let v = if e == 0 { m * 2f64.powi(-24) } else if e == 31 { if m == 0.0 { f64::INFINITY } else { f64::NAN } } else { (1.0 + m / 1024.0) * 2f64.powi(e as i32 - 15) };
    if s == 1 { -v } else { v }
}

/// the value a CBOR reader must see: decimal literals as doubles, invalid UTF-8 replaced by U+FFFD
fn cbor_expect(v: &MVal) -> MVal {
    match v {
        MVal::Dec(_) => MVal::Float(v.as_f64().unwrap()),
        MVal::TStr(b) => MVal::TStr(String::from_utf8_lossy(b).into_owned().into_bytes()),
        MVal::Arr(a) => MVal::Arr(a.iter().map(cbor_expect).collect()),
        MVal::Obj(o) => MVal::Obj(o.iter().map(|(k, v)| (cbor_expect(k), cbor_expect(v))).collect()),
        other => other.clone(),
    }
}

fn cbor_same(a: &MVal, b: &MVal) -> bool {
    // the width of a float and integer-valued floats written as integers are the encoder's business
    flex_same(a, b, true, false)
}

fn cbor(src: &mut Src) -> CaseResult {
    let cfg = Cfg { nan: true, depth: 3, ..Cfg::default() };
    let d = src.below(4);
    let v = gen_with_strs(src, CSV_STRS, d, &cfg);
    let want = cbor_expect(&v);
    let case = || json!({"format": "cbor", "value": v.show()});
    // 1. jaq reads back what it wrote
    let rt = round_trip("cbor", "tocbor | fromcbor", &v, |r, _| cbor_same(r, &want), src.sample, true)?;
    // 2. an independent decoder sees the same value, and the document is well-formed
    let bytes = match run1("tocbor", &v).map_err(|e| CaseFail::new("harness", e, case()))?.as_slice() {
        [OutM::Val(MVal::BStr(b))] => b.clone(),
        other => return Err(CaseFail::new("tocbor-result", format!("tocbor must yield one byte string, got {}", jq::show_outs_m(other)), case())),
    };
    let mut d = Dec { b: &bytes, p: 0 };
    match d.value() {
        Ok(Some(got)) if d.p == bytes.len() && cbor_same(&got, &want) => {}
        Ok(got) => return Err(CaseFail::new("cbor-independent-decoder-differs", format!("an RFC 8949 decoder reads {} ({} of {} bytes consumed) from {}", got.map_or("break".into(), |g| g.show()), d.p, bytes.len(), hex(&bytes)), case())),
        Err(e) => return Err(CaseFail::new("cbor-not-well-formed", format!("{e}: {}", hex(&bytes)), case())),
    }
    // 3. a sequence of values is their concatenation
    let seq = MVal::Arr(vec![v.clone(), int(0), v.clone()]);
    match run1("[(map(tocbor) | add | fromcbor)]", &seq).map_err(|e| CaseFail::new("harness", e, case()))?.as_slice() {
        [OutM::Val(MVal::Arr(a))] if a.len() == 3 && cbor_same(&a[0], &want) && cbor_same(&a[2], &want) && cbor_same(&a[1], &int(0)) => {}
        other => return Err(CaseFail::new("cbor-sequence", format!("concatenated CBOR values are read as {}", jq::show_outs_m(other).chars().take(300).collect::<String>()), case())),
    }
    Ok(rt)
}

fn hex(b: &[u8]) -> String {
    b.iter().map(|x| format!("{x:02x}")).collect()
}

// ---------------------------------------------------------------- TOML

const TOML_KEYS: &[&str] = &["a", "b", "a.b", "a b", "", "é", "a\"b", "x\ny", "1", "-", "_", "a-b", "true", "inf", "[a]", "a=b", "#", "'", "\\", "\t", "A", "key", "a.b.c", " ", "😀"];

fn gen_toml(src: &mut Src, depth: usize, top: bool) -> MVal {
    if !top && (depth == 0 || src.chance(100)) {
        return match src.weighted(&[2, 5, 3, 7]) {
            0 => MVal::Bool(src.bool()),
            1 => MVal::Int(BigInt::from(*src.pick(&[0i64, 1, -1, 42, i64::MAX, i64::MIN, 1 << 53, 255])), false),
            2 => MVal::Float(*src.pick(&[0.5, -0.0, 0.0, 1.0, 1e300, 5e-324, f64::INFINITY, f64::NEG_INFINITY, f64::NAN, 3.25, -1.5])),
            _ => {
                if src.chance(120) {
                    tstr(*src.pick(&["", "a", "a\"b", "a\nb", "\t", "\\", "'", "'''", "\"\"\"", "é", "\u{7f}", "\u{0}", "\u{1f}", "a\r\nb", "#", "1", "true", " x ", "\u{2028}"]))
                } else {
                    gen::gen_str(src, &Cfg { bytes: false, invalid_utf8: false, ..Cfg::default() })
                }
            }
        };
    }
    if !top && src.chance(110) {
        let n = src.below(4);
        // arrays of tables now and then (every element a table)
        if src.chance(100) {
            return MVal::Arr((0..n).map(|_| gen_toml(src, depth.saturating_sub(1).max(1), true)).collect());
        }
        return MVal::Arr((0..n).map(|_| gen_toml(src, depth.saturating_sub(1), false)).collect());
    }
    let n = src.below(5);
    let mut o: Vec<(MVal, MVal)> = Vec::new();
    for _ in 0..n {
        let k = if src.chance(200) { tstr(*src.pick(TOML_KEYS)) } else { gen::gen_str(src, &Cfg { bytes: false, invalid_utf8: false, ..Cfg::default() }) };
        if o.iter().any(|(k2, _)| k2.same(&k)) {
            continue;
        }
        o.push((k, gen_toml(src, depth.saturating_sub(1), false)));
    }
    MVal::Obj(o)
}

fn toml_eq(a: &MVal, b: &MVal) -> bool {
    // key order of the document is the writer's business (tables after plain values)
    flex_same(a, b, false, true)
}

/// all TOML documents {a: T} for the structure trees T of depth <= 3 over scalar, table with 0-2 keys and
/// array with 0-2 elements (tables inside arrays, arrays of tables whose elements hold only tables,
/// empty tables and arrays in every position: the cases where a writer has to choose between
/// [header], [[header]] and inline forms)
fn toml_shapes(depth: usize) -> Vec<MVal> {
    let one = MVal::Int(BigInt::from(1), false);
    if depth == 0 {
        return vec![one];
    }
    let sub = toml_shapes(depth - 1);
    let mut v = vec![one, MVal::Obj(vec![]), MVal::Arr(vec![])];
    for x in &sub {
        v.push(MVal::Obj(vec![(tstr("b"), x.clone())]));
        v.push(MVal::Arr(vec![x.clone()]));
    }
    // pairs: the first component ranges over the shallower set, which keeps the enumeration at ~10^4
    let shallow = if depth >= 2 { toml_shapes(depth - 2) } else { vec![MVal::Int(BigInt::from(1), false)] };
    for x in &sub {
        for y in &shallow {
            v.push(MVal::Obj(vec![(tstr("b"), x.clone()), (tstr("d"), y.clone())]));
            v.push(MVal::Obj(vec![(tstr("b"), y.clone()), (tstr("d"), x.clone())]));
            v.push(MVal::Arr(vec![x.clone(), y.clone()]));
            v.push(MVal::Arr(vec![y.clone(), x.clone()]));
        }
    }
    v
}

fn toml(src: &mut Src) -> CaseResult {
    let d = 1 + src.below(4);
    let v = gen_toml(src, d, true);
    round_trip("toml", "totoml | fromtoml", &v, toml_eq, src.sample, v.nodes() > 3)
}

// ---------------------------------------------------------------- CSV / TSV

fn gen_row(src: &mut Src, tsv: bool) -> Vec<MVal> {
    let n = src.below(5);
    (0..n)
        .map(|_| {
            if tsv {
                // non-empty strings that do not spell a number or boolean
                for round in 0.. {
                    if round > 6 {
                        return tstr("a");
                    }
                    let s = if src.chance(150) { src.pick(&["a", " ", "a\tb", "c\\d", "e\nf", "\r", "\u{0}", "\\n", "\\t", "\\0", "\\", "\\\\", "a b", "é", "😀", "x\"y", "a,b", "'", "#", "nul", "tru", "-", "+", ".", "e", "a\\", "\\a"]).to_string() } else { String::from_utf8_lossy(&gen::gen_bytes(src, &Cfg::default(), true)).into_owned() };
                    if !s.is_empty() && jaq_json::read::parse_single(s.trim().as_bytes()).map_or(true, |v| !matches!(v, jaq_json::Val::Num(_) | jaq_json::Val::Bool(_))) && s.parse::<f64>().is_err() && !matches!(s.as_str(), "true" | "false") {
                        return tstr(&s);
                    }
                }
                unreachable!()
            } else {
                match src.weighted(&[2, 2, 4, 8]) {
                    0 => MVal::Null,
                    1 => MVal::Bool(src.bool()),
                    2 => gen::gen_num(src, &Cfg { nan: false, ..Cfg::default() }),
                    _ => pick_str(src, CSV_STRS),
                }
            }
        })
        .collect()
}

fn row_same(a: &MVal, b: &MVal) -> bool {
    // `[]` and `[null]` are written alike (documented); numbers compare by value and class
    match (a, b) {
        (MVal::Arr(x), MVal::Arr(y)) if x.is_empty() || y.is_empty() => (x.is_empty() || matches!(x.as_slice(), [MVal::Null])) && (y.is_empty() || matches!(y.as_slice(), [MVal::Null])),
        _ => num_same(a, b),
    }
}

fn csv(src: &mut Src) -> CaseResult {
    let tsv = src.chance(90);
    let (name, to, from) = if tsv { ("tsv", "totsv", "fromtsv") } else { ("csv", "tocsv", "fromcsv") };
    let nrows = 1 + src.below(3);
    let rows: Vec<MVal> = (0..nrows).map(|_| MVal::Arr(gen_row(src, tsv))).collect();
    let sample = src.sample;
    // one row
    let r0 = &rows[0];
    let empty_row = matches!(r0, MVal::Arr(a) if a.is_empty() || matches!(a.as_slice(), [MVal::Null]));
    if !empty_row {
        round_trip(name, &format!("{to} | {from}"), r0, row_same, sample, true)?;
    }
    // several rows, joined by LF and by CRLF, with and without a final line break
    let table = MVal::Arr(rows.clone());
    let case = || json!({"format": name, "rows": table.show()});
    for (sep, fin) in [("\\n", ""), ("\\r\\n", ""), ("\\n", "\\n"), ("\\r\\n", "\\r\\n")] {
        let prog = format!("[(map({to}) | join(\"{sep}\") + \"{fin}\") | {from}]");
        let out = run1(&prog, &table).map_err(|e| CaseFail::new("harness", e, case()))?;
        let ok = match out.as_slice() {
            [OutM::Val(MVal::Arr(back))] => {
                // an empty last line without line break is no row
                let mut want: Vec<&MVal> = rows.iter().collect();
                if fin.is_empty() && matches!(want.last(), Some(MVal::Arr(a)) if a.is_empty() || matches!(a.as_slice(), [MVal::Null])) {
                    want.pop();
                }
                back.len() == want.len() && back.iter().zip(want).all(|(b, w)| row_same(b, w))
            }
            _ => false,
        };
        if !ok {
            return Err(CaseFail::new(format!("{name}-table-round-trip"), format!("{prog} gives {}", jq::show_outs_m(&out).chars().take(400).collect::<String>()), case()));
        }
    }
    Ok(CaseOk::new(true, fnv_str(&[name, &table.show()])).class(name).desc(if sample { Some(case()) } else { None }))
}

// ---------------------------------------------------------------- XML

const XML_NAMES: &[&str] = &["a", "b", "x:y", "html", "_a", "a-b", "a.b", "é"];
const XML_TEXTS: &[&str] = &["t", " ", "\n  ", "a b", "&amp;", "&lt;&gt;", "&#65;", "&#x41;", "é", "]", "a'b\"c", "  x  "];
const XML_ATTRS: &[&str] = &["v", "", "a b", "it's", "he said \"hi\"", "&amp;", "&lt;", "1", "é", " ", "x=y", "a>b"];

fn gen_xml_el(src: &mut Src, depth: usize) -> String {
    let name = *src.pick(XML_NAMES);
    let mut s = format!("<{name}");
    let na = src.below(3);
    let mut used: Vec<&str> = Vec::new();
    if name.starts_with("x:") {
        // a prefixed name needs its prefix bound
        s.push_str(*src.pick(&[" xmlns:x=\"u\"", " xmlns:x='http://x'"]));
        used.push("xmlns:x");
    }
    for _ in 0..na {
        let an = *src.pick(&["id", "x", "xml:lang", "xmlns", "x:z", "data-a", "b"]);
        if an.starts_with("x:") && !name.starts_with("x:") {
            continue;
        }
        if used.contains(&an) {
            continue;
        }
        used.push(an);
        // (namespace declarations need a non-empty name, or expat's namespace processing objects)
        let v = if an.starts_with("xmlns") { *src.pick(&["u", "http://x/y", "urn:a"]) } else { *src.pick(XML_ATTRS) };
        let q = if v.contains('"') { '\'' } else if v.contains('\'') { '"' } else if src.bool() { '"' } else { '\'' };
        let ws = *src.pick(&[" ", "  ", "\n ", "\t"]);
        let eq = *src.pick(&["=", " = ", "= "]);
        s.push_str(&format!("{ws}{an}{eq}{q}{v}{q}"));
    }
    if depth == 0 || src.chance(70) {
        s.push_str(*src.pick(&["/>", " />", "></", ">t</"]));
        if s.ends_with("</") {
            s.push_str(&format!("{name}>"));
        }
        return s;
    }
    s.push('>');
    let nc = src.below(4);
    for _ in 0..nc {
        match src.below(6) {
            0 => s.push_str(*src.pick(XML_TEXTS)),
            1 => s.push_str(&format!("<!--{}-->", src.pick(&["c", " a b ", "", "- x", "<a>"]))),
            2 => s.push_str(&format!("<![CDATA[{}]]>", src.pick(&["x", "a & b", "<a>", "", "]] >", " "]))),
            3 => s.push_str(&format!("<?{}?>", src.pick(&["pi d", "pi", "p  a=\"b\"", "x-y z?"]))),
            _ => s.push_str(&gen_xml_el(src, depth - 1)),
        }
    }
    s.push_str(&format!("</{name}{}>", src.pick(&["", " ", "\n"])));
    s
}

fn gen_xml_doc(src: &mut Src) -> String {
    let mut s = String::new();
    if src.chance(100) {
        s.push_str(*src.pick(&[
            "<?xml version=\"1.0\"?>", "<?xml version='1.0' encoding='UTF-8'?>", "<?xml version=\"1.0\" encoding=\"UTF-8\" standalone=\"yes\"?>", "<?xml version=\"1.1\" standalone='no'?>", "<?xml version=\"1.0\"  encoding=\"utf-8\" ?>",
        ]));
        s.push_str(*src.pick(&["", "\n", " "]));
    }
    if src.chance(70) {
        s.push_str(*src.pick(&["<?xml-stylesheet href=\"a.css\"?>", "<!-- head -->", "<?p?>"]));
        s.push_str(*src.pick(&["", "\n"]));
    }
    if src.chance(90) {
        s.push_str(*src.pick(&[
            "<!DOCTYPE a>", "<!DOCTYPE html PUBLIC \"-//W3C//DTD XHTML 1.0 Strict//EN\" \"http://www.w3.org/TR/xhtml1/DTD/xhtml1-strict.dtd\">", "<!DOCTYPE a SYSTEM \"a.dtd\">", "<!DOCTYPE a [<!ENTITY x \"y\">]>", "<!DOCTYPE a SYSTEM 'a.dtd' [ <!ELEMENT a ANY> <!ENTITY x 'y'> ]>", "<!DOCTYPE a [\n<!-- c -->\n]>",
        ]));
        s.push_str(*src.pick(&["", "\n"]));
    }
    s.push_str(&gen_xml_el(src, 3));
    if src.chance(60) {
        s.push_str(*src.pick(&["\n", "<!-- tail -->", " "]));
    }
    s
}

fn xml(src: &mut Src) -> CaseResult {
    let doc = gen_xml_doc(src);
    let v = tstr(&doc);
    let case = || json!({"format": "xml", "document": doc});
    let out = run1("[fromxml] | [., (toxml | [fromxml]), toxml]", &v).map_err(|e| CaseFail::new("harness", e, case()))?;
    match out.as_slice() {
        [OutM::Val(MVal::Arr(r))] if r.len() == 3 => {
            if !r[0].same(&r[1]) {
                return Err(CaseFail::new("xml-round-trip", format!("fromxml gives {} but after toxml | fromxml {} (written: {})", r[0].show(), r[1].show(), r[2].show()), case()));
            }
            let nt = doc.contains('=') || doc.contains("<!--") || doc.contains("CDATA");
            Ok(CaseOk::new(nt, fnv(doc.as_bytes())).class("xml").desc(if src.sample { Some(case()) } else { None }))
        }
        // the generator builds well-formed documents only
        [OutM::Err(e)] => Err(CaseFail::new("xml-well-formed-document-rejected-or-unwritable", e.show(), case())),
        other => Err(CaseFail::new("xml-odd-result", jq::show_outs_m(other), case())),
    }
}

// ---------------------------------------------------------------- values just outside a domain must be rejected

fn outside(i: usize) -> CaseResult {
    let cases: &[(&str, &str)] = &[
        ("totoml", "0"), ("totoml", "null"), ("totoml", "[1]"), ("totoml", "\"a\""), ("totoml", "{\"a\":null}"), ("totoml", "{\"a\":[null]}"), ("totoml", "{\"a\":{\"b\":null}}"), ("totoml", "{\"a\":b\"x\"}"), ("totoml", "{1:2}"), ("totoml", "{null:2}"), ("totoml", "{\"a\":{1:2}}"), ("totoml", "{[1]:2}"),
        ("totoml", "{\"a\":[{\"b\":b\"x\"}]}"),
        ("tocsv", "[[1]]"), ("tocsv", "[{\"a\":1}]"), ("tocsv", "[b\"x\"]"), ("tocsv", "1"), ("tocsv", "{\"a\":1}"), ("tocsv", "\"a\""), ("tocsv", "null"),
        ("totsv", "[[1]]"), ("totsv", "[{\"a\":1}]"), ("totsv", "[b\"x\"]"), ("totsv", "1"), ("totsv", "{}"),
        ("toxml", "{}"), ("toxml", "{\"t\":\"a\",\"x\":1}"), ("toxml", "{\"t\":\"a\",\"a\":{\"k\":1}}"), ("toxml", "{\"t\":\"a\",\"a\":{\"k\":null}}"), ("toxml", "{\"a\":{}}"), ("toxml", "{\"c\":[]}"), ("toxml", "{\"t\":1}"), ("toxml", "{\"comment\":1}"), ("toxml", "{\"cdata\":[]}"), ("toxml", "{\"t\":\"a\",\"a\":[]}"),
        ("toxml", "{\"t\":\"a\",\"a\":{1:\"v\"}}"), ("toxml", "{\"xmldecl\":{\"version\":1}}"), ("toxml", "{\"pi\":{}}"), ("toxml", "{\"doctype\":{}}"), ("toxml", "{\"t\":\"a\",\"c\":[{}]}"), ("toxml", "{\"comment\":\"a\",\"cdata\":\"b\"}"),
        ("fromcbor", "\"a\""), ("fromcbor", "1"), ("fromyaml", "1"), ("fromtoml", "1"), ("fromxml", "1"), ("fromcsv", "1"), ("fromtsv", "[]"),
    ];
    if i >= cases.len() {
        return Ok(CaseOk::trivial());
    }
    let (prog, input) = cases[i];
    let v = MVal::from_val(&jaq_json::read::parse_single(input.as_bytes()).unwrap());
    let case = || json!({"program": prog, "input": input});
    match run1(prog, &v).map_err(|e| CaseFail::new("harness", e, case()))?.as_slice() {
        [OutM::Err(_)] => Ok(CaseOk::new(true, i as u64).class("rejected").desc(Some(case()))),
        other => Err(CaseFail::new("value-outside-domain-accepted", format!("{prog} must fail on {input}, but yields {}", jq::show_outs_m(other)), case())),
    }
}
pub const N_OUTSIDE: usize = 48;

// ---------------------------------------------------------------- command line: --to / --from agree with the filters

fn xjon_lines(vals: &[MVal]) -> Vec<u8> {
    let mut b = Vec::new();
    for v in vals {
        b.extend(v.xjon());
        b.push(b'\n');
    }
    b
}

/// values through `jaq --to F` and back through `jaq --from F -c .`; each batch is one pair of processes
fn cli_round_trip(rep: &mut Report, fmt: &'static str, batches: Vec<Vec<MVal>>, same: fn(&MVal, &MVal) -> bool, extra_to: &[&str]) {
    let mut fails: Vec<CaseFail> = Vec::new();
    let mut n_ok = 0usize;
    let mut n_vals = 0usize;
    for vals in &batches {
        n_vals += vals.len();
        let input = xjon_lines(vals);
        let case = |w: &str| json!({"format": fmt, "command": format!("jaq --to {fmt} {} . | jaq --from {fmt} -c .", extra_to.join(" ")), "what": w});
        let to = Cmd::jaq().args(["--to", fmt]).args(extra_to.iter().copied()).arg(".").stdin(input).run();
        match to {
            Ok(o) if o.status == 0 => {
                let from = Cmd::jaq().args(["--from", fmt, "-c", "."]).stdin(o.stdout.clone()).run();
                match from {
                    Ok(f) if f.status == 0 => {
                        let back: Vec<MVal> = jaq_json::read::parse_many(&f.stdout).filter_map(|r| r.ok()).map(|v| MVal::from_val(&v)).collect();
                        if back.len() != vals.len() {
                            fails.push(CaseFail::new(format!("cli-{fmt}-count"), format!("{} values written, {} read back", vals.len(), back.len()), case(&vals.iter().map(|v| v.show()).collect::<Vec<_>>().join(" ").chars().take(300).collect::<String>())));
                        } else {
                            for (v, b) in vals.iter().zip(&back) {
                                if same(b, v) {
                                    n_ok += 1;
                                } else {
                                    fails.push(CaseFail::new(format!("cli-{fmt}-round-trip"), format!("{} comes back as {}", v.show(), b.show()), case(&v.show())));
                                    break;
                                }
                            }
                        }
                    }
                    Ok(f) => fails.push(CaseFail::new(format!("cli-{fmt}-read-fails"), format!("exit {}: {}", f.status, f.err_str().chars().take(300).collect::<String>()), case(&String::from_utf8_lossy(&o.stdout).chars().take(300).collect::<String>()))),
                    Err(e) => rep.inconclusive(&format!("jaq-binary-not-runnable:{e}")),
                }
            }
            Ok(o) => fails.push(CaseFail::new(format!("cli-{fmt}-write-fails"), format!("exit {}: {}", o.status, o.err_str().chars().take(300).collect::<String>()), case(&vals.iter().map(|v| v.show()).collect::<Vec<_>>().join(" ").chars().take(300).collect::<String>()))),
            Err(e) => rep.inconclusive(&format!("jaq-binary-not-runnable:{e}")),
        }
    }
    let name = format!("cli-{fmt}{}", extra_to.join(""));
    let total = n_ok + fails.len();
    rep.fixed(&name, total.max(1), |i| {
        if i < fails.len() {
            Err(fails[i].clone())
        } else if total == 0 {
            Ok(CaseOk::trivial())
        } else {
            Ok(CaseOk::new(true, i as u64 * 31 + fnv(name.as_bytes())).class("cli-round-trip").desc(if i == fails.len() { Some(json!({"format": fmt, "options": extra_to, "values": n_vals, "processes": batches.len() * 2})) } else { None }))
        }
    });
}

pub fn run(mut rep: Report) -> ! {
    rep.set_rule(
        "per format, generated values of the documented domain whose string atoms and keys are drawn from the format's reserved spellings: YAML - all values (140 reserved spellings: null/bool/number look-alikes incl. +1 .5 -.inf 0x1F 1_000, document markers, indicators, leading/trailing blanks, line breaks, control and special characters; byte strings, non-string keys, special floats, decimal literals, big integers), each spelling also exhaustively as scalar, key, element and nested; CBOR - all values, checked by jaq's reader, by an independent RFC 8949 decoder in the harness and as concatenated sequence (invalid UTF-8 -> U+FFFD, decimal literals -> doubles); TOML - objects with string keys (bare, dotted, quoted, empty, multi-line, unicode), nested tables, arrays of tables, mixed arrays, special floats, control characters; CSV - rows of scalars incl. strings spelling numbers/booleans/empty, quotes, commas, CR/LF, 1-3 rows joined by LF/CRLF with/without final line break; TSV - rows of non-empty non-number strings incl. TAB/LF/CR/NUL/backslash; XML - well-formed documents from a generator (declaration incl. standalone, DOCTYPE with internal/external subsets, PIs, comments, CDATA, nested and prefixed elements, attributes in either quote style containing the other quote, entity references, blank text): fromxml|toxml|fromxml = fromxml; \
         48 values just outside a domain must be rejected; Python's tomllib, csv and expat must read what jaq writes (same data); --to/--from on the command line round-trip the same values; \
         non-trivial = value contains a reserved spelling or nesting >= 2 (YAML), every CBOR/CSV/TSV case, TOML with > 3 nodes, XML with an attribute, comment or CDATA",
    );
    rep.assume("YAML has no independent reader offline: decided by round trip through jaq's own reader and the exhaustive reserved-spelling table; text strings with invalid UTF-8 are written to YAML but, as documented, not read back");
    rep.assume("TOML key order is the writer's business (compared per key); CBOR float width / integer-valued floats written as integers are accepted when numerically identical");
    let n = rep.n(30_000, 2_000_000);
    rep.exhaustive("yaml-reserved-spellings", YAML_STRS.len() as u64 * 4, yaml_strings);
    rep.random("yaml", n, 160, yaml);
    rep.random("cbor", n, 160, cbor);
    rep.random("toml", n, 160, toml);
    {
        let shapes = toml_shapes(if rep.quick() { 3 } else { 4 });
        rep.extra("toml_structure_trees", json!(shapes.len()));
        let shapes = &shapes;
        rep.indexed("toml-structures-small-scope", shapes.len() as u64, 1, true, move |i, s| {
            let v = MVal::Obj(vec![(tstr("a"), shapes[i as usize].clone())]);
            round_trip("toml", "totoml | fromtoml", &v, toml_eq, s, true)
        });
    }
    rep.random("csv-tsv", n, 96, csv);
    rep.random("xml", n, 160, xml);
    rep.fixed("outside-domain-rejected", N_OUTSIDE, outside);

    // independent readers and the command line, on values generated from the seed
    let nb = rep.n(1_500, 60_000);
    let bytes = seeded_bytes(rep.seed, "C14-batches", nb * 200);
    let mut src = Src::new(&bytes);
    let scratch = Scratch::new("c14");
    let mut lines: Vec<Value> = Vec::new();
    let mut descs: Vec<Value> = Vec::new();
    let finite = |v: &MVal| -> bool {
        fn f(v: &MVal) -> bool {
            match v {
                MVal::Float(x) => x.is_finite(),
                MVal::Arr(a) => a.iter().all(f),
                MVal::Obj(o) => o.iter().all(|(_, v)| f(v)),
                _ => true,
            }
        }
        f(v)
    };
    let to_json = |v: &MVal| -> Value { serde_json::from_slice(&v.xjon()).unwrap_or(Value::Null) };
    for _ in 0..nb {
        let v = gen_toml(&mut src, 3, true);
        if let Ok(o) = run1("totoml", &v) {
            if let [OutM::Val(MVal::TStr(b))] = o.as_slice() {
                if finite(&v) {
                    lines.push(json!({"kind": "toml", "in": to_json(&v).to_string(), "out": hex(b)}));
                    descs.push(json!({"reader": "tomllib", "value": v.show()}));
                }
            }
        }
        let rows: Vec<Vec<MVal>> = (0..1 + src.below(3)).map(|_| gen_row(&mut src, false)).filter(|r| !r.is_empty()).collect();
        if !rows.is_empty() {
            let table = MVal::Arr(rows.iter().map(|r| MVal::Arr(r.clone())).collect());
            if let Ok(o) = run1("map(tocsv) | join(\"\\n\")", &table) {
                if let [OutM::Val(MVal::TStr(b))] = o.as_slice() {
                    let want: Vec<Vec<String>> = rows.iter().map(|r| r.iter().map(|x| hex(&match x { MVal::Null => Vec::new(), MVal::TStr(b) => b.clone(), other => match jq::eval1_m("tostring", &[], other) { Ok(MVal::TStr(t)) => t, _ => Vec::new() } })).collect()).collect();
                    // a row that consists of one empty field is an empty line, which csv.reader reports as []
                    if !rows.iter().any(|r| r.len() == 1 && matches!(&r[0], MVal::Null)) {
                        lines.push(json!({"kind": "csvdoc", "in": want, "out": hex(b)}));
                        descs.push(json!({"reader": "csv.reader", "rows": table.show()}));
                    }
                }
            }
        }
        let doc = gen_xml_doc(&mut src);
        if let Ok(o) = run1("[fromxml] | toxml", &tstr(&doc)) {
            if let [OutM::Val(MVal::TStr(b))] = o.as_slice() {
                lines.push(json!({"kind": "xml", "in": "", "out": hex(b)}));
                descs.push(json!({"reader": "expat", "document": doc}));
            }
        }
    }
    let text: String = lines.iter().enumerate().map(|(i, l)| { let mut l = l.clone(); l["id"] = json!(i); l.to_string() + "\n" }).collect();
    let infile = scratch.file("cases.jsonl", text.as_bytes());
    let mut verdicts: std::collections::HashMap<usize, String> = std::collections::HashMap::new();
    match Cmd::new("/usr/bin/python3").arg(format!("{}/tools/consumers.py", cli::root())).arg(&infile).run() {
        Ok(o) if o.status == 0 => {
            for l in o.out_str().lines() {
                if let Ok(v) = serde_json::from_str::<Value>(l) {
                    verdicts.insert(v["id"].as_u64().unwrap_or(0) as usize, v["why"].as_str().unwrap_or("").to_string());
                }
            }
        }
        Ok(o) => rep.inconclusive(&format!("python-consumer-failed:{}", o.err_str().chars().take(300).collect::<String>())),
        Err(e) => rep.inconclusive(&format!("python-consumer-not-runnable:{e}")),
    }
    if let Some(w) = verdicts.values().find(|w| w.starts_with("HARNESS")) {
        rep.inconclusive(&format!("python-consumer-crashed:{w}"));
    }
    {
        let (lines, descs, verdicts) = (&lines, &descs, &verdicts);
        rep.fixed("independent-readers", lines.len(), |i| match verdicts.get(&i) {
            Some(why) => Err(CaseFail::new(format!("independent-reader-{}", lines[i]["kind"].as_str().unwrap_or("")), why.clone(), descs[i].clone())),
            None => Ok(CaseOk::new(true, fnv(lines[i].to_string().as_bytes())).class(match lines[i]["kind"].as_str() { Some("toml") => "tomllib", Some("csvdoc") => "csv.reader", _ => "expat" }).desc(if i % 499 == 0 { Some(descs[i].clone()) } else { None })),
        });
    }
    // command line
    let nv = rep.n(400, 20_000);
    let cfg = Cfg { nan: true, depth: 3, ..Cfg::default() };
    fn no_invalid(v: &MVal) -> bool {
        match v {
            MVal::TStr(b) => std::str::from_utf8(b).is_ok(),
            MVal::Arr(a) => a.iter().all(no_invalid),
            MVal::Obj(o) => o.iter().all(|(k, v)| no_invalid(k) && no_invalid(v)),
            _ => true,
        }
    }
    let mut yaml_vals: Vec<MVal> = YAML_STRS.iter().map(|s| MVal::Obj(vec![(tstr(s), MVal::Arr(vec![tstr(s), MVal::Obj(vec![(tstr("k"), tstr(s))])]))])).collect();
    for _ in 0..nv {
        let v = gen_with_strs(&mut src, YAML_STRS, 3, &cfg);
        if no_invalid(&v) {
            yaml_vals.push(v);
        }
    }
    fn same_fn(a: &MVal, b: &MVal) -> bool {
        num_same(a, b)
    }
    cli_round_trip(&mut rep, "yaml", vec![yaml_vals.clone()], same_fn, &[]);
    cli_round_trip(&mut rep, "yaml", vec![yaml_vals.clone()], same_fn, &["-c"]);
    cli_round_trip(&mut rep, "yaml", vec![yaml_vals], same_fn, &["--indent", "1"]);
    let cbor_vals: Vec<MVal> = (0..nv).map(|_| gen_with_strs(&mut src, CSV_STRS, 3, &cfg)).collect();
    fn cbor_fn(b: &MVal, v: &MVal) -> bool {
        cbor_same(b, &cbor_expect(v))
    }
    cli_round_trip(&mut rep, "cbor", vec![cbor_vals], cbor_fn, &[]);
    let csv_rows: Vec<MVal> = (0..nv).map(|_| MVal::Arr(gen_row(&mut src, false))).filter(|r| !matches!(r, MVal::Arr(a) if a.is_empty() || matches!(a.as_slice(), [MVal::Null]))).collect();
    cli_round_trip(&mut rep, "csv", vec![csv_rows], row_same, &[]);
    let tsv_rows: Vec<MVal> = (0..nv).map(|_| MVal::Arr(gen_row(&mut src, true))).filter(|r| !matches!(r, MVal::Arr(a) if a.is_empty())).collect();
    cli_round_trip(&mut rep, "tsv", vec![tsv_rows], row_same, &[]);
    // one document per process: TOML
    let ntoml = rep.n(24, 400);
    let toml_docs: Vec<Vec<MVal>> = (0..ntoml).map(|_| vec![gen_toml(&mut src, 3, true)]).collect();
    cli_round_trip(&mut rep, "toml", toml_docs, toml_eq, &[]);
    drop(scratch);
    rep.finish()
}
