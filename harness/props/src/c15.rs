//! C15 — parsing depends only on tokens and the documented grammar, precedence and sugar.
//!
//! Metamorphic testing of the parser through `jaq_core::load::parse(text, |p| p.term())`:
//! (1) exhaustive operator tables: every ordered pair and triple of the 25 binary operators
//!     (incl. `as $x |`), expected grouping computed by an independent splitting algorithm over
//!     the manual's precedence/associativity table; the minimal text must parse like the fully
//!     parenthesised expected grouping and unlike another grouping;
//! (2) random syntax trees rendered by an independent printer with minimal, full and random
//!     redundant parentheses and random trivia (blanks, tabs, CR/LF, comments with the backslash
//!     continuation rule) - all renderings must parse to the same tree;
//! (3) every documented shorthand against its expansion (output equality on a pool of inputs);
//! (4) texts outside the grammar must be rejected when loading/compiling.

use serde_json::json;
use vcore::jq;
use vcore::laws::{self, Cmp, Verdict};
use vcore::mval::MVal;
use vcore::runner::{fnv_str, CaseFail, CaseOk, CaseResult, Report};
use vcore::Src;

fn parse_dbg(text: &str) -> Option<String> {
    jaq_core::load::parse(text, |p| p.term()).map(|t| format!("{t:?}"))
}

// ---------------------------------------------------------------- (1) operator tables

/// (spelling, precedence level, right-associative) from the manual; level 2 is `as $x |`
const OPS: &[(&str, u8, bool)] = &[
    ("|", 0, true),
    (",", 1, false),
    ("as $x |", 2, true),
    ("=", 3, true),
    ("|=", 3, true),
    ("+=", 3, true),
    ("-=", 3, true),
    ("*=", 3, true),
    ("/=", 3, true),
    ("%=", 3, true),
    ("//=", 3, true),
    ("//", 4, false),
    ("or", 5, false),
    ("and", 6, false),
    ("==", 7, false),
    ("!=", 7, false),
    ("<", 8, false),
    ("<=", 8, false),
    (">", 8, false),
    (">=", 8, false),
    ("+", 9, false),
    ("-", 9, false),
    ("*", 10, false),
    ("/", 10, false),
    ("%", 11, false),
];

/// Expected grouping of `a0 op1 a1 ... opn an`, fully parenthesised.  Independent of jaq's
/// precedence climbing: the body of the leftmost `as` is everything to its right; then the chain is
/// split at its loosest operator (the rightmost such for left-associative levels, the leftmost for
/// right-associative ones).
fn group(operands: &[String], ops: &[usize]) -> String {
    if ops.is_empty() {
        return operands[0].clone();
    }
    if let Some(i) = ops.iter().position(|o| OPS[*o].1 == 2) {
        if i + 1 < ops.len() {
            // everything right of the binding is its body
            let body = group(&operands[i + 1..], &ops[i + 1..]);
            let mut o2: Vec<String> = operands[..=i].to_vec();
            o2.push(body);
            return group(&o2, &ops[..=i]);
        }
    }
    let lowest = ops.iter().map(|o| OPS[*o].1).min().unwrap();
    let right = OPS[*ops.iter().find(|o| OPS[**o].1 == lowest).unwrap()].2;
    let at = if right { ops.iter().position(|o| OPS[*o].1 == lowest).unwrap() } else { ops.iter().rposition(|o| OPS[*o].1 == lowest).unwrap() };
    format!("({} {} {})", group(&operands[..=at], &ops[..at]), OPS[ops[at]].0, group(&operands[at + 1..], &ops[at + 1..]))
}

/// another grouping of the same chain: split at a different operator
fn other_group(operands: &[String], ops: &[usize], expected: &str) -> Option<String> {
    for at in 0..ops.len() {
        let l = group(&operands[..=at], &ops[..at]);
        let r = group(&operands[at + 1..], &ops[at + 1..]);
        let s = format!("({} {} {})", l, OPS[ops[at]].0, r);
        if s != expected {
            return Some(s);
        }
    }
    None
}

fn op_table_case(k: u64, n_ops: usize, sample: bool) -> CaseResult {
    let n = OPS.len() as u64;
    let mut ops = Vec::new();
    let mut kk = k;
    for _ in 0..n_ops {
        ops.push((kk % n) as usize);
        kk /= n;
    }
    ops.reverse();
    let operands: Vec<String> = [".a", ".b", ".c", ".d"][..n_ops + 1].iter().map(|s| s.to_string()).collect();
    let mut minimal = operands[0].clone();
    for (i, o) in ops.iter().enumerate() {
        minimal = format!("{minimal} {} {}", OPS[*o].0, operands[i + 1]);
    }
    let expected = group(&operands, &ops);
    let case = || json!({"text": minimal, "expected_grouping": expected});
    let pm = parse_dbg(&minimal).ok_or_else(|| CaseFail::new("operator-chain-rejected", "a chain of binary operators over path operands must parse", case()))?;
    let pe = parse_dbg(&expected).ok_or_else(|| CaseFail::new("harness-expected-grouping-rejected", "fully parenthesised text must parse", case()))?;
    if pm != pe {
        return Err(CaseFail::new("precedence-or-associativity", format!("`{minimal}` does not group as `{expected}`: parsed {pm}"), case()));
    }
    let mut nt = false;
    if let Some(o) = other_group(&operands, &ops, &expected) {
        let po = parse_dbg(&o).ok_or_else(|| CaseFail::new("harness-other-grouping-rejected", o.clone(), case()))?;
        if po == pe {
            return Err(CaseFail::new("parentheses-ignored", format!("`{o}` and `{expected}` parse to the same tree"), case()));
        }
        nt = true;
    }
    let levels: std::collections::BTreeSet<u8> = ops.iter().map(|o| OPS[*o].1).collect();
    Ok(CaseOk::new(nt, k * 4 + n_ops as u64)
        .class(if levels.len() >= 2 { "mixed-precedence-levels" } else { "one-precedence-level" })
        .class(if ops.iter().any(|o| OPS[*o].1 == 2) { "with-binding" } else { "without-binding" })
        .desc(if sample { Some(case()) } else { None }))
}

// ---------------------------------------------------------------- (1b) operator chains inside the constructs that take a term

/// (context with a hole X, whether the hole admits a top-level comma)
const CONTEXTS: &[(&str, bool)] = &[
    ("{a: X, b: .z}", false),
    ("{b: .z, a: X}", false),
    ("{a: X, \"b\"}", false),
    ("{a: X, $g, c: 1}", false),
    ("{a: X, \"k\": 2, $__loc__}", false),
    ("{(X): 1, b: .z}", true),
    ("[X]", true),
    ("f(X; .z)", true),
    ("f(.z; X)", true),
    ("if X then .y else .z end", true),
    ("if .y then X else .z end", true),
    ("if .y then .z else X end", true),
    ("if .y then .z elif X then 1 else 2 end", true),
    (".[X]", true),
    (".[X:.z]", true),
    (".[.z:X]", true),
    ("reduce .y as $v (X; .z)", true),
    ("reduce .y as $v (.z; X)", true),
    ("foreach .y as $v (X; .z; .w)", true),
    ("foreach .y as $v (.w; .z; X)", true),
    ("\"s\\(X)t\"", true),
    ("def f: X; .z", true),
    ("def f(g): g; f(X)", true),
    ("label $l | X", true),
    (".z as [$p, {a: $q}] | X", true),
    ("try (X) catch (X)", true),
    (".y | {a: X} | .a", false),
];

/// A chain of two operators placed unparenthesised into every construct that takes a term must parse
/// to what the same construct gives for the parenthesised, explicitly grouped chain.
fn embedding_case(k: u64, sample: bool) -> CaseResult {
    let n = OPS.len() as u64;
    let (ci, chain) = ((k / (n * n)) as usize, k % (n * n));
    let ops = vec![(chain / n) as usize, (chain % n) as usize];
    let (ctx, comma_ok) = CONTEXTS[ci];
    if !comma_ok && ops.iter().any(|o| OPS[*o].0 == ",") {
        return Ok(CaseOk::trivial().class("comma-not-admitted-here"));
    }
    let operands: Vec<String> = [".a", ".b", ".c"].iter().map(|s| s.to_string()).collect();
    let minimal = format!("{} {} {} {} {}", operands[0], OPS[ops[0]].0, operands[1], OPS[ops[1]].0, operands[2]);
    let grouped = group(&operands, &ops);
    let (t1, t2) = (ctx.replace('X', &minimal), ctx.replace('X', &format!("({grouped})")));
    let case = || json!({"text": t1, "explicitly_grouped": t2});
    let p2 = parse_dbg(&t2).ok_or_else(|| CaseFail::new("harness-grouped-text-rejected", "the parenthesised text must parse", case()))?;
    let p1 = parse_dbg(&t1).ok_or_else(|| CaseFail::new("term-rejected-inside-construct", format!("`{t1}` does not parse although `{t2}` does"), case()))?;
    if p1 != p2 {
        return Err(CaseFail::new("term-inside-construct-parsed-differently", format!("`{t1}` does not parse like `{t2}`: {p1}"), case()));
    }
    Ok(CaseOk::new(true, k).class(if ops.iter().any(|o| OPS[*o].1 == 2) { "with-binding" } else { "without-binding" }).class(if ctx.starts_with('{') || ctx.contains("{a:") { "object-value-or-key" } else { "other-construct" }).desc(if sample { Some(case()) } else { None }))
}

// ---------------------------------------------------------------- (2) random trees, independent printer

#[derive(Clone, Debug)]
enum E {
    Atom(String),
    Bin(Box<E>, usize, Box<E>),
    /// `l as PATTERN | body`
    As(Box<E>, String, Box<E>),
    Neg(Box<E>),
    /// postfix `?`
    Opt(Box<E>),
    Try(Box<E>, Option<Box<E>>),
    If(Vec<(E, E)>, Option<Box<E>>),
    Fold(&'static str, Box<E>, String, Vec<E>),
    Label(String, Box<E>),
    Def(String, Vec<String>, Box<E>, Box<E>),
    Call(String, Vec<E>),
    Arr(Option<Box<E>>),
    Obj(Vec<(ObjKey, Option<E>)>),
    /// `f` followed by path parts
    Path(Box<E>, Vec<Part>),
    /// string with interpolation: (format, literal parts and interpolated terms)
    Str(Option<&'static str>, Vec<Result<String, E>>),
}

#[derive(Clone, Debug)]
enum ObjKey {
    Ident(String),
    Var(String),
    Quoted(String),
    Computed(E),
}

#[derive(Clone, Debug)]
enum Part {
    Key(String),
    QuotedKey(String),
    Index(E),
    Slice(Option<E>, Option<E>),
    Iter,
}

#[derive(Clone, Debug)]
struct PartQ(Part, bool);

const ATOMS: &[&str] = &[".", "..", ".a", ".b", "$g", "0", "1", "2", "1.5", "null", "true", "\"s\"", "\"\"", "[]", "{}", "empty", "error", ".[0]", ".a.b", ".[]", "\"a\\nb\"", "\"x # y\"", "1e2", "$__loc__", "@json", ".\"k\"", ".a[1:]", ".[\"a\"]"];
const PATS: &[&str] = &["$x", "$y", "[$x, $y]", "{a: $x}", "{$x, b: [$y]}", "{\"a\": $x}", "{(\"a\", \"b\"): $x}", "[[$x]]", "{$__k}"];
const NAMES: &[&str] = &["f", "g", "map", "select", "limit", "first", "recurse", "length", "not", "tostring", "m::f", "h"];

fn gen_e(src: &mut Src, depth: usize) -> E {
    if depth == 0 || src.exhausted() {
        return E::Atom(src.pick(ATOMS).to_string());
    }
    let d = depth - 1;
    match src.weighted(&[6, 14, 3, 2, 3, 3, 3, 2, 2, 2, 3, 2, 3, 4, 3]) {
        0 => E::Atom(src.pick(ATOMS).to_string()),
        1 => {
            // every operator except the binding (level 2) has the same chance
            let mut o = src.below(OPS.len() - 1);
            if o >= 2 {
                o += 1;
            }
            E::Bin(Box::new(gen_e(src, d)), o, Box::new(gen_e(src, d)))
        }
        2 => E::As(Box::new(gen_e(src, d)), src.pick(PATS).to_string(), Box::new(gen_e(src, d))),
        3 => E::Neg(Box::new(gen_e(src, d))),
        4 => E::Opt(Box::new(gen_e(src, d))),
        5 => {
            let c = if src.bool() { Some(Box::new(gen_e(src, d))) } else { None };
            E::Try(Box::new(gen_e(src, d)), c)
        }
        6 => {
            let n = 1 + src.below(3);
            let its = (0..n).map(|_| (gen_e(src, d), gen_e(src, d))).collect();
            let e = if src.bool() { Some(Box::new(gen_e(src, d))) } else { None };
            E::If(its, e)
        }
        7 => {
            let kind = if src.bool() { "reduce" } else { "foreach" };
            let n = if kind == "foreach" && src.bool() { 3 } else { 2 };
            E::Fold(kind, Box::new(gen_e(src, d)), src.pick(PATS).to_string(), (0..n).map(|_| gen_e(src, d)).collect())
        }
        8 => E::Label(src.pick(&["$l", "$x"]).to_string(), Box::new(gen_e(src, d))),
        9 => {
            let np = src.below(3);
            let params = (0..np).map(|_| src.pick(&["a", "$x", "f", "$y"]).to_string()).collect();
            E::Def(src.pick(&["f", "g", "h"]).to_string(), params, Box::new(gen_e(src, d)), Box::new(gen_e(src, d)))
        }
        10 => {
            let n = src.below(3);
            E::Call(src.pick(NAMES).to_string(), (0..n).map(|_| gen_e(src, d)).collect())
        }
        11 => E::Arr(if src.chance(220) { Some(Box::new(gen_e(src, d))) } else { None }),
        12 => {
            let n = src.below(4);
            let mut es = Vec::new();
            for _ in 0..n {
                let k = match src.below(5) {
                    0 => ObjKey::Ident(src.pick(&["a", "b", "if", "then", "and", "or", "def", "reduce", "try", "__loc__", "x1"]).to_string()),
                    1 => ObjKey::Var(src.pick(&["$x", "$g", "$__loc__"]).to_string()),
                    2 => ObjKey::Quoted(src.pick(&["\"a\"", "\"a b\"", "\"a\\(1)\"", "@base64 \"k\"", "\"\""]).to_string()),
                    _ => ObjKey::Computed(gen_e(src, d)),
                };
                let v = match &k {
                    ObjKey::Computed(_) => Some(gen_e(src, d)),
                    _ => {
                        if src.bool() {
                            Some(gen_e(src, d))
                        } else {
                            None
                        }
                    }
                };
                es.push((k, v));
            }
            E::Obj(es)
        }
        13 => {
            let n = 1 + src.below(3);
            let parts = (0..n)
                .map(|_| match src.below(6) {
                    0 => Part::Key(src.pick(&["a", "b", "if", "end", "x_1"]).to_string()),
                    1 => Part::QuotedKey(src.pick(&["\"a\"", "\"a b\"", "\"\\(1)\""]).to_string()),
                    2 => Part::Index(gen_e(src, d)),
                    3 => Part::Slice(if src.bool() { Some(gen_e(src, d)) } else { None }, Some(gen_e(src, d))),
                    4 => Part::Slice(Some(gen_e(src, d)), None),
                    _ => Part::Iter,
                })
                .collect();
            E::Path(Box::new(gen_e(src, d)), parts)
        }
        _ => {
            let fmt = *src.pick(&[None, None, Some("@json"), Some("@base64"), Some("@sh")]);
            let n = 1 + src.below(3);
            let parts = (0..n).map(|_| if src.bool() { Ok(src.pick(&["a", " ", "#", "\\n", "\\\"", "\\\\", "é", "(", ")", "\\u00e9"]).to_string()) } else { Err(gen_e(src, d)) }).collect();
            E::Str(fmt, parts)
        }
    }
}

#[derive(Clone, Copy, PartialEq)]
enum Style {
    Minimal,
    Full,
    Redundant,
}

struct Printer<'a, 'b> {
    style: Style,
    src: Option<&'a mut Src<'b>>,
    out: Vec<String>,
    /// which postfix `?` of optional path parts to print (decided once per tree)
    opt_mask: u64,
    opt_count: u32,
}

/// an operand that would fuse with a following path suffix or `?` into one path: `.a` + `?`, `.[0]` + `.a`
fn path_like(e: &E) -> bool {
    match e {
        E::Atom(a) => a.starts_with('.'),
        E::Path(..) | E::Opt(_) => true,
        _ => false,
    }
}

/// precedence of a node as an operand (100 = atomic)
fn prec(e: &E) -> u8 {
    match e {
        E::Bin(_, o, _) => OPS[*o].1,
        E::As(..) => 2,
        // binders that extend as far right as possible: never safe as a left operand
        E::Label(..) | E::Def(..) => 0,
        // prefix minus and try take a postfix term
        E::Neg(_) | E::Try(..) => 50,
        _ => 100,
    }
}

impl<'a, 'b> Printer<'a, 'b> {
    fn tok(&mut self, s: &str) {
        self.out.push(s.to_string());
    }
    fn redundant(&mut self) -> bool {
        self.style == Style::Redundant && self.src.as_mut().map_or(false, |s| s.chance(60))
    }
    /// print `e` in a position that requires at least precedence `min` (101 = must be atomic)
    fn operand(&mut self, e: &E, min: u8) {
        let need = match self.style {
            Style::Full => !matches!(e, E::Atom(_)),
            _ => prec(e) < min,
        } || self.redundant();
        if need {
            self.tok("(");
            self.term(e);
            self.tok(")");
        } else {
            self.term(e);
        }
    }
    /// the term a postfix (`?`, path suffix) applies to: path-like terms are parenthesised in every
    /// style, because `.a ?` and `(.a)?` are different (if equivalent) trees
    fn postfix_base(&mut self, e: &E) {
        if path_like(e) {
            self.tok("(");
            self.term(e);
            self.tok(")");
        } else {
            self.operand(e, 100);
        }
    }
    /// a position where a full term (pipe level) is allowed: no parentheses needed
    fn free(&mut self, e: &E) {
        if self.style == Style::Full && !matches!(e, E::Atom(_)) || self.redundant() {
            self.tok("(");
            self.term(e);
            self.tok(")");
        } else {
            self.term(e);
        }
    }
    fn args(&mut self, args: &[E]) {
        if !args.is_empty() {
            self.tok("(");
            for (i, a) in args.iter().enumerate() {
                if i > 0 {
                    self.tok(";");
                }
                self.free(a);
            }
            self.tok(")");
        }
    }
    fn term(&mut self, e: &E) {
        match e {
            E::Atom(a) => self.tok(a),
            E::Bin(l, o, r) => {
                let (p, right) = (OPS[*o].1, OPS[*o].2);
                // left operand: needs parentheses if it binds looser, or equally with a right-associative
                // operator; binders (as, label, def) extend as far right as possible, so always
                if matches!(**l, E::As(..) | E::Label(..) | E::Def(..)) {
                    self.tok("(");
                    self.term(l);
                    self.tok(")");
                } else {
                    self.operand(l, if right { p + 1 } else { p });
                }
                self.tok(OPS[*o].0);
                // a binder as right operand swallows whatever follows the whole expression, so it is
                // left bare only to the right of a pipe (where that is what the tree says anyway)
                if p > 0 && matches!(**r, E::As(..) | E::Label(..) | E::Def(..)) {
                    self.tok("(");
                    self.term(r);
                    self.tok(")");
                } else {
                    self.operand(r, if right { p } else { p + 1 });
                }
            }
            E::As(l, pat, body) => {
                self.operand(l, 3);
                self.tok("as");
                self.tok(pat);
                self.tok("|");
                // the body extends as far right as possible
                self.free(body);
            }
            E::Neg(f) => {
                self.tok("-");
                self.operand(f, 100);
            }
            E::Opt(f) => {
                self.postfix_base(f);
                self.tok("?");
            }
            E::Try(f, c) => {
                self.tok("try");
                self.operand(f, 100);
                if let Some(c) = c {
                    self.tok("catch");
                    self.operand(c, 100);
                }
            }
            E::If(its, els) => {
                for (i, (c, t)) in its.iter().enumerate() {
                    self.tok(if i == 0 { "if" } else { "elif" });
                    self.free(c);
                    self.tok("then");
                    self.free(t);
                }
                if let Some(e) = els {
                    self.tok("else");
                    self.free(e);
                }
                self.tok("end");
            }
            E::Fold(kind, xs, pat, a) => {
                self.tok(kind);
                self.operand(xs, 100);
                self.tok("as");
                self.tok(pat);
                self.tok("(");
                for (i, x) in a.iter().enumerate() {
                    if i > 0 {
                        self.tok(";");
                    }
                    self.free(x);
                }
                self.tok(")");
            }
            E::Label(l, f) => {
                self.tok("label");
                self.tok(l);
                self.tok("|");
                self.free(f);
            }
            E::Def(name, params, body, rest) => {
                self.tok("def");
                self.tok(name);
                if !params.is_empty() {
                    self.tok("(");
                    for (i, p) in params.iter().enumerate() {
                        if i > 0 {
                            self.tok(";");
                        }
                        self.tok(p);
                    }
                    self.tok(")");
                }
                self.tok(":");
                self.free(body);
                self.tok(";");
                // consecutive definitions form one (different, if equivalent) node: keep them nested
                if matches!(**rest, E::Def(..)) {
                    self.tok("(");
                    self.term(rest);
                    self.tok(")");
                } else {
                    self.free(rest);
                }
            }
            E::Call(n, a) => {
                self.tok(n);
                self.args(a);
            }
            E::Arr(f) => {
                self.tok("[");
                if let Some(f) = f {
                    self.free(f);
                }
                self.tok("]");
            }
            E::Obj(es) => {
                self.tok("{");
                for (i, (k, v)) in es.iter().enumerate() {
                    if i > 0 {
                        self.tok(",");
                    }
                    match k {
                        ObjKey::Ident(s) | ObjKey::Var(s) | ObjKey::Quoted(s) => self.tok(s),
                        ObjKey::Computed(e) => {
                            self.tok("(");
                            self.term(e);
                            self.tok(")");
                        }
                    }
                    if let Some(v) = v {
                        self.tok(":");
                        // object values: anything tighter than `,`; a pipe or comma needs parentheses
                        self.operand(v, 3);
                    }
                }
                self.tok("}");
            }
            E::Path(f, parts) => {
                self.postfix_base(f);
                for p in parts {
                    match p {
                        Part::Key(k) => self.tok(&format!(".{k}")),
                        Part::QuotedKey(k) => {
                            self.tok(".");
                            self.tok(k);
                        }
                        Part::Index(i) => {
                            self.tok("[");
                            self.free(i);
                            self.tok("]");
                        }
                        Part::Slice(a, b) => {
                            self.tok("[");
                            if let Some(a) = a {
                                self.free(a);
                            }
                            self.tok(":");
                            if let Some(b) = b {
                                self.free(b);
                            }
                            self.tok("]");
                        }
                        Part::Iter => {
                            self.tok("[");
                            self.tok("]");
                        }
                    }
                    let bit = self.opt_count;
                    self.opt_count += 1;
                    if self.opt_mask >> (bit % 64) & 1 == 1 {
                        self.tok("?");
                    }
                }
            }
            E::Str(fmt, parts) => {
                // a string is one token; interpolated terms are printed recursively in the same style
                let mut s = String::new();
                if let Some(f) = fmt {
                    s.push_str(f);
                    s.push(' ');
                }
                s.push('"');
                for p in parts {
                    match p {
                        Ok(l) => s.push_str(l),
                        Err(e) => {
                            let mut sub = Printer { style: self.style, src: None, out: Vec::new(), opt_mask: self.opt_mask, opt_count: 1000 };
                            sub.term(e);
                            s.push_str("\\(");
                            s.push_str(&sub.out.join(" "));
                            s.push(')');
                        }
                    }
                }
                s.push('"');
                self.tok(&s);
            }
        }
    }
}

const TRIVIA: &[&str] = &[" ", "  ", "\t", "\n", "\r\n", " \n ", "# comment\n", "#\n", " # a \\\\\n", "# continued \\\n still comment \\\\\\\n and this\n", "#x\r\n", "\n\n", " #\\\\\\\\\n", "# not continued: blank after the backslash \\ \n", "# tab after it \\\t\n", "# three of them \\\\\\ \r\n", "# C:\\tmp\\ \n"];

/// join tokens with random trivia (at least a blank where two word-like tokens meet)
fn join(tokens: &[String], src: &mut Src, rich: bool) -> String {
    let mut s = String::new();
    for (i, t) in tokens.iter().enumerate() {
        if i > 0 {
            if rich && src.chance(110) {
                let n = 1 + src.below(2);
                for _ in 0..n {
                    s.push_str(*src.pick(TRIVIA));
                }
            } else {
                s.push(' ');
            }
        }
        s.push_str(t);
    }
    if rich && src.chance(60) {
        // comment at the end of the text without a final newline
        s.push_str(*src.pick(&[" # the end", "#", "\n# \\"]));
    }
    s
}

fn random_tree(src: &mut Src) -> CaseResult {
    let depth = 1 + src.below(4);
    let e = gen_e(src, depth);
    let opt_mask = src.u64() & src.u64();
    let sample = src.sample;
    let render = |style: Style, src: &mut Src, rich: bool| -> String {
        let mut p = Printer { style, src: None, out: Vec::new(), opt_mask, opt_count: 0 };
        if style == Style::Redundant {
            // SAFETY of design: the printer only draws booleans from the source
            let mut sub = Printer { style, src: Some(src), out: Vec::new(), opt_mask, opt_count: 0 };
            sub.term(&e);
            let toks = sub.out;
            return join(&toks, src, rich);
        }
        p.term(&e);
        let toks = p.out;
        join(&toks, src, rich)
    };
    let full = render(Style::Full, src, false);
    let texts = [
        ("minimal", render(Style::Minimal, src, false)),
        ("minimal+trivia", render(Style::Minimal, src, true)),
        ("full+trivia", render(Style::Full, src, true)),
        ("redundant", render(Style::Redundant, src, false)),
        ("redundant+trivia", render(Style::Redundant, src, true)),
    ];
    let case = |other: &str| json!({"fully_parenthesised": full, "other_rendering": other});
    let pf = match parse_dbg(&full) {
        Some(p) => p,
        None => return Err(CaseFail::new("harness-rendering-rejected", "the fully parenthesised rendering of a generated tree does not parse", case(""))),
    };
    let mut differs = false;
    for (name, t) in &texts {
        match parse_dbg(t) {
            None => return Err(CaseFail::new(format!("rendering-rejected:{name}"), format!("the {name} rendering does not parse although the fully parenthesised one does"), case(t))),
            Some(p) if p != pf => return Err(CaseFail::new(format!("renderings-parse-differently:{name}"), format!("{name} rendering parses to {} instead of {}", vcore::runner::one_line(&p, 300), vcore::runner::one_line(&pf, 300)), case(t))),
            _ => {}
        }
        differs |= *t != full;
    }
    fn levels(e: &E, acc: &mut std::collections::BTreeSet<u8>) {
        if let E::Bin(l, o, r) = e {
            acc.insert(OPS[*o].1);
            levels(l, acc);
            levels(r, acc);
        }
        if let E::As(l, _, b) = e {
            acc.insert(2);
            levels(l, acc);
            levels(b, acc);
        }
    }
    let mut lv = std::collections::BTreeSet::new();
    levels(&e, &mut lv);
    let mut ok = CaseOk::new(differs && lv.len() >= 2, fnv_str(&[&full])).class(if lv.len() >= 2 { "two-or-more-precedence-levels" } else { "at-most-one-level" });
    if texts.iter().any(|(_, t)| t.contains('#')) {
        ok = ok.class("with-comments");
    }
    if sample {
        ok = ok.desc(Some(json!({"fully_parenthesised": full, "minimal_with_trivia": texts[1].1, "redundant_with_trivia": texts[4].1})));
    }
    Ok(ok)
}

// ---------------------------------------------------------------- (3) shorthands

const F_POOL: &[&str] = &[".", ".a", "(.a, .b)", ".[]?", "empty", "error(\"e\")", "1", "(1, 2)", "\"k\"", "(\"a\", \"b\")", ".b[0]?", "[.]", "{a: 1}", "null", ".a.b?", "(.a | tostring)"];
const INPUTS: &[&str] = &["null", "0", "\"a\"", "[1,2,3]", "{\"a\":1,\"b\":2}", "{\"a\":{\"b\":3,\"c\":[4]},\"b\":[5,6]}", "[{\"a\":1},{\"a\":2,\"b\":3}]", "{\"a\":\"b\",\"b\":\"a\",\"if\":7,\"and\":8,\"then\":9,\"x\":1,\"y\":2}", "[[1,2],[3]]", "{\"a\":[{\"b\":1},{\"b\":2},3,{\"b\":4}]}", "true", "[]"];

/// (name, shorthand, expansion) with placeholders F, G, K, V
const SHORTHANDS: &[(&str, &str, &str)] = &[
    ("dotted-path-is-pipe", ".a.b", ".a | .b"),
    ("dotted-path-is-pipe-3", ".a.b.c", ".a | .b | .c"),
    ("quoted-key", ".\"a\"", ".[\"a\"]"),
    ("quoted-key-is-plain-key", ".\"a\"", ".a"),
    ("bracket-key-is-plain-key", ".[\"a\"]", ".a"),
    ("quoted-key-after-path", ".a.\"b\"", ".a | .[\"b\"]"),
    ("quoted-key-after-iteration", ".a[].\"b\"", ".a | .[] | .[\"b\"]"),
    ("optional-quoted-key-after-iteration", "[.a[].\"b\"?]", "[.a[] | .[\"b\"]?]"),
    ("optional-quoted-key-after-index", "[.a[1, 0, 3].\"b\"?]", "[.a[1, 0, 3] | .[\"b\"]?]"),
    ("optional-quoted-key-after-variable", ". as $x | [$x.\"a\"?]", ". as $x | [$x | .[\"a\"]?]"),
    ("optional-quoted-key-after-call", "def f: .; [f.\"a\"?]", "def f: .; [f | .[\"a\"]?]"),
    ("optional-quoted-key-after-brackets", "[.[].\"b\"?]", "[.[] | .[\"b\"]?]"),
    ("optional-key-is-try", ".a?", "try .a"),
    ("optional-key-in-path", "[.[].a?]", "[.[] | try .a]"),
    ("optional-bracket-key", ".[\"a\"]?", "try .a"),
    ("iteration-suffix", "[F[]?]", "[F | .[]?]"),
    ("index-suffix", "[F[0]?]", "[F | .[0]?]"),
    ("postfix-question-mark-is-try", "[F?]", "[try F]"),
    ("postfix-question-mark-on-parenthesised", "[(F | .a)?]", "[try (F | .a)]"),
    ("negation-binds-looser-than-question-mark", "[try -(F)? catch \"c\"]", "[try -((F)?) catch \"c\"]"),
    ("negation-binds-looser-than-path", "try -.a catch \"c\"", "try -(.a) catch \"c\""),
    ("negation-of-index", "try -.[0] catch \"c\"", "try (-(.[0])) catch \"c\""),
    ("dotdot-is-recurse", "[..]", "[recurse]"),
    ("object-key-shorthand", "{a}", "{a: .a}"),
    ("object-two-key-shorthands", "{a, b}", "{a: .a, b: .b}"),
    ("object-quoted-key-shorthand", "{\"a\"}", "{\"a\": .a}"),
    ("object-variable-shorthand", "F as $x | {$x}", "F as $x | {x: $x}"),
    ("object-variable-and-key", "F as $x | {$x, a}", "F as $x | {x: $x, a: .a}"),
    ("object-interpolated-key", "{\"a\\(F)\": G}", "{(\"a\\(F)\"): G}"),
    ("object-product", "[{(F): G}]", "[F as $k | G as $v | {($k): $v}]"),
    ("object-two-entries-product", "[{a: F, b: G}]", "[F as $x | G as $y | {a: $x, b: $y}]"),
    ("object-keyword-key", "{if: 1, then: 2, and: 3, reduce: 4}", "{\"if\": 1, \"then\": 2, \"and\": 3, \"reduce\": 4}"),
    ("object-keyword-shorthand", "{and, if}", "{\"and\": .and, \"if\": .if}"),
    ("keyword-path", "[.then?, .and?, .if?]", "[.[\"then\"]?, .[\"and\"]?, .[\"if\"]?]"),
    ("object-format-key", "{@base64 \"k\": 1}", "{\"k\": 1}"),
    ("elif-chain", "if F then 1 elif G then 2 else 3 end", "if F then 1 else (if G then 2 else 3 end) end"),
    ("elif-chain-2", "if F then 1 elif G then 2 elif .a then 3 end", "if F then 1 else (if G then 2 else (if .a then 3 else . end) end) end"),
    ("missing-else-is-identity", "[if F then 1 end]", "[if F then 1 else . end]"),
    ("interpolation-is-concatenation", "\"x\\(F)y\"", "\"x\" + (F | tostring) + \"y\""),
    ("interpolation-two-parts", "\"\\(F)-\\(G)\"", "(F | tostring) + \"-\" + (G | tostring)"),
    ("format-interpolation", "@base64 \"x\\(F)y\"", "\"x\" + (F | @base64) + \"y\""),
    ("format-without-interpolation", "@json \"x y\"", "\"x y\""),
    ("variable-parameter-sugar", "def f($x): [$x, .]; f(F)", "def f(x): x as $x | [$x, .]; f(F)"),
    ("two-variable-parameters", "def f($x; $y): [$x, $y]; f(F; G)", "def f(x; y): x as $x | y as $y | [$x, $y]; f(F; G)"),
    ("array-pattern", "F as [$a, $b] | [$a, $b]", "F as $v | $v[0] as $a | $v[1] as $b | [$a, $b]"),
    ("object-pattern", "F as {a: $x, $b} | [$x, $b]", "F as $v | $v.a as $x | $v.b as $b | [$x, $b]"),
    ("object-pattern-quoted-and-computed", "F as {\"a\": $x, (\"b\"): $y} | [$x, $y]", "F as $v | $v.a as $x | $v.b as $y | [$x, $y]"),
    ("nested-pattern", ". as {a: [$x, {b: $y}]} | [$x, $y]", ".a[0] as $x | .a[1].b as $y | [$x, $y]"),
    ("foreach-two-arguments", "[foreach F as $x (0; . + 1)]", "[foreach F as $x (0; . + 1; .)]"),
    ("try-without-catch", "[try F]", "[try F catch empty]"),
    ("try-is-atomic-left-of-pipe", "[try F | 1]", "[(try F) | 1]"),
    ("try-is-atomic-left-of-plus", "[try F + 1]?", "[(try F) + 1]?"),
    ("catch-is-atomic-left-of-comma", "[try F catch 1, 2]", "[(try F catch 1), 2]"),
    ("empty-array", "[]", "[empty]"),
    ("open-slice", "[.[1:]?, .[:1]?]", "[.[1:null]?, .[null:1]?]"),
    ("binding-body-extends-right", "F as $x | $x, 1", "F as $x | ($x, 1)"),
    ("binding-left-of-comma", "[1, F as $x | $x]", "[1, (F as $x | $x)]"),
    ("label-body-extends-right", "[label $l | 1, break $l, 2]", "[label $l | (1, break $l, 2)]"),
    ("label-as-right-operand", "[0, label $l | 1, break $l]", "[0, (label $l | (1, break $l))]"),
    ("def-body-extends-right", "def f: 1; f | . + 1", "def f: 1; (f | . + 1)"),
    ("def-as-right-operand", "[1 + def f: 2; f, 3]", "[1 + (def f: 2; (f, 3))]"),
    ("def-inside-pipe", "1 | def f: . + 1; f | f", "1 | (def f: . + 1; (f | f))"),
    ("reduce-is-atomic", "reduce F as $x (0; . + 1) + 1", "(reduce F as $x (0; . + 1)) + 1"),
    ("if-is-atomic", "[if F then 1 else 2 end | . + 1]", "[(if F then 1 else 2 end) | . + 1]"),
    ("call-with-semicolons", "[limit(2; F, G)]", "[limit(2; (F, G))]"),
    ("comment-to-end-of-line", "1 # + 1\n+ 2", "1 + 2"),
    ("comment-continuation-odd-backslashes", "1 # a \\\n + 10\n+ 2", "1 + 2"),
    ("comment-no-continuation-even-backslashes", "1 # a \\\\\n + 10\n+ 2", "1 + 10 + 2"),
    ("comment-three-backslashes-continue", "1 # a \\\\\\\n + 10\n+ 2", "1 + 2"),
    ("hash-inside-string-is-no-comment", "\"a # b\" | length", "5"),
    ("carriage-return-is-blank", "1\r\n+\r2", "1 + 2"),
    ("no-blank-needed", "1+2*3-.a?//4", "((1 + (2 * 3)) - (.a?)) // 4"),
    ("minus-after-operator-is-negation", "[1 - -1, 1 + - 1, 2 * -(1)]", "[1 - (-1), 1 + (-1), 2 * (-1)]"),
    ("recursion-then-key", "[..|.a?]", "[.. | (.a?)]"),
];

fn shorthand_case(k: u64, sample: bool) -> CaseResult {
    let nf = F_POOL.len() as u64;
    let ni = INPUTS.len() as u64;
    let (name, sugar, expansion) = SHORTHANDS[(k / (nf * nf * ni)) as usize];
    let f = F_POOL[((k / (nf * ni)) % nf) as usize];
    let g = F_POOL[((k / ni) % nf) as usize];
    let input = MVal::from_val(&jaq_json::read::parse_single(INPUTS[(k % ni) as usize].as_bytes()).unwrap());
    let uses_g = sugar.contains('G');
    let uses_f = sugar.contains('F');
    // enumerate only the placeholders that occur
    if (!uses_g && g != F_POOL[0]) || (!uses_f && f != F_POOL[0]) {
        return Ok(CaseOk::trivial());
    }
    let subst = |t: &str| t.replace('F', &format!("({f})")).replace('G', &format!("({g})"));
    let (lhs, rhs) = (subst(sugar), subst(expansion));
    let case = || json!({"shorthand": name, "text": lhs, "expansion": rhs, "input": input.show()});
    vcore::runner::note_case(|| format!("{name}: {lhs}"));
    match laws::equation(&lhs, &rhs, &[], &input, Cmp::Same, true) {
        Verdict::Inconclusive => Ok(CaseOk::trivial().class("discarded-time-limit")),
        Verdict::Differ(m) => Err(CaseFail::new(format!("shorthand:{name}"), m, case())),
        Verdict::Agree(o) => Ok(CaseOk::new(true, fnv_str(&[&lhs, &input.show()])).class(if laws::ends_abnormally(&o) { "ends-with-error" } else { "values" }).desc(if sample { Some(case()) } else { None })),
    }
}

// ---------------------------------------------------------------- (4) negatives

const INVALID: &[&str] = &[
    "", "|", ". |", "| .", ". | | .", ". ,", ", .", ". +", "+ .", ". * * .", ". and", "or .", ". //", ". = ", ". |=", "-", "(", ")", "(.", ".)", "[", "]", "[.", ".]", "{", "}", "{a", "{a:", "{a:}", "{:1}", "{(1)}", "{(1) 2}", "{a;}", "{a b}", "{1}", "{a: 1,, b: 2}",
    "f(;)", "f()", "f(1;)", "f(;1)", "f(1 2)", "reduce", "reduce .", "reduce . as $x", "reduce . as $x (1)", "reduce . as $x (1; 2; 3)", "reduce . as $x (1; 2; 3; 4)", "foreach . as $x (1)", "foreach . as $x (1; 2; 3; 4)", "reduce . as x (1; 2)", "reduce . (1; 2)",
    "def f()", "def f(): 1; 2", "def f: 1", "def f 1; 2", "def: 1; 2", "def f(: 1; 2", "def f($): 1; 2", ". as 1 | .", ". as | .", ". as $x", ". as $x |", ". as [$x | .", ". as {$x | .", ". as {1: $x} | .", ". as [$x;] | .", "1 as $x 2",
    "try", "try catch", "catch .", "if", "if .", "if . then", "if . then .", "if . then . else", "if . then . else .", "if . then . elif .", "if . then . elif . end", "if . end", "then .", "else .", "end", "elif . then .",
    "label", "label |", "label x | 1", "label $x", "break", "break x", "\"abc", "\"a\\(1\"", "\"a\\q\"", "\"\\u12\"", "@", ".a.?\"b\"", "..a", ". .", ".[", ".[1", ".[1:", ".[:]", ".[1,]", ".[;]", ".a.", "..[", "$", "$ x", ". as $ | .", "1 2", "\"a\" \"b\"", "1 as $x | 2 as | 3",
    ".a = = 1", ". |= |= .", "?", "??", ".? ? ?|", "1 +* 2", "1 ! 2", "1 & 2", "1 ^ 2", "~1", "1 ; 2", "a:b", "::f", "f::", "import \"a\" as $x; .", "include; .", "`1`", "'a'", "0x", "1..2", ".a[", ".a]", "{\"a\\(1)\"; 2}", "[1;2]", "(1;2)", "reduce (1;2) as $x (0;1)",
];

fn negative_case(i: usize) -> CaseResult {
    let text = INVALID[i];
    match jq::compile(text, &[]) {
        Err(_) => Ok(CaseOk::new(true, i as u64).class("rejected").desc(Some(json!({"text": text})))),
        Ok(_) => Err(CaseFail::new("invalid-text-accepted", "a text outside the grammar compiles", json!({"text": text}))),
    }
}

/// token-level corruption of valid renderings: the result must either be rejected or, if accepted,
/// print back (through the independent printer's full parenthesisation of what was parsed) - we only
/// assert rejection for corruptions that are certainly invalid: an unbalanced delimiter.
fn unbalanced(src: &mut Src) -> CaseResult {
    let d = 1 + src.below(3);
    let e = gen_e(src, d);
    let mut p = Printer { style: Style::Minimal, src: None, out: Vec::new(), opt_mask: 0, opt_count: 0 };
    p.term(&e);
    let mut toks = p.out;
    let delims: Vec<usize> = toks.iter().enumerate().filter(|(_, t)| matches!(t.as_str(), "(" | ")" | "[" | "]" | "{" | "}")).map(|(i, _)| i).collect();
    if delims.is_empty() {
        return Ok(CaseOk::trivial().class("no-delimiter"));
    }
    let at = *src.pick(&delims);
    let removed = toks.remove(at);
    let text = toks.join(" ");
    match parse_dbg(&text) {
        None => Ok(CaseOk::new(true, fnv_str(&[&text])).class("rejected").desc(if src.sample { Some(json!({"text": text, "removed": removed})) } else { None })),
        Some(t) => Err(CaseFail::new("unbalanced-text-accepted", format!("parsed to {}", vcore::runner::one_line(&t, 300)), json!({"text": text, "removed_token": removed}))),
    }
}

pub fn run(mut rep: Report) -> ! {
    rep.set_rule(
        "(1) exhaustively: every chain of 2 and of 3 binary operators (25 operators incl. `as $x |`; 625 + 15 625 chains) over distinct path operands: the text must parse to the tree of the grouping computed independently from the manual's table, and another grouping must parse differently; \
         (2) random syntax trees (all constructs: operators, bindings with patterns, negation, ?, try/catch, if/elif, reduce/foreach, label, def, calls with module prefix, arrays, objects with every key form, compound paths with optional parts, interpolated and formatted strings) rendered by an independent printer with minimal, full and random redundant parentheses and random trivia (blanks, tabs, CR, LF, comments with 0-4 trailing backslashes and continuation lines, comment at end of text): all renderings parse to the same tree; \
         (3) 77 shorthand/expansion pairs x operand shapes x 12 inputs: equal outputs; (4) 190 texts outside the grammar and generated texts with one delimiter removed must be rejected; \
         non-trivial = chain with a distinguishable other grouping (1), tree with >= 2 precedence levels whose renderings differ textually (2), every evaluated pair (3), every rejected text (4)",
    );
    rep.assume("parse trees are compared by their Debug form (no parenthesis nodes exist in the tree); shorthands that the parser does not desugar itself are compared by output equality, evaluated by jaq");
    let n = OPS.len() as u64;
    rep.exhaustive("operator-pairs", n * n, |k, s| op_table_case(k, 2, s));
    rep.exhaustive("operator-triples", n * n * n, |k, s| op_table_case(k, 3, s));
    rep.exhaustive("operator-chains-inside-constructs", CONTEXTS.len() as u64 * n * n, embedding_case);
    let total = SHORTHANDS.len() as u64 * (F_POOL.len() * F_POOL.len() * INPUTS.len()) as u64;
    rep.exhaustive("shorthands", total, shorthand_case);
    rep.fixed("invalid-texts", INVALID.len(), negative_case);
    let nr = rep.n(60_000, 3_000_000);
    rep.random("random-trees", nr, 200, random_tree);
    rep.random("unbalanced-delimiters", nr / 3, 120, unbalanced);
    rep.extra("shorthand_pairs", json!(SHORTHANDS.len()));
    rep.extra("invalid_texts", json!(INVALID.len()));
    rep.finish()
}
