//! C16 — a program split into modules computes what its inlined form computes.
//!
//! (a) generated module graphs (DAGs with diamonds, shared leaves, name clashes between modules and
//!     with built-ins, mixed include/import, data imports with the same name in several modules,
//!     global variables, calls from under binders, closures passed into module filters) are written as
//!     real files and run by the binary; the expected output comes from the single inlined program that
//!     the harness generates alongside (every reference resolved by the harness' own transcription of
//!     the documented rules, definitions renamed apart), run by the same binary without any module;
//! (b) look-up order: for many directive shapes the module/data file is placed in subsets of the
//!     candidate directories (search metadata relative to the importing file or the working
//!     directory, then -L paths or the default paths with ~ and $ORIGIN), each copy identifying
//!     itself; the harness predicts which copy is loaded; extension rule;
//! (c) negatives: references that must not resolve, circular graphs, absolute paths.

use serde_json::json;
use std::path::{Path, PathBuf};
use vcore::cli::{self, Cmd, Scratch};
use vcore::runner::{fnv_str, CaseFail, CaseOk, CaseResult, Report};
use vcore::Src;

static DIRN: std::sync::atomic::AtomicU64 = std::sync::atomic::AtomicU64::new(0);
const NAMES: &[&str] = &["f", "g", "h", "length", "tojson", "keys", "first", "not"];

#[derive(Clone, Debug)]
struct DefSpec {
    name: String,
    /// one filter parameter `x`?
    param: bool,
    /// references in the body: (modular text, inlined text)
    refs: Vec<(String, String)>,
}

#[derive(Clone, Debug)]
struct ModSpec {
    /// directives: (target module, import alias or None for include)
    deps: Vec<(usize, Option<String>)>,
    data: bool,
    defs: Vec<DefSpec>,
}

struct Graph {
    mods: Vec<ModSpec>,
    main_deps: Vec<(usize, Option<String>)>,
    main_data: bool,
    main_refs: Vec<(String, String)>,
    use_l: bool,
    main_file: bool,
}

/// which definition an unqualified name denotes inside module `m` before its definition number `upto`
/// (own earlier definitions, latest first; then directly included modules, latest directive first)
fn resolve(mods: &[ModSpec], deps: &[(usize, Option<String>)], own: &[DefSpec], upto: usize, name: &str, param: bool) -> Option<String> {
    for (q, d) in own[..upto].iter().enumerate().rev() {
        if d.name == name && d.param == param {
            return Some(format!("OWN_{q}"));
        }
    }
    for (j, alias) in deps.iter().rev() {
        if alias.is_none() {
            for (q, d) in mods[*j].defs.iter().enumerate().rev() {
                if d.name == name && d.param == param {
                    return Some(format!("M{j}_{q}"));
                }
            }
        }
    }
    None
}

fn gen_refs(src: &mut Src, mods: &[ModSpec], me: Option<usize>, deps: &[(usize, Option<String>)], own: &[DefSpec], upto: usize, data: bool, n: usize, cur: (&str, bool)) -> Vec<(String, String)> {
    let own_prefix = me.map_or("MAIN".to_string(), |i| format!("M{i}"));
    let mut refs = Vec::new();
    for _ in 0..n {
        match src.below(7) {
            // unqualified name: own earlier definition, included definition, or built-in
            0 | 1 | 2 => {
                let name = *src.pick(NAMES);
                // (inside `def f: ...`, `f` is the definition itself: that would be a recursion without end)
                if cur == (name, false) {
                    continue;
                }
                match resolve(mods, deps, own, upto, name, false) {
                    Some(t) => refs.push((name.to_string(), t.replace("OWN", &own_prefix))),
                    // a built-in: same text on both sides (applied to a fixed input)
                    None if matches!(name, "length" | "tojson" | "keys" | "first" | "not") => refs.push((format!("([1, 2] | {name})"), format!("([1, 2] | {name})"))),
                    None => {}
                }
            }
            // qualified name
            3 | 4 => {
                let imported: Vec<&(usize, Option<String>)> = deps.iter().filter(|d| d.1.is_some()).collect();
                if let Some((j, Some(alias))) = imported.get(src.below(imported.len().max(1))).map(|d| (d.0, d.1.clone())) {
                    let defs = &mods[j].defs;
                    if !defs.is_empty() {
                        let d = src.pick(defs).clone();
                        // the last definition of that name and arity in the module is the one that is exported
                        let q = defs.iter().rposition(|x| x.name == d.name && x.param == d.param).unwrap();
                        if d.param {
                            refs.push((format!("{alias}::{}($loc + 1)", d.name), format!("M{j}_{q}($loc + 1)")));
                        } else {
                            refs.push((format!("{alias}::{}", d.name), format!("M{j}_{q}")));
                        }
                    }
                }
            }
            5 if data => refs.push(("$d".to_string(), format!("${own_prefix}_d"))),
            _ => refs.push(("$g".to_string(), "$g".to_string())),
        }
    }
    // a call with a closure over a local variable, to an included definition with parameter
    if let (Some(t), false) = (resolve(mods, deps, own, upto, "ap", true), cur.1) {
        refs.push(("ap($loc * 2)".to_string(), format!("{}($loc * 2)", t.replace("OWN", &own_prefix))));
    }
    refs
}

fn gen_graph(src: &mut Src) -> Graph {
    let k = 1 + src.below(4);
    // modules are generated from the leaves: module i may depend on modules j > i
    let mut mods: Vec<ModSpec> = (0..k).map(|_| ModSpec { deps: Vec::new(), data: false, defs: Vec::new() }).collect();
    for i in (0..k).rev() {
        let mut deps = Vec::new();
        for j in i + 1..k {
            if src.chance(140) {
                let alias = if src.bool() { Some(src.pick(&["a", "b", "lib"]).to_string()) } else { None };
                if alias.is_some() && deps.iter().any(|d: &(usize, Option<String>)| d.1 == alias) {
                    continue;
                }
                deps.push((j, alias));
            }
        }
        let data = src.chance(120);
        let ndefs = 1 + src.below(3);
        let mut defs: Vec<DefSpec> = Vec::new();
        for p in 0..ndefs {
            let param = src.chance(50);
            let name = if param { "ap".to_string() } else { src.pick(NAMES).to_string() };
            let nrefs = src.below(4);
            let refs = gen_refs(src, &mods, Some(i), &deps, &defs, p, data, nrefs, (&name, param));
            defs.push(DefSpec { name, param, refs });
        }
        mods[i] = ModSpec { deps, data, defs };
    }
    let mut main_deps = Vec::new();
    for j in 0..k {
        if j == 0 || src.chance(150) {
            let alias = if src.bool() { Some(src.pick(&["a", "b", "lib", "m"]).to_string()) } else { None };
            if alias.is_some() && main_deps.iter().any(|d: &(usize, Option<String>)| d.1 == alias) {
                continue;
            }
            main_deps.push((j, alias));
        }
    }
    let main_data = src.chance(100);
    let nrefs = 2 + src.below(4);
    let main_refs = gen_refs(src, &mods, None, &main_deps, &[], 0, main_data, nrefs, ("", false));
    Graph { mods, main_deps, main_data, main_refs, use_l: src.bool(), main_file: src.chance(100) }
}

fn body(tag: &str, refs: &[(String, String)], inlined: bool, param: bool) -> String {
    let mut parts = vec![format!("{tag:?}")];
    if param {
        parts.push("x".into());
    }
    for (m, i) in refs {
        parts.push(if inlined { i.clone() } else { m.clone() });
    }
    // references run under local binders (their resolution must not depend on the depth of binders around)
    format!("(7 as $loc | label $out | [{}])", parts.join(", "))
}

impl Graph {
    fn directive(&self, from: Option<usize>, j: usize, alias: &Option<String>) -> String {
        // search path relative to the importing file (modules live in lib<i>/) or to the main program (root)
        let search = match (self.use_l, from) {
            (true, _) => String::new(),
            (false, Some(_)) => format!(" {{search: \"../lib{j}\"}}"),
            (false, None) => format!(" {{search: \"lib{j}\"}}"),
        };
        match alias {
            None => format!("include \"m{j}\"{search};"),
            Some(a) => format!("import \"m{j}\" as {a}{search};"),
        }
    }
    fn module_text(&self, i: usize) -> String {
        let m = &self.mods[i];
        let mut s = String::new();
        for (j, a) in &m.deps {
            s.push_str(&self.directive(Some(i), *j, a));
            s.push('\n');
        }
        if m.data {
            s.push_str("import \"d\" as $d {search: \".\"};\n");
        }
        for (q, d) in m.defs.iter().enumerate() {
            s.push_str(&format!("def {}{}: {};\n", d.name, if d.param { "(x)" } else { "" }, body(&format!("m{i}.{}#{q}", d.name), &d.refs, false, d.param)));
        }
        s
    }
    fn main_text(&self) -> String {
        let mut s = String::new();
        for (j, a) in &self.main_deps {
            s.push_str(&self.directive(None, *j, a));
            s.push(' ');
        }
        if self.main_data {
            s.push_str("import \"d\" as $d {search: \".\"}; ");
        }
        s.push_str(&body("main", &self.main_refs, false, false));
        s
    }
    fn data_values(i: Option<usize>) -> String {
        match i {
            Some(i) => format!("{} \"data of m{i}\"", i * 10),
            None => "\"data of main\" [1]".to_string(),
        }
    }
    /// the single program obtained by replacing every include/import by the definitions it brings in
    fn inlined(&self) -> String {
        let mut s = String::new();
        let arr = |v: String| format!("[{}]", v.replace(' ', ", ").replace("\"data, of, ", "\"data of "));
        for i in 0..self.mods.len() {
            if self.mods[i].data {
                s.push_str(&format!("{} as $M{i}_d | ", arr(Self::data_values(Some(i)))));
            }
        }
        if self.main_data {
            s.push_str(&format!("{} as $MAIN_d | ", arr(Self::data_values(None))));
        }
        // leaves first, so that every definition is in scope where it is used
        for i in (0..self.mods.len()).rev() {
            for (q, d) in self.mods[i].defs.iter().enumerate() {
                s.push_str(&format!("def M{i}_{q}{}: {}; ", if d.param { "(x)" } else { "" }, body(&format!("m{i}.{}#{q}", d.name), &d.refs, true, d.param)));
            }
        }
        s.push_str(&body("main", &self.main_refs, true, false));
        s
    }
}

fn graph_case(src: &mut Src, root: &Path) -> CaseResult {
    let g = gen_graph(src);
    let sample = src.sample;
    let dir = root.join(format!("g-{}", DIRN.fetch_add(1, std::sync::atomic::Ordering::Relaxed)));
    let w = |p: PathBuf, c: &str| {
        let _ = std::fs::create_dir_all(p.parent().unwrap());
        std::fs::write(p, c)
    };
    for i in 0..g.mods.len() {
        let _ = w(dir.join(format!("lib{i}/m{i}.jq")), &g.module_text(i));
        if g.mods[i].data {
            let _ = w(dir.join(format!("lib{i}/d.json")), &Graph::data_values(Some(i)));
        }
    }
    if g.main_data {
        let _ = w(dir.join("d.json"), &Graph::data_values(None));
    }
    let main = g.main_text();
    let mut args: Vec<String> = vec!["-nc".into(), "--arg".into(), "g".into(), "GLOBAL".into()];
    if g.use_l {
        for i in 0..g.mods.len() {
            args.push("-L".into());
            args.push(format!("lib{i}"));
        }
        // data imports use `search: "."`, module look-ups the -L paths
    }
    if g.main_file {
        let _ = w(dir.join("main.jq"), &main);
        args.push("-f".into());
        args.push("main.jq".into());
    } else {
        args.push(main.clone());
    }
    let inl = g.inlined();
    let case = || {
        json!({"command": format!("jaq {}", args.iter().map(|a| format!("{a:?}")).collect::<Vec<_>>().join(" ")), "main": main, "modules": (0..g.mods.len()).map(|i| json!({"file": format!("lib{i}/m{i}.jq"), "text": g.module_text(i)})).collect::<Vec<_>>(), "inlined": inl})
    };
    vcore::runner::note_case(|| case().to_string());
    let modular = Cmd::jaq().args(args.iter().map(|s| s.as_str())).cwd(&dir).run();
    let inlined = Cmd::jaq().args(["-nc", "--arg", "g", "GLOBAL", &inl]).cwd(&dir).run();
    let _ = std::fs::remove_dir_all(&dir);
    let (m, i) = match (modular, inlined) {
        (Ok(m), Ok(i)) => (m, i),
        _ => return Err(CaseFail::new("harness-spawn", "jaq binary not runnable", case())),
    };
    if i.status != 0 {
        return Err(CaseFail::new("harness-inlined-program-fails", format!("exit {}: {}", i.status, i.err_str().chars().take(400).collect::<String>()), case()));
    }
    if m.status != 0 || m.stdout != i.stdout {
        return Err(CaseFail::new(
            "modular-differs-from-inlined",
            format!("modular run: exit {} {} {}; inlined run: {}", m.status, m.out_str().trim(), m.err_str().chars().take(300).collect::<String>(), i.out_str().trim()),
            case(),
        ));
    }
    let clash = {
        let mut names: Vec<&str> = g.mods.iter().flat_map(|m| m.defs.iter().map(|d| d.name.as_str())).collect();
        let n = names.len();
        names.sort();
        names.dedup();
        names.len() < n || names.iter().any(|n| matches!(*n, "length" | "tojson" | "keys" | "first" | "not"))
    };
    let diamond = (0..g.mods.len()).any(|j| g.mods.iter().filter(|m| m.deps.iter().any(|d| d.0 == j)).count() + g.main_deps.iter().filter(|d| d.0 == j).count() >= 2);
    let ndata = g.mods.iter().filter(|m| m.data).count() + g.main_data as usize;
    let nt = g.mods.len() >= 2 && (diamond || clash || ndata >= 1);
    let mut ok = CaseOk::new(nt, fnv_str(&[&main, &inl])).class(if g.use_l { "library-paths" } else { "search-metadata" });
    if diamond {
        ok = ok.class("module-reached-by-several-routes");
    }
    if clash {
        ok = ok.class("name-clash-between-modules-or-with-built-in");
    }
    if ndata >= 2 {
        ok = ok.class("same-data-import-in-several-modules");
    }
    if sample {
        let mut d = case();
        d["output"] = json!(m.out_str().trim());
        ok = ok.desc(Some(d));
    }
    Ok(ok)
}

// ---------------------------------------------------------------- (b) look-up order

fn lookup_case(src: &mut Src, root: &Path) -> CaseResult {
    let dir = root.join(format!("l-{}", DIRN.fetch_add(1, std::sync::atomic::Ordering::Relaxed)));
    let sample = src.sample;
    let data = src.chance(90);
    // name as written in the directive, and the file name it denotes
    let (written, file): (&str, &str) = if data { *src.pick(&[("d", "d.json"), ("d.json", "d.json"), ("d.cbor", "d.cbor"), ("sub/d", "sub/d.json"), ("d.v1", "d.v1")]) } else { *src.pick(&[("m", "m.jq"), ("m.jq", "m.jq"), ("m.v2", "m.v2"), ("sub/m", "sub/m.jq"), ("m.json", "m.json")]) };
    // is the directive in the main program (inline or file) or inside a module that main includes?
    let nested = src.chance(90);
    let main_file = src.chance(100);
    let search: Vec<&str> = match src.below(5) {
        0 => vec![],
        1 => vec!["s1"],
        2 => vec!["s1", "s2"],
        3 => vec!["~/hs"],
        _ => vec!["$ORIGIN/os", "s2"],
    };
    let nl = src.below(3);
    let lpaths: Vec<&str> = [&["l1", "l2"][..nl], if nl > 0 && src.chance(60) { &["~/hl"][..] } else { &[][..] }].concat();
    // where the importing file lives: nested module in `outer/`, main file in `prog/`, inline main: the working directory
    let base: PathBuf = if nested { dir.join("outer") } else if main_file { dir.join("prog") } else { dir.clone() };
    let home = dir.join("home");
    let origin = dir.join("bin");
    let expand = |p: &str, rel_to: &Path| -> PathBuf {
        if let Some(r) = p.strip_prefix("~/") {
            home.join(r)
        } else if let Some(r) = p.strip_prefix("$ORIGIN/") {
            origin.join(r)
        } else {
            rel_to.join(p)
        }
    };
    // candidates in order: search metadata (relative to the importing file), then -L (relative to the working directory) or the defaults
    let mut cands: Vec<PathBuf> = search.iter().map(|s| expand(s, &base)).collect();
    if lpaths.is_empty() {
        cands.push(home.join(".jq"));
        cands.push(origin.join("../lib/jq"));
        cands.push(origin.join("../lib"));
    } else {
        cands.extend(lpaths.iter().map(|l| expand(l, &dir)));
    }
    // place the file in a non-empty subset of the candidates
    let mut placed: Vec<usize> = (0..cands.len()).filter(|_| src.chance(110)).collect();
    if placed.is_empty() {
        placed.push(src.below(cands.len()));
    }
    let _ = std::fs::create_dir_all(&dir);
    for d in [&base, &home, &origin] {
        let _ = std::fs::create_dir_all(d);
    }
    for (n, c) in cands.iter().enumerate() {
        let _ = std::fs::create_dir_all(c);
        if placed.contains(&n) {
            let p = c.join(file);
            let _ = std::fs::create_dir_all(p.parent().unwrap());
            let content = if data { format!("\"copy {n}\"") } else { format!("def which: \"copy {n}\";") };
            let _ = std::fs::write(p, content);
        }
    }
    // a decoy with the default extension next to names that carry their own extension
    if written.contains('.') && !written.ends_with(".jq") && !written.ends_with(".json") {
        let stem = written.split('.').next().unwrap();
        for c in &cands {
            let _ = std::fs::write(c.join(format!("{stem}.{}", if data { "json" } else { "jq" })), if data { "\"decoy\"".to_string() } else { "def which: \"decoy\";".to_string() });
        }
    }
    // the binary is copied so that $ORIGIN is under our control
    let bin = origin.join("jaq");
    // (a hard link: copying would race with concurrent fork/exec of other workers - ETXTBSY)
    if std::fs::hard_link(cli::jaq_bin(), &bin).is_err() && std::fs::copy(cli::jaq_bin(), &bin).is_err() {
        let _ = std::fs::remove_dir_all(&dir);
        return Err(CaseFail::new("harness", "cannot copy the jaq binary", json!({})));
    }
    let meta = if search.is_empty() { String::new() } else if search.len() == 1 && src.bool() { format!(" {{search: {:?}}}", search[0]) } else { format!(" {{search: [{}], other: 1}}", search.iter().map(|s| format!("{s:?}")).collect::<Vec<_>>().join(", ")) };
    let directive = if data { format!("import {written:?} as $d{meta};") } else if src.bool() { format!("include {written:?}{meta};") } else { format!("import {written:?} as q{meta};") };
    let usage = if data { "$d[0]" } else if directive.starts_with("include") { "which" } else { "q::which" };
    let mut args: Vec<String> = vec!["-nc".into()];
    for l in &lpaths {
        args.push("-L".into());
        args.push(l.to_string());
    }
    let main = if nested {
        let _ = std::fs::write(dir.join("outer/outer.jq"), format!("{directive} def res: {usage};"));
        "include \"outer\" {search: \"outer\"}; res".to_string()
    } else {
        format!("{directive} {usage}")
    };
    if main_file && !nested {
        let _ = std::fs::write(dir.join("prog/main.jq"), &main);
        args.push("-f".into());
        args.push("prog/main.jq".into());
    } else {
        args.push(main.clone());
    }
    let want = format!("\"copy {}\"", placed[0]);
    let case = || {
        json!({"command": format!("jaq {}", args.iter().map(|a| format!("{a:?}")).collect::<Vec<_>>().join(" ")), "directive": directive, "directive_in": if nested { "module outer/outer.jq" } else if main_file { "prog/main.jq" } else { "inline main program" },
            "candidate_directories_in_order": cands.iter().map(|c| c.strip_prefix(&dir).map_or(c.display().to_string(), |p| p.display().to_string())).collect::<Vec<_>>(), "file_placed_in_candidates": placed, "file": file})
    };
    vcore::runner::note_case(|| case().to_string());
    let out = Cmd::new(&bin).args(args.iter().map(|s| s.as_str())).cwd(&dir).env("HOME", &home.to_string_lossy()).env("NO_COLOR", "1").run();
    let _ = std::fs::remove_dir_all(&dir);
    let out = out.map_err(|e| CaseFail::new("harness-spawn", e.to_string(), case()))?;
    if out.status != 0 || out.out_str().trim() != want {
        return Err(CaseFail::new("wrong-file-loaded", format!("expected {want}, got exit {} {} {}", out.status, out.out_str().trim(), out.err_str().chars().take(300).collect::<String>()), case()));
    }
    let mut ok = CaseOk::new(placed.len() >= 2, fnv_str(&[&case().to_string()])).class(if data { "data-import" } else { "module" }).class(if nested { "directive-in-module" } else if main_file { "directive-in-main-file" } else { "directive-inline" });
    if lpaths.is_empty() {
        ok = ok.class("default-library-paths");
    }
    if written.contains('.') {
        ok = ok.class("name-with-extension");
    }
    if sample {
        ok = ok.desc(Some(case()));
    }
    Ok(ok)
}

// ---------------------------------------------------------------- (c) negatives

fn negative(i: usize, root: &Path) -> CaseResult {
    // (files, main program, what must happen)
    let cases: &[(&[(&str, &str)], &str, &str)] = &[
        (&[("m.jq", "def f: g;")], "def g: 1; include \"m\"; f", "a module cannot see a definition of the program that includes it"),
        (&[("m.jq", "def f: $x;")], "include \"m\"; 1 as $x | f", "a module cannot see a variable bound around the call site"),
        (&[("m.jq", "def f: $d;")], "import \"d\" as $d; include \"m\"; f", "a module cannot see a data variable of its importer"),
        (&[("m.jq", "def f: 1;")], "import \"m\" as a; f", "an imported definition is reachable only with its prefix"),
        (&[("m.jq", "def f: 1;")], "include \"m\"; m::f", "an included module has no prefix"),
        (&[("m.jq", "def f: 1;")], "import \"m\" as a; b::f", "unknown prefix"),
        (&[("m.jq", "def f: 1;")], "import \"m\" as a; a::g", "unknown definition in an imported module"),
        (&[("m.jq", "def f(x): x;")], "import \"m\" as a; a::f", "wrong arity across modules"),
        (&[("m.jq", "include \"n\"; def f: 1;"), ("n.jq", "def h: 2;")], "include \"m\"; h", "inclusion is not transitive"),
        (&[("m.jq", "include \"m\"; def f: 1;")], "include \"m\"; f", "a module that includes itself"),
        (&[("m.jq", "include \"n\"; def f: 1;"), ("n.jq", "include \"m\"; def g: 2;")], "include \"m\"; f", "circular inclusion of length 2"),
        (&[("m.jq", "import \"n\" as n; def f: 1;"), ("n.jq", "import \"o\" as o; def g: 2;"), ("o.jq", "import \"m\" as m; def h: 3;")], "import \"m\" as m; m::f", "circular import of length 3"),
        (&[("m.jq", "def f: 1;")], "include \"ABS/m\"; f", "an absolute path is refused"),
        (&[("m.jq", "def f: 1;")], "include \"nonexistent\"; 1", "a module that does not exist"),
        (&[("d.json", "1 2")], "import \"ABS/d\" as $d; $d", "an absolute data path is refused"),
        (&[("m.jq", "def f: 1; 2")], "include \"m\"; f", "a module with a main filter"),
        (&[("m.jq", "def f: $__loc__; def g(")], "include \"m\"; f", "a module with a syntax error"),
    ];
    if i >= cases.len() {
        return Ok(CaseOk::trivial());
    }
    let (files, main, what) = cases[i];
    let dir = root.join(format!("n-{i}"));
    let _ = std::fs::create_dir_all(&dir);
    for (n, c) in files.iter() {
        let _ = std::fs::write(dir.join(n), c);
    }
    let main = main.replace("ABS", &dir.to_string_lossy());
    let t0 = std::time::Instant::now();
    // (a small stack: a cycle must be reported, not looped on until the stack overflows)
    let out = Cmd::new("/bin/sh").arg("-c").arg("ulimit -s 1024; exec \"$0\" -L . -nc \"$1\"").arg(cli::jaq_bin()).arg(&main).cwd(&dir).env("NO_COLOR", "1").run();
    let _ = std::fs::remove_dir_all(&dir);
    let out = out.map_err(|e| CaseFail::new("harness-spawn", e.to_string(), json!({})))?;
    let case = json!({"files": files.iter().map(|(n, c)| json!({"name": n, "text": c})).collect::<Vec<_>>(), "main": main, "rule": what});
    if out.status != 3 || out.stderr.is_empty() || t0.elapsed().as_secs() > 20 {
        return Err(CaseFail::new("ill-formed-module-use-not-rejected", format!("{what}: expected a compile-time error (exit 3), got exit {} {} {}", out.status, out.out_str().trim(), out.err_str().chars().take(200).collect::<String>()), case));
    }
    Ok(CaseOk::new(true, i as u64).class("rejected-at-compile-time").desc(Some(case)))
}

/// a tower of `layers` modules, each reaching the next one by three routes: 3^layers routes to the leaf
fn tower(i: usize, root: &Path) -> CaseResult {
    let layers = [3usize, 12, 40][i.min(2)];
    let dir = root.join(format!("t-{i}"));
    let _ = std::fs::create_dir_all(&dir);
    for l in 0..=layers {
        let text = if l < layers { format!("include \"m{n}\"; import \"m{n}\" as a; import \"m{n}\" as b;\ndef f{l}: [{l}, f{n}] | length; def g{l}: a::g{n} + b::g{n} * 0 + 1;\n", n = l + 1) } else { format!("def f{l}: 1; def g{l}: 0;") };
        let _ = std::fs::write(dir.join(format!("m{l}.jq")), text);
    }
    let t0 = std::time::Instant::now();
    // g0 makes 2^layers calls when run: only the small towers evaluate it
    let main = if layers <= 12 { "include \"m0\"; [f0, g0]" } else { "include \"m0\"; [f0, 40]" };
    // (20 s against the 0.05 s that loading every module once takes; 3^40 loads would never finish)
    let out = Cmd::new("/usr/bin/timeout").args(["20".as_ref(), cli::jaq_bin().as_os_str(), "-L".as_ref(), ".".as_ref(), "-nc".as_ref(), main.as_ref()]).cwd(&dir).env("NO_COLOR", "1").run();
    let _ = std::fs::remove_dir_all(&dir);
    let out = out.map_err(|e| CaseFail::new("harness-spawn", e.to_string(), json!({})))?;
    let case = json!({"layers": layers, "module_l": "include \"m<l+1>\"; import \"m<l+1>\" as a; import \"m<l+1>\" as b; def f<l>: [<l>, f<l+1>] | length; def g<l>: a::g<l+1> + b::g<l+1> * 0 + 1;", "main": main});
    let want = format!("[2,{layers}]");
    if out.status == 124 {
        return Err(CaseFail::new("shared-module-loaded-once-per-route", format!("a tower of {layers} modules with three routes per layer was not loaded within 20 s"), case));
    }
    if out.status != 0 || out.out_str().trim() != want {
        return Err(CaseFail::new("shared-module-wrong-result", format!("expected {want}, got exit {} {} {}", out.status, out.out_str().trim(), out.err_str().chars().take(200).collect::<String>()), case));
    }
    Ok(CaseOk::new(true, 100 + i as u64).class("module-reached-by-3^n-routes").desc(Some(json!({"layers": layers, "seconds": t0.elapsed().as_secs_f64()}))))
}

pub fn run(mut rep: Report) -> ! {
    rep.set_rule(
        "(a) module graphs: 1-4 modules in their own directories plus a main program (inline or -f file), each edge an include or an import with alias, found through per-directive search metadata (relative to the importing file / working directory) or through -L paths; each module defines 1-3 filters with names from a pool that clashes across modules and with built-ins (f, g, h, length, tojson, keys, first, not) plus filters with a filter parameter; bodies refer to own earlier definitions, included definitions, imported ones (alias::f), the module's data variable ($d bound by `import \"d\" as $d {search: \".\"}` - the same directive in several modules resolves to different files), the global --arg variable, and are called from under binders with closures over local variables; expected output = the inlined single program generated alongside (references resolved by the harness from the documented rules, definitions renamed apart), run without modules; \
         (b) look-up: directive shapes (include/import/data import; names with and without extension, with a directory; search metadata as string or array with ~ and $ORIGIN; in the inline main program, a main file, or a module) x 0-2 -L paths (else the default paths ~/.jq, $ORIGIN/../lib/jq, $ORIGIN/../lib, with HOME and a copied binary under the harness' control): the file is placed in a random non-empty subset of the candidate directories, each copy naming itself; the harness predicts the copy that is loaded; \
         (c) 17 ill-formed uses (visibility across modules, prefixes, arity, non-transitive inclusion, cycles of length 1-3 under a 1 MiB stack, absolute paths, missing files, module with main filter or syntax error) must be rejected with a compile-time error; \
         non-trivial = graph with >= 2 modules and a diamond, a name clash or a data import (a), file present in >= 2 candidate directories (b), every negative (c)",
    );
    rep.assume("the inlined program is evaluated by the same binary (the evaluator itself is C01's business); inclusion is not transitive (a module's includes are not visible to its includer), as observed and as the negative list asserts");
    let scratch = Scratch::new("c16");
    let root = scratch.path.clone();
    let n = rep.n(1_500, 20_000);
    {
        let r = root.clone();
        rep.random("module-graphs", n, 160, move |src| graph_case(src, &r));
    }
    {
        let r = root.clone();
        rep.random("lookup-order", n, 64, move |src| lookup_case(src, &r));
    }
    {
        let r = root.clone();
        rep.fixed("ill-formed-uses", 17, move |i| negative(i, &r));
    }
    {
        // loading is not run under the harness' case watchdog only: a tower that is loaded once per route never finishes
        let r = root.clone();
        rep.fixed("module-loaded-once", 3, move |i| tower(i, &r));
    }
    drop(scratch);
    rep.finish()
}
