//! C17 — the command line prints each output once, in order, and reports the true outcome.
//!
//! Model-based testing of the `jaq` process: a model of the command line (input accounting
//! between the main loop and `input`/`inputs` per file, stop at the first error, exit status table,
//! variable options, output terminators) predicts stdout and the exit status from the outputs that
//! the *library* yields for the same filter; the implementation is the binary built from the tree.
//! Plus interactive scenarios that observe *when* outputs are written (flush per output).

use serde_json::json;
use std::cell::RefCell;
use std::collections::VecDeque;
use std::io::{BufRead, BufReader, Read, Write};
use std::process::{Command, Stdio};
use std::rc::Rc;
use vcore::cli::{self, Cmd, Scratch};
use vcore::jq::{self, Out};
use vcore::mval::{int, tstr, MVal};
use vcore::runner::{fnv_str, CaseFail, CaseOk, CaseResult, Report};
use vcore::Src;

use jaq_all::data::{Ctx, Data, Filter, Runner};
use jaq_core::Vars;
use jaq_json::Val;
use jaq_std::input::RcIter;

/// filters around input accounting, errors after k outputs, halts, variables (placeholders: FILE, ENVX)
const FILTERS: &[&str] = &[
    ".", "., .", "empty", "[., input]", "input", "[inputs]", "first(inputs)", "., (input | [.])", "limit(1; inputs)", "[., (inputs | tostring)]", "[.]", "., error(\"x\")", "if . == 2 then error(\"e\") else . end", "if . == 3 then error else . end", "., halt",
    "if . == 3 then halt(7) else . end", "if . == \"a\" then halt(300) else . end", "select(. != null)", ".[]?", "FILE", "[$a, $b]", "ENVX", "length?", "try error(\"c\") catch .", "(1, 2) | tostring", "\"s\\(.)\"", "{a: ., b: [.]}", "false", "null", "., false",
    "$ARGS.named", "if . == 1 then (input | empty) else . end", "[limit(2; ., inputs)]", "., (if . == 2 then \"two\" | halt_error else empty end)", "if . == null then {b: 1, a: 2} else . end", "(., input) as $x | [$x]", "reduce inputs as $x (.; [., $x])", "if . == 4 then 1 | halt_error(9) else . end",
];

#[derive(Clone, Debug)]
struct FileSpec {
    name: String,
    values: Vec<MVal>,
    /// garbage after `values` (a parse error at that position)
    garbled: bool,
    missing: bool,
}

#[derive(Clone, Debug, Default)]
struct OutOpts {
    compact: bool,
    raw: bool,
    join: bool,
    raw0: bool,
    tab: bool,
    indent: Option<usize>,
    sort: bool,
}

impl OutOpts {
    /// the printed form of one output, as the manual describes the options: -r, -j and --raw-output0 print
    /// top-level strings as they are; -c wins over --tab, --tab over --indent; -S sorts keys; every output is
    /// followed by NUL with --raw-output0, by nothing with -j, by a line break otherwise
    fn render(&self, v: &MVal) -> Vec<u8> {
        let mut b = Vec::new();
        match v {
            MVal::TStr(s) | MVal::BStr(s) if self.raw || self.join || self.raw0 => b.extend(s),
            _ => {
                let indent = if self.compact { None } else if self.tab { Some("\t".to_string()) } else { Some(" ".repeat(self.indent.unwrap_or(2))) };
                let pp = jaq_json::write::Pp { indent, sort_keys: self.sort, sep_space: !self.compact, styles: Default::default() };
                jaq_json::write::write(&mut b, &pp, 0, &v.to_val()).unwrap();
            }
        }
        b.extend(if self.raw0 { &b"\0"[..] } else if self.join { &b""[..] } else { &b"\n"[..] });
        b
    }
    fn any(&self) -> bool {
        self.compact || self.raw || self.join || self.raw0 || self.tab || self.indent.is_some() || self.sort
    }
}

#[derive(Clone, Debug)]
struct Scenario {
    filter: String,
    files: Vec<FileSpec>,
    stdin: bool,
    null_input: bool,
    slurp: bool,
    exit_status: bool,
    /// output options, any subset: -c, -r, -j, --raw-output0, --tab, --indent n, -S
    out: OutOpts,
    /// spelling variants of the options
    clustered: bool,
    opts_after_filter: bool,
}

fn gen_value(src: &mut Src) -> MVal {
    match src.below(10) {
        0 => MVal::Null,
        1 => MVal::Bool(false),
        2 => tstr("a"),
        3 => tstr("b c\n\"q\""),
        4 => MVal::Arr(vec![int(1), tstr("x")]),
        5 => MVal::Obj(vec![(tstr("b"), int(1)), (tstr("a"), MVal::Arr(vec![]))]),
        _ => int(src.range(1, 4)),
    }
}

fn gen_scenario(src: &mut Src) -> Scenario {
    let filter = src.pick(FILTERS).to_string();
    let nf = 1 + src.below(3);
    let stdin = src.chance(60);
    let mut files = Vec::new();
    for i in 0..(if stdin { 1 } else { nf }) {
        let n = src.below(5);
        files.push(FileSpec { name: format!("f{i}.json"), values: (0..n).map(|_| gen_value(src)).collect(), garbled: src.chance(28), missing: !stdin && src.chance(10) });
    }
    Scenario {
        filter,
        files,
        stdin,
        null_input: src.chance(60),
        slurp: src.chance(40),
        exit_status: src.chance(90),
        out: {
            let raw0 = src.chance(40);
            OutOpts {
                compact: src.chance(128),
                // (-r together with --raw-output0 would depend on the order of the two options: not generated)
                raw: !raw0 && src.chance(60),
                join: src.chance(50),
                raw0,
                tab: src.chance(30),
                indent: if src.chance(40) { Some(src.below(5)) } else { None },
                sort: src.chance(50),
            }
        },
        clustered: src.bool(),
        opts_after_filter: src.bool(),
    }
}

/// one run of the main filter with a shared queue of remaining inputs
fn run_shared(f: &Filter, vars: Vec<Val>, input: Val, queue: &Rc<RefCell<VecDeque<Result<Val, String>>>>) -> Vec<Out> {
    let runner = Runner::default();
    let q = queue.clone();
    let it: Box<dyn Iterator<Item = Result<Val, String>>> = Box::new(std::iter::from_fn(move || q.borrow_mut().pop_front()));
    let rc = RcIter::new(it);
    let data = Data { runner: &runner, lut: &f.lut, inputs: &rc };
    let ctx = Ctx::new(&data, Vars::new(vars));
    let mut outs = Vec::new();
    for r in f.id.run((ctx, input)).take(500) {
        match r {
            Ok(v) => outs.push(Out::Val(v)),
            Err(e) => {
                outs.push(match e.get_err() {
                    Ok(err) => Out::Err(err.into_val()),
                    Err(e) => match e.get_halt() {
                        Ok(c) => Out::Halt(c),
                        Err(_) => Out::Escape("escape".into()),
                    },
                });
                break;
            }
        }
    }
    outs
}

struct Expected {
    outputs: Vec<MVal>,
    status: i32,
    /// something must have been written to stderr
    stderr: bool,
}

const ARG_A: &str = "va l";
const ARG_B: &str = "{\"k\":[1,2]}";

fn model(sc: &Scenario) -> Result<Expected, String> {
    let named = MVal::Obj(vec![(tstr("a"), tstr(ARG_A)), (tstr("b"), MVal::from_val(&jaq_json::read::parse_single(ARG_B.as_bytes()).unwrap()))]);
    let mut outputs = Vec::new();
    let mut stderr = false;
    for file in &sc.files {
        if file.missing {
            return Ok(Expected { outputs, status: 2, stderr: true });
        }
        let fname = if sc.stdin { "<stdin>".to_string() } else { file.name.clone() };
        let code = sc.filter.replace("FILE", &format!("{:?}", fname)).replace("ENVX", "\"env value\"");
        let f = jq::compile(&code, &["a", "b", "ARGS"]).map_err(|e| format!("model filter does not compile: {e}"))?;
        let vars = || vec![MVal::TStr(ARG_A.as_bytes().to_vec()).to_val(), named_b(), MVal::Obj(vec![(tstr("positional"), MVal::Arr(vec![])), (tstr("named"), named.clone())]).to_val()];
        // the stream of input values of this file
        let mut items: VecDeque<Result<Val, String>> = VecDeque::new();
        if sc.slurp {
            if file.garbled {
                items.push_back(Err("parse error".into()));
            } else {
                items.push_back(Ok(MVal::Arr(file.values.clone()).to_val()));
            }
        } else {
            for v in &file.values {
                items.push_back(Ok(v.to_val()));
            }
            if file.garbled {
                items.push_back(Err("parse error".into()));
            }
        }
        let queue = Rc::new(RefCell::new(items));
        let mut first = true;
        loop {
            let input = if sc.null_input {
                if !first {
                    break;
                }
                Val::Null
            } else {
                let next = queue.borrow_mut().pop_front();
                match next {
                    None => break,
                    Some(Ok(v)) => v,
                    // an input value that does not parse ends the run
                    Some(Err(_)) => return Ok(Expected { outputs, status: 5, stderr: true }),
                }
            };
            first = false;
            for o in run_shared(&f, vars(), input, &queue) {
                match o {
                    Out::Val(v) => outputs.push(MVal::from_val(&v)),
                    Out::Err(_) => return Ok(Expected { outputs, status: 5, stderr: true }),
                    Out::Halt(c) => {
                        // halt_error writes its input to stderr first
                        let he = sc.filter.contains("halt_error");
                        return Ok(Expected { outputs, status: c & 0xff, stderr: stderr || he });
                    }
                    Out::Escape(e) | Out::Panic(e) => return Err(format!("model run: {e}")),
                }
            }
        }
        let _ = &mut stderr;
    }
    let status = if sc.exit_status {
        match outputs.last() {
            None => 4,
            Some(MVal::Null) | Some(MVal::Bool(false)) => 1,
            Some(_) => 0,
        }
    } else {
        0
    };
    Ok(Expected { outputs, status, stderr })
}

fn named_b() -> Val {
    jaq_json::read::parse_single(ARG_B.as_bytes()).unwrap()
}

fn sort_keys(v: &MVal) -> MVal {
    match v {
        MVal::Arr(a) => MVal::Arr(a.iter().map(sort_keys).collect()),
        MVal::Obj(o) => {
            let mut o2: Vec<(MVal, MVal)> = o.iter().map(|(k, v)| (k.clone(), sort_keys(v))).collect();
            o2.sort_by(|a, b| vcore::mval::cmp_m(&a.0, &b.0));
            MVal::Obj(o2)
        }
        other => other.clone(),
    }
}

fn raw_or_json(v: &MVal) -> Vec<u8> {
    match v {
        MVal::TStr(b) | MVal::BStr(b) => b.clone(),
        other => other.xjon(),
    }
}

fn cli_case(src: &mut Src, scratch_root: &std::path::Path) -> CaseResult {
    let sc = gen_scenario(src);
    let sample = src.sample;
    let dir = scratch_root.join(format!("case-{:?}-{}", std::thread::current().id(), src.u32())).to_string_lossy().replace(['(', ')'], "");
    let _ = std::fs::create_dir_all(&dir);
    let cleanup = |d: &str| {
        let _ = std::fs::remove_dir_all(d);
    };
    let mut stdin_bytes = Vec::new();
    for f in &sc.files {
        let mut b = Vec::new();
        for v in &f.values {
            b.extend(v.xjon());
            b.push(*src.pick(b" \n\t"));
        }
        if f.garbled {
            b.extend_from_slice(*src.pick(&[&b"{"[..], b"]", b"[1,", b"\"abc", b"nul", b"}"]));
        }
        if sc.stdin {
            stdin_bytes = b;
        } else if !f.missing {
            std::fs::write(format!("{dir}/{}", f.name), &b).map_err(|e| CaseFail::new("harness", e.to_string(), json!({})))?;
        }
    }
    // command line
    let mut opts: Vec<String> = Vec::new();
    let mut short = String::new();
    if sc.null_input {
        short.push('n');
    }
    if sc.slurp {
        short.push('s');
    }
    if sc.exit_status {
        short.push('e');
    }
    if sc.out.compact {
        short.push('c');
    }
    if sc.out.raw {
        short.push('r');
    }
    if sc.out.join {
        short.push('j');
    }
    if sc.out.sort {
        short.push('S');
    }
    if sc.out.raw0 {
        opts.push("--raw-output0".into());
    }
    if sc.out.tab {
        opts.push("--tab".into());
    }
    if let Some(n) = sc.out.indent {
        opts.push("--indent".into());
        opts.push(n.to_string());
    }
    if sc.clustered {
        if !short.is_empty() {
            opts.push(format!("-{short}"));
        }
    } else {
        for c in short.chars() {
            opts.push(
                match c {
                    'n' => "--null-input",
                    's' => "--slurp",
                    'e' => "--exit-status",
                    'c' => "--compact-output",
                    'r' => "--raw-output",
                    'j' => "--join-output",
                    'S' => "--sort-keys",
                    _ => unreachable!(),
                }
                .to_string(),
            );
        }
    }
    opts.extend(["--arg".into(), "a".into(), ARG_A.into(), "--argjson".into(), "b".into(), ARG_B.into()]);
    let filter_text = sc.filter.replace("FILE", "input_filename").replace("ENVX", "$ENV.VERIF_X");
    let mut args: Vec<String> = Vec::new();
    if sc.opts_after_filter {
        args.push(filter_text.clone());
        args.extend(opts.clone());
    } else {
        args.extend(opts.clone());
        args.push(filter_text.clone());
    }
    if !sc.stdin {
        let dashdash = src.chance(40);
        if dashdash {
            args.push("--".into());
        }
        for f in &sc.files {
            args.push(f.name.clone());
        }
    }
    let case = || json!({"command": format!("jaq {}", args.iter().map(|a| format!("{a:?}")).collect::<Vec<_>>().join(" ")), "files": sc.files.iter().map(|f| json!({"name": f.name, "values": f.values.iter().map(|v| v.show()).collect::<Vec<_>>(), "garbled": f.garbled, "missing": f.missing})).collect::<Vec<_>>(), "stdin": sc.stdin});
    vcore::runner::note_case(|| case().to_string());
    let exp = match model(&sc) {
        Ok(e) => e,
        Err(e) => {
            cleanup(&dir);
            return Err(CaseFail::new("harness-model", e, case()));
        }
    };
    let out = Cmd::jaq().args(args.iter().map(|s| s.as_str())).cwd(&dir).env("VERIF_X", "env value").stdin(stdin_bytes).run();
    cleanup(&dir);
    let out = out.map_err(|e| CaseFail::new("harness-spawn", e.to_string(), case()))?;
    if out.panicked() {
        return Err(CaseFail::new("cli-panic", out.err_str().chars().take(400).collect::<String>(), case()));
    }
    // stdout
    let want_vals: Vec<MVal> = exp.outputs.clone();
    // exact bytes: each output rendered by the library's printer with the layout the options ask for
    // (C07 decides the printer; here: which layout, which terminator, raw strings or not)
    let want_bytes: Vec<u8> = want_vals.iter().flat_map(|v| sc.out.render(v)).collect();
    let stdout_ok = out.stdout == want_bytes;
    if !stdout_ok {
        return Err(CaseFail::new("cli-stdout", format!("stdout is {:?}, expected the outputs [{}]", String::from_utf8_lossy(&out.stdout).chars().take(300).collect::<String>(), want_vals.iter().map(|v| v.show()).collect::<Vec<_>>().join(" ")), case()));
    }
    if out.status != exp.status {
        return Err(CaseFail::new("cli-exit-status", format!("exit status {} instead of {} (stderr: {})", out.status, exp.status, out.err_str().chars().take(200).collect::<String>()), case()));
    }
    if exp.stderr && out.stderr.is_empty() {
        return Err(CaseFail::new("cli-silent-failure", format!("exit status {} without any message on stderr", out.status), case()));
    }
    if !exp.stderr && !matches!(exp.status, 2 | 3 | 5) && !out.stderr.is_empty() && !sc.filter.contains("halt") {
        return Err(CaseFail::new("cli-unexpected-stderr", out.err_str().chars().take(300).collect::<String>(), case()));
    }
    let interacting = (sc.null_input as usize) + (sc.slurp as usize) + (sc.exit_status as usize) + sc.out.any() as usize >= 2;
    let accounting = sc.filter.contains("input") || sc.filter.contains("halt") || sc.filter.contains("error");
    let truncated = sc.files.iter().any(|f| f.garbled && !f.values.is_empty());
    let mut ok = CaseOk::new(interacting || accounting || truncated, fnv_str(&[&args.join(" "), &format!("{:?}", sc.files)]))
        .class(match exp.status { 0 => "exit-0", 1 => "exit-1", 2 => "exit-2", 4 => "exit-4", 5 => "exit-5", _ => "exit-halt-code" })
        .class(if sc.stdin { "stdin" } else if sc.files.len() > 1 { "several-files" } else { "one-file" });
    if accounting {
        ok = ok.class("input-accounting-or-early-end");
    }
    if truncated {
        ok = ok.class("input-truncated-after-values");
    }
    if sample {
        ok = ok.desc(Some(json!({"command": case()["command"], "stdout": String::from_utf8_lossy(&out.stdout).chars().take(120).collect::<String>(), "status": out.status})));
    }
    Ok(ok)
}

// ---------------------------------------------------------------- which decoder reads an input

const IN_EXTS: &[&str] = &["json", "txt", "yaml", "csv", "tsv", "dat"];
const IN_OPTS: &[&[&str]] = &[&[], &["-R"], &["--raw-input"], &["--raw-input0"], &["--from", "json"], &["--from", "raw"], &["--from", "yaml"], &["--from", "csv"]];
const IN_CONTENTS: &[&str] = &["1 2\n[3]\n", "\"x\"\n\"y z\"", "a,b\n1,2\n", "k: v\n", "1\u{0}2\u{0}", "", "true"];

/// The decoder applied to an input is the one the input-format option names; without such an option, the
/// one the file extension names; JSON otherwise (and always for standard input).
fn input_format_case(i: u64, sample: bool, root: &std::path::Path) -> CaseResult {
    let (ne, no, nc) = (IN_EXTS.len() as u64, IN_OPTS.len() as u64, IN_CONTENTS.len() as u64);
    let (ext, opt, content, slurp, stdin) = (IN_EXTS[(i % ne) as usize], IN_OPTS[((i / ne) % no) as usize], IN_CONTENTS[((i / (ne * no)) % nc) as usize], (i / (ne * no * nc)) % 2 == 1, (i / (ne * no * nc * 2)) % 2 == 1);
    // the filter either takes the values one by one, or pairs them up with `input` (which polls the
    // decoder once more after its last value when their number is odd)
    let pairing = (i / (ne * no * nc * 4)) % 2 == 1;
    let format = match opt {
        [] if stdin => "json",
        [] => match ext {
            "json" | "yaml" | "csv" | "tsv" => ext,
            _ => "json",
        },
        ["-R"] | ["--raw-input"] => "raw",
        ["--raw-input0"] => "raw0",
        [_, f] => f,
        _ => unreachable!(),
    };
    // what that decoder makes of the bytes (the decoders themselves are C14's and C07's business)
    let text = MVal::TStr(content.as_bytes().to_vec());
    let decode = |prog: &str| -> Result<Vec<MVal>, ()> {
        match jq::eval(prog, &[], text.to_val(), 100) {
            Ok(outs) if outs.iter().all(|o| matches!(o, Out::Val(_))) => Ok(outs.iter().filter_map(|o| o.val().map(MVal::from_val)).collect()),
            _ => Err(()),
        }
    };
    let values: Result<Vec<MVal>, ()> = match format {
        "json" => jaq_json::read::parse_many(content.as_bytes()).collect::<Result<Vec<Val>, _>>().map(|v| v.iter().map(MVal::from_val).collect()).map_err(|_| ()),
        "yaml" => decode("fromyaml"),
        "csv" => decode("fromcsv"),
        "tsv" => decode("fromtsv"),
        // lines without their terminator; a last line without terminator counts
        "raw" if slurp => Ok(vec![text.clone()]),
        "raw" => Ok(content.split_inclusive('\n').map(|l| MVal::TStr(l.strip_suffix('\n').unwrap_or(l).as_bytes().to_vec())).collect()),
        // (with --slurp the NUL-separated records are collected into an array, unlike the lines of --raw-input)
        _ => Ok(content.split_inclusive('\u{0}').map(|l| MVal::TStr(l.strip_suffix('\u{0}').unwrap_or(l).as_bytes().to_vec())).collect()),
    };
    let dir = root.join(format!("in-{i}"));
    let _ = std::fs::create_dir_all(&dir);
    let name = format!("input.{ext}");
    let _ = std::fs::write(dir.join(&name), content);
    let mut args: Vec<String> = vec!["-c".into()];
    args.extend(opt.iter().map(|s| s.to_string()));
    if slurp {
        args.push("-s".into());
    }
    args.push(if pairing { "[., input]".into() } else { ".".into() });
    if !stdin {
        args.push(name.clone());
    }
    let case = json!({"command": format!("jaq {}{}", args.iter().map(|a| format!("{a:?}")).collect::<Vec<_>>().join(" "), if stdin { " < input" } else { "" }), "content": content, "expected_decoder": format});
    vcore::runner::note_case(|| case.to_string());
    let out = Cmd::jaq().args(args.iter().map(|s| s.as_str())).cwd(&dir).stdin(if stdin { content.as_bytes().to_vec() } else { Vec::new() }).run();
    let _ = std::fs::remove_dir_all(&dir);
    let out = out.map_err(|e| CaseFail::new("harness-spawn", e.to_string(), case.clone()))?;
    match values {
        // the decoder rejects the bytes: so must the command line (exit 5 or 2), having printed nothing that is not a value of a prefix
        Err(()) => {
            if out.status == 0 {
                return Err(CaseFail::new("cli-input-decoder", format!("the {format} decoder rejects this input, but jaq exits 0 with {:?}", out.out_str().chars().take(200).collect::<String>()), case));
            }
            Ok(CaseOk::new(true, i).class("input-rejected-by-the-selected-decoder"))
        }
        Ok(vals) => {
            let vals: Vec<MVal> = if slurp && format != "raw" { vec![MVal::Arr(vals)] } else { vals };
            let vals: Vec<MVal> = if pairing { vals.chunks(2).map(|c| MVal::Arr(c.to_vec())).collect() } else { vals };
            let want: Vec<u8> = vals.iter().flat_map(|v| OutOpts { compact: true, ..Default::default() }.render(v)).collect();
            if out.status != 0 || out.stdout != want {
                return Err(CaseFail::new("cli-input-decoder", format!("expected the input to be read as {format}: {:?}; jaq printed {:?} (exit {}, {})", String::from_utf8_lossy(&want), out.out_str().chars().take(300).collect::<String>(), out.status, out.err_str().chars().take(200).collect::<String>()), case));
            }
            let mut ok = CaseOk::new(true, i).class(if opt.is_empty() { "decoder-from-extension-or-default" } else { "decoder-from-option" });
            if !opt.is_empty() && matches!(ext, "json" | "yaml" | "csv" | "tsv") && ext != format {
                ok = ok.class("option-and-extension-name-different-formats");
            }
            if sample {
                ok = ok.desc(Some(case));
            }
            Ok(ok)
        }
    }
}

// ---------------------------------------------------------------- interactive scenarios: when are outputs written?

fn read_line_timeout(rx: &std::sync::mpsc::Receiver<Vec<u8>>, ms: u64) -> Option<Vec<u8>> {
    rx.recv_timeout(std::time::Duration::from_millis(ms)).ok()
}

/// stdout and stderr share one pipe: what jaq writes must appear in the order it was computed
fn merged_order(i: usize) -> CaseResult {
    let progs: &[(&str, &[&str])] = &[
        ("1, (\"x\" | debug | empty), 2, (\"y\" | stderr | empty), 3", &["1", "[\"DEBUG:\",\"x\"]", "2", "y3"]),
        ("range(3) | ., (tostring | debug | empty)", &["0", "[\"DEBUG:\",\"0\"]", "1", "[\"DEBUG:\",\"1\"]", "2", "[\"DEBUG:\",\"2\"]"]),
        ("\"a\", \"b\", (\"bye\" | halt_error(0))", &["\"a\"", "\"b\"", "bye"]),
        ("1, 2, error(\"stop\")", &["1", "2", "Error: \"stop\""]),
    ];
    let (prog, want) = progs[i];
    let bin = cli::jaq_bin();
    let out = Command::new("/bin/sh").arg("-c").arg("exec \"$0\" -nc \"$1\" 2>&1").arg(&bin).arg(prog).env_clear().env("NO_COLOR", "1").output().map_err(|e| CaseFail::new("harness-spawn", e.to_string(), json!({})))?;
    let text = String::from_utf8_lossy(&out.stdout).into_owned();
    let lines: Vec<&str> = text.lines().collect();
    let case = json!({"command": format!("jaq -nc {prog:?} 2>&1"), "observed": lines, "expected_order": want});
    let squeeze = |s: &str| s.replace(' ', "");
    if lines.len() < want.len() || !lines.iter().zip(want.iter()).all(|(l, w)| squeeze(l) == squeeze(w)) {
        return Err(CaseFail::new("cli-output-order", "outputs and messages do not appear in the order in which they were computed (an output must be written completely before the next one is computed)", case));
    }
    Ok(CaseOk::new(true, fnv_str(&[prog])).class("merged-stdout-stderr-order").desc(Some(case)))
}

/// a conversation over pipes: each output must arrive before jaq reads the next input
fn conversation(i: usize) -> CaseResult {
    // (filter, script: Expect(line) / Send(text) / Close)
    enum Step {
        Expect(&'static str),
        Send(&'static str),
        Close,
        End(i32),
    }
    use Step::*;
    let convs: Vec<(&str, &[&str], Vec<Step>)> = vec![
        ("\"ready\", (input | . + 1), \"again\", input", &["-nc"], vec![Expect("\"ready\""), Send("1\n"), Expect("2"), Expect("\"again\""), Send("5 "), Close, Expect("5"), End(0)]),
        (". * 2", &["-c"], vec![Send("1\n"), Expect("2"), Send("2\n"), Expect("4"), Send("[\n"), Close, End(5)]),
        (".[]", &["-c"], vec![Send("[1,2]\n"), Expect("1"), Expect("2"), Send("3 "), Close, End(5)]),
        ("., input", &["-c"], vec![Send("1 2\n"), Expect("1"), Expect("2"), Send("3\n"), Expect("3"), Close, End(0)]),
        ("foreach inputs as $x (0; . + $x)", &["-nc"], vec![Send("1\n"), Expect("1"), Send("2\n"), Expect("3"), Send("10\n"), Expect("13"), Close, End(0)]),
        ("first(inputs | select(. > 1)), \"done\"", &["-nc"], vec![Send("1\n2\n"), Expect("2"), Expect("\"done\""), Close, End(0)]),
    ];
    let (filter, opts, script) = &convs[i];
    let mut child = Command::new(cli::jaq_bin()).args(opts.iter()).arg(filter).env_clear().env("NO_COLOR", "1").stdin(Stdio::piped()).stdout(Stdio::piped()).stderr(Stdio::piped()).spawn().map_err(|e| CaseFail::new("harness-spawn", e.to_string(), json!({})))?;
    let mut stdin = child.stdin.take();
    let stdout = child.stdout.take().unwrap();
    let mut stderr = child.stderr.take().unwrap();
    let (tx, rx) = std::sync::mpsc::channel::<Vec<u8>>();
    std::thread::spawn(move || {
        let mut r = BufReader::new(stdout);
        loop {
            let mut line = Vec::new();
            match r.read_until(b'\n', &mut line) {
                Ok(0) | Err(_) => break,
                Ok(_) => {
                    if tx.send(line).is_err() {
                        break;
                    }
                }
            }
        }
    });
    let errt = std::thread::spawn(move || {
        let mut b = Vec::new();
        let _ = stderr.read_to_end(&mut b);
        b
    });
    let mut log: Vec<String> = Vec::new();
    let case = |log: &Vec<String>| json!({"command": format!("jaq {} {filter:?}", opts.join(" ")), "conversation": log});
    let mut result: Result<(), CaseFail> = Ok(());
    for step in script {
        match step {
            Send(t) => {
                log.push(format!("send {t:?}"));
                if let Some(s) = stdin.as_mut() {
                    let _ = s.write_all(t.as_bytes());
                    let _ = s.flush();
                }
            }
            Close => {
                log.push("close stdin".into());
                stdin = None;
            }
            Expect(w) => match read_line_timeout(&rx, 5000) {
                Some(l) if String::from_utf8_lossy(&l).trim_end() == *w => log.push(format!("got {w:?}")),
                Some(l) => {
                    log.push(format!("got {:?} instead of {w:?}", String::from_utf8_lossy(&l)));
                    result = Err(CaseFail::new("cli-conversation-wrong-output", "unexpected output", case(&log)));
                    break;
                }
                None => {
                    log.push(format!("no output within 5 s, expected {w:?} before sending more input"));
                    result = Err(CaseFail::new("cli-output-not-written-before-next-input", "an output was not written when it was computed: jaq waits for more input while holding it back", case(&log)));
                    break;
                }
            },
            End(code) => {
                let st = child.wait().map_err(|e| CaseFail::new("harness", e.to_string(), json!({})))?;
                if st.code() != Some(*code) {
                    log.push(format!("exit status {:?} instead of {code}", st.code()));
                    result = Err(CaseFail::new("cli-exit-status", "wrong exit status at the end of the conversation", case(&log)));
                }
            }
        }
    }
    drop(stdin);
    let _ = child.kill();
    let _ = child.wait();
    let _ = errt.join();
    result?;
    Ok(CaseOk::new(true, fnv_str(&[filter])).class("conversation-over-pipes").desc(Some(case(&log))))
}

pub fn run(mut rep: Report) -> ! {
    rep.set_rule(
        "command lines generated from: 38 filters built around input accounting (input, inputs, first(inputs), folds over inputs), errors and halts after k outputs, halt codes, halt_error, variables ($a, $b, $ARGS.named, $ENV), input_filename; 1-3 input files or standard input with 0-4 values each, a parse error after the k-th value, a missing file; -n, -s, -e; any subset of the output options -c, -r, -j, --raw-output0, --tab, --indent n, -S (except -r with --raw-output0); clustered short options vs long options, options before vs after the filter, `--` before the files. \
         The model computes, from the outputs the library yields for the same filter with a shared per-file input queue, the exact stdout bytes (each output rendered by the library's printer with the layout that the option subset asks for, raw strings and terminators by the documented rules), the exit status (0; -e: 1/4; 2 missing file; 5 run-time and input-parse errors; halt codes modulo 256) and whether stderr must be non-empty. \
         Input decoder selection: 6 file extensions x 8 input-format option spellings (none, -R, --raw-input, --raw-input0, --from json/raw/yaml/csv) x 7 contents x -s x file/stdin x filter `.` / `[., input]` (pairing polls the decoder past its last value): the input must be read by the decoder the option names, else the one the extension names, else JSON (library decoders give the expected values). Interactive scenarios: stdout and stderr merged into one pipe must show outputs and messages in computation order; conversations over pipes in which each output has to arrive before the next input is sent. \
         non-trivial = at least two interacting options, or a filter that consumes inputs / ends early, or an input truncated after at least one value; distinct by (command line, file contents)",
    );
    rep.assume("the output values themselves come from the library run of the same filter (C01 decides those); how a value is printed in a given layout is C07's business - here the library's printer renders the expected bytes");
    rep.assume("conversations use a 5 s limit per expected line; jaq answers within milliseconds when it flushes after every output");
    let scratch = Scratch::new("c17");
    let root = scratch.path.clone();
    let n = rep.n(4_000, 400_000);
    rep.random("command-lines", n, 64, move |src| cli_case(src, &root));
    {
        let r = scratch.path.clone();
        let total = (IN_EXTS.len() * IN_OPTS.len() * IN_CONTENTS.len() * 8) as u64;
        let stride = if rep.quick() { 3 } else { 1 };
        rep.indexed("input-decoder-selection", total, stride, !rep.quick(), move |i, s| input_format_case(i, s, &r));
    }
    rep.fixed("merged-output-order", 4, merged_order);
    rep.fixed("conversations", 6, conversation);
    drop(scratch);
    rep.finish()
}
