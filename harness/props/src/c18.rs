//! C18 — `--in-place` replaces a file only by the complete output, only after complete success.
//!
//! Generated scenarios (1-3 files, path styles, permission bits, umask, output options, filters that
//! grow/shrink/fail after k outputs/halt/consume `input`, input that stops parsing at value k) are run
//! by the binary (1) plainly, (2) under `strace` to list every system call after start-up, and then
//! (3) once per (system call, occurrence, fault) with the fault injected by strace: the process is
//! killed immediately before the call, or the call fails with an error code. After every run the
//! directory tree is compared with the invariant of the property. Expected new contents = stdout of the
//! same invocation without `--in-place` on that file.

use serde_json::{json, Value};
use std::os::unix::fs::PermissionsExt;
use std::path::{Path, PathBuf};
use vcore::cli::{self, Cmd, Scratch};
use vcore::runner::{fnv_str, CaseFail, CaseOk, CaseResult, Report};
use vcore::Src;

static DIRN: std::sync::atomic::AtomicU64 = std::sync::atomic::AtomicU64::new(0);

const TRACED: &str = "openat,open,creat,write,writev,pwrite64,rename,renameat,renameat2,link,linkat,unlink,unlinkat,chmod,fchmod,fchmodat,ftruncate,truncate,close,mmap,munmap,statx,newfstatat,fstat,fsync,fdatasync,read,pread64,copy_file_range,sendfile";

#[derive(Clone, Copy, Debug, PartialEq)]
enum Kind {
    /// the filter finishes on this file without error
    Ok,
    /// a filter error or a parse error occurs while this file is processed: it must keep its bytes
    Fail,
    /// the filter halts while this file is processed (the manual does not say whether that is a success)
    Halt,
}

#[derive(Clone, Debug)]
struct FileSpec {
    /// as written on the command line
    arg: String,
    /// relative to the scenario directory
    rel: String,
    content: Vec<u8>,
    mode: u32,
    kind: Kind,
    /// stdout of the plain invocation on this file
    new: Vec<u8>,
}

#[derive(Clone, Debug)]
struct Scenario {
    files: Vec<FileSpec>,
    opts: Vec<String>,
    filter: String,
    umask: u32,
}

const VALUES: &[&str] = &["1", "-2.5", "\"text\"", "[1,2,3]", "{\"a\":1,\"b\":[true,null]}", "[]", "{}", "null", "true", "\"é😀\"", "[[1,[2]],{\"k\":\"v\"}]", "100000000000000000000", "\"a\\nb\"", "[1,2,3,4,5,6,7,8,9,10,11,12]"];

fn gen_scenario(src: &mut Src, dir: &Path, thorough: bool) -> Scenario {
    // filter: (text, the value that triggers a failure, kind of failure)
    let (filter, trigger, fkind): (&str, Option<&str>, Kind) = match src.below(14) {
        0 => (".", None, Kind::Ok),
        1 => ("[., .]", None, Kind::Ok),
        2 => ("., .", None, Kind::Ok),
        3 => ("empty", None, Kind::Ok),
        4 => ("type", None, Kind::Ok),
        5 => ("if . == \"BOOM\" then error(\"boom\") else . end", Some("\"BOOM\""), Kind::Fail),
        6 => ("., if . == \"BOOM\" then (1, 2, error) else [.] end", Some("\"BOOM\""), Kind::Fail),
        7 => ("if . == \"BOOM\" then halt else ., . end", Some("\"BOOM\""), Kind::Halt),
        8 => ("if . == \"BOOM\" then (\"bye\" | halt_error(5)) else . end", Some("\"BOOM\""), Kind::Halt),
        9 => ("[., (input? // \"none\")]", None, Kind::Ok),
        10 => ("[., input]", None, Kind::Ok),
        11 => ("[limit(3; repeat(.))]", None, Kind::Ok),
        12 => ("if . == \"BOOM\" then (.a.b.c = 1) else {v: .} end", Some("\"BOOM\""), Kind::Fail),
        _ => ("tojson", None, Kind::Ok),
    };
    let mut opts: Vec<String> = Vec::new();
    match src.below(7) {
        0 => {}
        1 | 2 | 3 => opts.push("-c".into()),
        4 => opts.push("-r".into()),
        5 => opts.push("--tab".into()),
        _ => opts.push("-cS".into()),
    }
    let slurp = src.chance(30);
    if slurp {
        opts.push("-s".into());
    }
    let nfiles = 1 + src.weighted(&[5, 3, 2]);
    let mut files = Vec::new();
    for k in 0..nfiles {
        let (arg, rel) = match src.below(5) {
            0 => (format!("f{k}.json"), format!("f{k}.json")),
            1 => (format!("./d/f{k}.json"), format!("d/f{k}.json")),
            2 => (format!("{}/f{k}.json", dir.display()), format!("f{k}.json")),
            3 => (format!("d/../f{k}.json"), format!("f{k}.json")),
            _ => (format!("g{k}.yaml"), format!("g{k}.yaml")),
        };
        let nvals = src.below(5);
        let mut vals: Vec<String> = (0..nvals).map(|_| src.pick(VALUES).to_string()).collect();
        // a big value now and then (output in several thousand write calls / larger than a pipe buffer)
        if thorough && src.chance(12) {
            vals.push(format!("[{}]", (0..6000).map(|i| i.to_string()).collect::<Vec<_>>().join(",")));
        } else if src.chance(25) {
            vals.push(format!("[{}]", (0..60).map(|i| format!("\"s{i}\"")).collect::<Vec<_>>().join(",")));
        }
        let mut kind = Kind::Ok;
        // the failure position: value number `at` is the trigger / is malformed
        match src.below(10) {
            0 | 1 | 2 if trigger.is_some() && !slurp => {
                let at = src.below(vals.len() + 1);
                vals.insert(at, trigger.unwrap().to_string());
                kind = fkind;
            }
            // (malformed JSON is often well-formed YAML: only .json files get a parse error)
            // (and a filter that reads with `input?` swallows the parse error: not a failing file then)
            3 if !rel.ends_with(".yaml") && !filter.contains("input") => {
                let at = src.below(vals.len() + 1);
                vals.insert(at, src.pick(&["[1,", "{\"a\" 1}", "tru", "\"unterminated", "]", "[1 2]"]).to_string());
                kind = Kind::Fail;
            }
            _ => {}
        }
        let yaml = rel.ends_with(".yaml");
        let sep = if yaml { "\n---\n" } else { *src.pick(&["\n", " ", "\n\n", ""]) };
        let sep = if sep.is_empty() && vals.iter().any(|v| !v.starts_with(['[', '{', '"'])) { "\n" } else { sep };
        let mut content = vals.join(sep).into_bytes();
        if !vals.is_empty() && src.bool() {
            content.push(b'\n');
        }
        let mode = *src.pick(&[0o644, 0o600, 0o444, 0o755, 0o664, 0o666, 0o640, 0o400, 0o604]);
        files.push(FileSpec { arg, rel, content, mode, kind, new: Vec::new() });
    }
    let umask = *src.pick(&[0o022, 0o022, 0o077, 0o002, 0o027]);
    Scenario { files, opts, filter: filter.to_string(), umask }
}

impl Scenario {
    fn reset(&self, dir: &Path) {
        let _ = std::fs::remove_dir_all(dir);
        let _ = std::fs::create_dir_all(dir.join("d"));
        for f in &self.files {
            let p = dir.join(&f.rel);
            let _ = std::fs::write(&p, &f.content);
            let _ = std::fs::set_permissions(&p, std::fs::Permissions::from_mode(f.mode));
        }
    }
    fn argv(&self, in_place: bool, only: Option<usize>) -> Vec<String> {
        let mut a: Vec<String> = Vec::new();
        if in_place {
            a.push("-i".into());
        }
        a.extend(self.opts.iter().cloned());
        a.push(self.filter.clone());
        match only {
            Some(k) => a.push(self.files[k].arg.clone()),
            None => a.extend(self.files.iter().map(|f| f.arg.clone())),
        }
        a
    }
    fn describe(&self) -> Value {
        json!({"command": format!("umask {:03o}; jaq {}", self.umask, self.argv(true, None).iter().map(|a| format!("{a:?}")).collect::<Vec<_>>().join(" ")),
            "files": self.files.iter().map(|f| json!({"path": f.rel, "mode": format!("{:03o}", f.mode), "content": String::from_utf8_lossy(&f.content[..f.content.len().min(300)]), "bytes": f.content.len(), "expected_event": format!("{:?}", f.kind)})).collect::<Vec<_>>()})
    }
}

#[derive(Clone, Debug)]
struct Fault {
    syscall: String,
    when: usize,
    /// None = SIGKILL before the call
    error: Option<&'static str>,
}

impl Fault {
    fn spec(&self) -> String {
        match self.error {
            None => format!("{}:signal=SIGKILL:when={}", self.syscall, self.when),
            Some(e) => format!("{}:error={}:when={}", self.syscall, e, self.when),
        }
    }
}

struct Outcome {
    status: i32,
    killed: bool,
    stderr: String,
    trace: String,
}

fn run_in_place(sc: &Scenario, dir: &Path, trace_file: Option<&Path>, fault: Option<&Fault>) -> std::io::Result<Outcome> {
    // (cd inside the shell: a Command without working directory is spawned with posix_spawn, much cheaper than fork from 16 threads)
    let mut args: Vec<String> = vec!["-c".into(), "umask \"$0\"; cd \"$1\" || exit 99; shift; exec \"$@\"".into(), format!("{:03o}", sc.umask), dir.to_string_lossy().into_owned()];
    if let Some(t) = trace_file {
        args.extend(["strace".into(), "-f".into(), "-o".into(), t.to_string_lossy().into_owned(), "-e".into(), format!("trace={TRACED}")]);
        if let Some(f) = fault {
            args.extend(["-e".into(), format!("inject={}", f.spec())]);
        }
    }
    args.push(cli::jaq_bin().to_string_lossy().into_owned());
    args.extend(sc.argv(true, None));
    let out = Cmd::new("/bin/sh").args(args).env("NO_COLOR", "1").env("HOME", "/nonexistent").env("RUST_BACKTRACE", "0").run()?;
    let trace = trace_file.and_then(|t| std::fs::read_to_string(t).ok()).unwrap_or_default();
    Ok(Outcome { status: out.status, killed: out.signal.is_some() || out.status >= 128, stderr: out.err_str(), trace })
}

/// system calls of the trace in order: (name, line)
fn calls(trace: &str) -> Vec<(String, String)> {
    let mut v = Vec::new();
    for line in trace.lines() {
        let rest = line.trim_start_matches(|c: char| c.is_ascii_digit()).trim_start();
        if rest.starts_with("+++") || rest.starts_with("---") || rest.starts_with("<...") {
            continue;
        }
        if let Some(p) = rest.find('(') {
            let name = &rest[..p];
            if !name.is_empty() && name.chars().all(|c| c.is_ascii_alphanumeric() || c == '_') {
                v.push((name.to_string(), rest.to_string()));
            }
        }
    }
    v
}

struct State {
    /// per file: bytes and mode
    files: Vec<(Option<Vec<u8>>, u32)>,
    leftovers: Vec<String>,
}

fn observe(sc: &Scenario, dir: &Path) -> State {
    let files = sc
        .files
        .iter()
        .map(|f| {
            let p = dir.join(&f.rel);
            (std::fs::read(&p).ok(), std::fs::metadata(&p).map(|m| m.permissions().mode() & 0o7777).unwrap_or(0))
        })
        .collect();
    let mut leftovers = Vec::new();
    for sub in ["", "d"] {
        if let Ok(rd) = std::fs::read_dir(dir.join(sub)) {
            for e in rd.flatten() {
                let name = if sub.is_empty() { e.file_name().to_string_lossy().into_owned() } else { format!("d/{}", e.file_name().to_string_lossy()) };
                if name != "d" && !sc.files.iter().any(|f| f.rel == name) {
                    leftovers.push(name);
                }
            }
        }
    }
    State { files, leftovers }
}

fn show(b: &Option<Vec<u8>>) -> String {
    match b {
        None => "<file missing>".into(),
        Some(b) => format!("{:?} ({} bytes)", String::from_utf8_lossy(&b[..b.len().min(120)]), b.len()),
    }
}

/// The invariant of the property on the state after the process has ended.
fn judge(sc: &Scenario, st: &State, out: &Outcome, fault: Option<&Fault>) -> Result<(), (String, String)> {
    let first_bad = sc.files.iter().position(|f| f.kind != Kind::Ok);
    let mut seen_old = None;
    for (k, f) in sc.files.iter().enumerate() {
        let (bytes, mode) = &st.files[k];
        let is_old = bytes.as_deref() == Some(&f.content[..]);
        let is_new = bytes.as_deref() == Some(&f.new[..]);
        let what = format!("file {} ({:?}) holds {} - original {}, complete output {}", f.rel, f.kind, show(bytes), show(&Some(f.content.clone())), show(&Some(f.new.clone())));
        match f.kind {
            Kind::Ok | Kind::Halt if !(is_old || is_new) => return Err(("file-neither-original-nor-complete-output".into(), what)),
            Kind::Fail if !is_old => return Err(("file-changed-although-its-run-failed".into(), what)),
            _ => {}
        }
        // files are processed in order: after the first one that was not replaced, nothing is replaced
        if let (Some(j), false) = (seen_old, is_old) {
            return Err(("later-file-replaced-after-earlier-kept".into(), format!("file {} was replaced although file {} (processed earlier) was not; {what}", f.rel, sc.files[j as usize].rel)));
        }
        if is_old && !is_new && seen_old.is_none() {
            seen_old = Some(k);
        }
        // after the first failing/halting file nothing is touched
        if let Some(b) = first_bad {
            if k > b && !is_old {
                return Err(("file-after-failing-one-changed".into(), what));
            }
        }
        let completed = !out.killed && out.status == 0;
        if completed && first_bad.is_none() {
            if !is_new {
                return Err(("exit-0-but-file-not-replaced".into(), what));
            }
            if *mode != f.mode {
                return Err(("permission-bits-not-preserved".into(), format!("file {}: mode {:03o} before, {:03o} after a successful run (umask {:03o})", f.rel, f.mode, mode, sc.umask)));
            }
        }
        // files before a failing one keep their new contents (when the run got that far without injected fault)
        if fault.is_none() {
            if let Some(b) = first_bad {
                if k < b && !is_new {
                    return Err(("file-before-failing-one-not-replaced".into(), what));
                }
                if k < b && *mode != f.mode {
                    return Err(("permission-bits-not-preserved".into(), format!("file {}: mode {:03o} before, {:03o} after (umask {:03o})", f.rel, f.mode, mode, sc.umask)));
                }
            }
        }
    }
    if fault.is_none() {
        // (a halting file ends the run before later files are looked at)
        let want_fail = first_bad.map_or(false, |b| sc.files[b].kind == Kind::Fail);
        if want_fail && out.status == 0 {
            return Err(("exit-0-although-a-file-failed".into(), format!("stderr: {}", out.stderr.chars().take(200).collect::<String>())));
        }
        if first_bad.is_none() && out.status != 0 {
            return Err(("in-place-run-fails-where-plain-run-succeeds".into(), format!("exit {} stderr: {}", out.status, out.stderr.chars().take(300).collect::<String>())));
        }
    }
    // on completion (the process ended by itself) no temporary file is left; a killed process may leave one,
    // and so may a process whose unlink was made to fail
    let unlink_fault = fault.map_or(false, |f| f.syscall.starts_with("unlink"));
    if !out.killed && !unlink_fault && !st.leftovers.is_empty() {
        return Err(("temporary-file-left-behind".into(), format!("exit {}; unexpected directory entries: {:?}", out.status, st.leftovers)));
    }
    Ok(())
}

fn errors_for(name: &str) -> &'static [&'static str] {
    match name {
        "write" | "writev" | "pwrite64" => &["ENOSPC", "EINTR", "EIO"],
        "openat" | "open" | "creat" => &["EACCES", "EMFILE"],
        "rename" | "renameat" | "renameat2" | "link" | "linkat" => &["EACCES", "EXDEV"],
        "chmod" | "fchmod" | "fchmodat" => &["EPERM"],
        "statx" | "newfstatat" | "fstat" => &["EACCES"],
        "mmap" => &["ENOMEM"],
        "read" | "pread64" => &["EIO"],
        "close" => &["EIO"],
        "unlink" | "unlinkat" => &["EACCES"],
        "ftruncate" | "truncate" | "fsync" | "fdatasync" => &["EIO"],
        "copy_file_range" | "sendfile" => &["ENOSPC", "EXDEV"],
        _ => &[],
    }
}

/// Scenarios without injected fault (many more of them than the fault enumeration can afford): the run
/// per file without --in-place, then the run in place, judged by the same invariant.
fn plain_case(src: &mut Src, root: &Path) -> CaseResult {
    let n = DIRN.fetch_add(1, std::sync::atomic::Ordering::Relaxed);
    let dir = root.join(format!("p-{n}"));
    let sample = src.sample;
    let mut sc = gen_scenario(src, &dir, false);
    vcore::runner::note_case(|| sc.describe().to_string());
    sc.reset(&dir);
    for k in 0..sc.files.len() {
        let out = Cmd::jaq().args(sc.argv(false, Some(k))).cwd(&dir).run().map_err(|e| CaseFail::new("harness-spawn", e.to_string(), json!({})))?;
        let failed = out.status != 0;
        let expect_failed = sc.files[k].kind == Kind::Fail || (sc.files[k].kind == Kind::Halt && sc.filter.contains("halt_error"));
        if failed != expect_failed {
            let _ = std::fs::remove_dir_all(&dir);
            return Err(CaseFail::new("harness-scenario-model-disagrees-with-plain-run", format!("file {k}: plain run exit {} stderr {}", out.status, out.err_str().chars().take(200).collect::<String>()), sc.describe()));
        }
        sc.files[k].new = out.stdout;
    }
    let out = run_in_place(&sc, &dir, None, None).map_err(|e| CaseFail::new("harness-spawn", e.to_string(), json!({})))?;
    let st = observe(&sc, &dir);
    let verdict = judge(&sc, &st, &out, None);
    let _ = std::fs::remove_dir_all(&dir);
    if let Err((sig, msg)) = verdict {
        let mut case = sc.describe();
        case["fault"] = json!("none");
        return Err(CaseFail::new(sig, msg, case));
    }
    let kinds: Vec<Kind> = sc.files.iter().map(|f| f.kind).collect();
    let mut ok = CaseOk::new(sc.files.len() > 1 || kinds.iter().any(|k| *k != Kind::Ok) || sc.files.iter().any(|f| f.new.is_empty() != f.content.is_empty()), fnv_str(&[&sc.describe().to_string()])).class("no-fault");
    if kinds.contains(&Kind::Halt) {
        ok = ok.class("a-file-halts");
    }
    if kinds.contains(&Kind::Fail) {
        ok = ok.class("a-file-fails");
    }
    if sc.files.iter().any(|f| f.kind == Kind::Ok && f.new.is_empty() && !f.content.is_empty()) {
        ok = ok.class("a-file-gets-no-output");
    }
    if sample {
        ok = ok.desc(Some(sc.describe()));
    }
    Ok(ok)
}

fn scenario_case(src: &mut Src, root: &Path, thorough: bool) -> CaseResult {
    let n = DIRN.fetch_add(1, std::sync::atomic::Ordering::Relaxed);
    let dir = root.join(format!("s-{n}"));
    let trace_file = root.join(format!("trace-{n}.txt"));
    let sample = src.sample;
    let t0 = std::time::Instant::now();
    let mut sc = gen_scenario(src, &dir, thorough);
    let cleanup = |d: &Path| {
        let _ = std::fs::remove_dir_all(d);
        let _ = std::fs::remove_file(&trace_file);
    };
    vcore::runner::note_case(|| sc.describe().to_string());
    // (1) what the same invocation prints without --in-place, per file
    sc.reset(&dir);
    for k in 0..sc.files.len() {
        let out = Cmd::jaq().args(sc.argv(false, Some(k))).cwd(&dir).run().map_err(|e| CaseFail::new("harness-spawn", e.to_string(), json!({})))?;
        let failed = out.status != 0;
        let expect_failed = sc.files[k].kind == Kind::Fail || (sc.files[k].kind == Kind::Halt && sc.filter.contains("halt_error"));
        if failed != expect_failed {
            cleanup(&dir);
            return Err(CaseFail::new("harness-scenario-model-disagrees-with-plain-run", format!("file {k}: plain run exit {} stderr {}", out.status, out.err_str().chars().take(200).collect::<String>()), sc.describe()));
        }
        sc.files[k].new = out.stdout;
    }
    let fail = |sig: &str, msg: String, fault: Option<&Fault>, sc: &Scenario| {
        let mut case = sc.describe();
        case["fault"] = match fault {
            None => json!("none"),
            Some(f) => json!(format!("strace -e inject={}", f.spec())),
        };
        CaseFail::new(sig, msg, case)
    };
    // (2) the run without any fault
    let out = run_in_place(&sc, &dir, None, None).map_err(|e| CaseFail::new("harness-spawn", e.to_string(), json!({})))?;
    let st = observe(&sc, &dir);
    if let Err((sig, msg)) = judge(&sc, &st, &out, None) {
        cleanup(&dir);
        return Err(fail(&sig, msg, None, &sc));
    }
    // (3) the list of system calls after start-up
    sc.reset(&dir);
    let base = run_in_place(&sc, &dir, Some(&trace_file), None).map_err(|e| CaseFail::new("harness-spawn", e.to_string(), json!({})))?;
    let all = calls(&base.trace);
    if all.is_empty() {
        cleanup(&dir);
        return Err(CaseFail::new("harness-strace-unavailable", format!("strace gave no trace (exit {}, stderr {})", base.status, base.stderr.chars().take(200).collect::<String>()), json!({})));
    }
    let st = observe(&sc, &dir);
    if let Err((sig, msg)) = judge(&sc, &st, &base, None) {
        cleanup(&dir);
        return Err(fail(&sig, format!("(under strace, no fault) {msg}"), None, &sc));
    }
    // start-up ends where the first input file is opened
    let start = all.iter().position(|(_, l)| sc.files.iter().any(|f| l.contains(&format!("\"{}\"", f.arg)))).unwrap_or(all.len());
    let first_create = all.iter().position(|(_, l)| l.contains("O_CREAT")).unwrap_or(all.len());
    let mut occ: std::collections::BTreeMap<String, usize> = Default::default();
    // (name, occurrence, index in the trace)
    let mut points: Vec<(String, usize, usize)> = Vec::new();
    for (i, (name, _)) in all.iter().enumerate() {
        let c = occ.entry(name.clone()).or_insert(0);
        *c += 1;
        if i >= start {
            points.push((name.clone(), *c, i));
        }
    }
    // output written token by token makes thousands of write calls: those are sampled
    let writes: Vec<usize> = points.iter().enumerate().filter(|(_, p)| p.0 == "write").map(|(i, _)| i).collect();
    let mut sampled = false;
    if writes.len() > 40 {
        sampled = true;
        let step = writes.len().div_ceil(16);
        let keep: std::collections::BTreeSet<usize> = writes.iter().enumerate().filter(|(j, _)| *j < 10 || *j + 10 >= writes.len() || j % step == 0).map(|(_, i)| *i).collect();
        let drop: std::collections::BTreeSet<usize> = writes.iter().filter(|i| !keep.contains(i)).cloned().collect();
        points = points.into_iter().enumerate().filter(|(i, _)| !drop.contains(i)).map(|(_, p)| p).collect();
    }
    let mut evaluations = 0u64;
    let mut nt_keys = Vec::new();
    let scen_key = fnv_str(&[&sc.describe().to_string()]);
    for (name, when, idx) in &points {
        let mut faults = vec![Fault { syscall: name.clone(), when: *when, error: None }];
        // (every write gets ENOSPC; the other two error codes every third write)
        let nerr = if name == "write" && when % 3 != 0 { 1 } else { usize::MAX };
        faults.extend(errors_for(name).iter().take(nerr).map(|e| Fault { syscall: name.clone(), when: *when, error: Some(e) }));
        for f in faults {
            vcore::runner::note_case(|| format!("{} fault {}", sc.describe(), f.spec()));
            sc.reset(&dir);
            let _ = std::fs::remove_file(&trace_file);
            let out = run_in_place(&sc, &dir, Some(&trace_file), Some(&f)).map_err(|e| CaseFail::new("harness-spawn", e.to_string(), json!({})))?;
            let st = observe(&sc, &dir);
            evaluations += 1;
            if *idx >= first_create {
                nt_keys.push(scen_key ^ fnv_str(&[&f.spec()]));
            }
            if let Err((sig, msg)) = judge(&sc, &st, &out, Some(&f)) {
                cleanup(&dir);
                let line = all[*idx].1.chars().take(160).collect::<String>();
                return Err(fail(&sig, format!("{} at `{line}` (exit {}{}): {msg}", if f.error.is_some() { "call made to fail" } else { "process killed before the call" }, out.status, if out.killed { ", killed" } else { "" }), Some(&f), &sc));
            }
        }
    }
    cleanup(&dir);
    if std::env::var("VERIF_C18_DEBUG").is_ok() {
        eprintln!("scenario {n}: {} files, {} points, {} runs, {:.1}s", sc.files.len(), points.len(), evaluations, t0.elapsed().as_secs_f64());
    }
    let nfail = sc.files.iter().filter(|f| f.kind != Kind::Ok).count();
    let mut ok = CaseOk::new(true, scen_key).bundle(evaluations + 2, nt_keys).class(match sc.files.len() {
        1 => "one-file",
        2 => "two-files",
        _ => "three-files",
    });
    if nfail > 0 {
        ok = ok.class("a-file-fails-or-halts");
    }
    if sc.files.iter().any(|f| f.kind == Kind::Fail) && sc.files[0].kind == Kind::Ok && sc.files.len() > 1 {
        ok = ok.class("failure-after-a-replaced-file");
    }
    if sampled {
        ok = ok.class("write-calls-sampled");
    }
    if sc.files.iter().any(|f| f.mode & 0o022 != 0) {
        ok = ok.class("mode-bits-that-the-umask-would-clear");
    }
    if sc.files.iter().any(|f| f.new.len() > f.content.len()) {
        ok = ok.class("output-larger-than-input");
    }
    if sc.files.iter().any(|f| f.new.len() < f.content.len()) {
        ok = ok.class("output-smaller-than-input");
    }
    if sample {
        let mut d = sc.describe();
        d["fault_points"] = json!(points.len());
        d["runs"] = json!(evaluations + 2);
        ok = ok.desc(Some(d));
    }
    Ok(ok)
}

pub fn run(mut rep: Report) -> ! {
    rep.set_rule(
        "(a) 400 scenarios (thorough: 6 000) are only run plainly and in place without fault and judged; (b) fault enumeration on 24 (thorough: 800) scenarios. scenario = 1-3 files (relative, ./d/, absolute, d/../ paths; .json and .yaml names; 0-5 values plus sometimes a 60-string array, in the thorough tier a 6000-number array; separators newline/blank/none; 9 permission modes incl. read-only and group/other-writable; umask 022/077/002/027) x 14 filters (identity, growing, shrinking, empty, error at a trigger value after 0-2 outputs, path error, halt / halt_error at a trigger value, input-consuming) x output options (pretty, -c, -r, --tab, -cS, -s) x failure position (trigger or malformed text inserted at value k of any file); \
         each scenario is run plainly per file (= expected new contents), in place without fault, in place under strace to list the system calls after the first input file is opened, and then once per (call, fault): SIGKILL delivered before the call, and the call failing with each error code that applies (write: ENOSPC/EINTR/EIO; open: EACCES/EMFILE; rename/link: EACCES/EXDEV; chmod: EPERM; stat: EACCES; mmap: ENOMEM; read/close/fsync/truncate: EIO; unlink: EACCES); all calls are enumerated, except that beyond 40 write calls the first 10, last 10 and 16 evenly spaced ones are taken, and EINTR/EIO are injected at every third write only; \
         judged after the process ended: every file holds its original bytes or the complete expected output (a failing file: original; a halting file: either), no file is replaced after one that was kept, files after a failing one are untouched, exit 0 implies every file replaced with its permission bits intact, a process that ended by itself leaves no other directory entry (unless unlink was made to fail), without fault files before a failing one are replaced and the exit status is non-zero iff some file fails; \
         evaluation = one run; non-trivial = fault at or after the creation of the first temporary file",
    );
    rep.assume("the process runs as root: permission denials are produced by injected errors rather than by directory modes; strace delivers the injected SIGKILL at syscall entry, before the call takes effect (probed: a kill at renameat leaves the original file and the temporary)");
    let scratch = Scratch::new("c18");
    let root = scratch.path.clone();
    let thorough = !rep.quick();
    // (process creation does not scale beyond ~90 runs/s on this machine, whatever the number of workers)
    rep.workers = rep.workers.min(4);
    let n = rep.n(24, 800);
    {
        let r = root.clone();
        let np = rep.n(400, 6_000);
        let w = rep.workers;
        rep.workers = 8;
        rep.random("in-place-runs-without-fault", np, 96, move |src| plain_case(src, &r));
        rep.workers = w;
    }
    rep.random("fault-enumeration", n, 96, move |src| scenario_case(src, &root, thorough));
    drop(scratch);
    rep.finish()
}
