//! C19 — a compiled filter is immutable shared data: concurrent runs equal isolated runs.
//!
//! (1) static facts, checked by the compiler: the compiled filter types are `Send + Sync`
//!     (and, in the companion crate `vsync` built with `jaq-json/sync`, so are values);
//! (2) stress with a sequential oracle: batches of generated programs x inputs are first run alone
//!     on one thread, then from T threads x R repetitions sharing `&Filter`, in shuffled order behind a
//!     barrier; every concurrent output stream must equal the isolated one;
//! (3) non-interference: compiling and running other (also failing) programs, on this and on other
//!     threads, between two runs of a filter does not change its outputs;
//! (4) determinism: re-running on an equal input gives an equal stream.

use serde_json::json;
use std::sync::atomic::{AtomicUsize, Ordering};
use std::sync::{Arc, Barrier};
use vcore::gen::{self, Cfg};
use vcore::gprog;
use vcore::jq::{self, OutM};
use vcore::mval::MVal;
use vcore::runner::{fnv_str, seeded_bytes, CaseFail, CaseOk, Report};
use vcore::Src;

fn assert_send_sync<T: Send + Sync>() {}

#[allow(dead_code)]
fn static_facts() {
    // fails to *build* if a change puts Rc, Cell or a raw pointer into the compiled filter
    assert_send_sync::<jaq_all::data::Filter>();
    assert_send_sync::<jaq_core::Filter<jaq_core::data::JustLut<jaq_json::Val>>>();
    assert_send_sync::<jaq_core::Lut<jaq_all::data::DataKind>>();
}

/// label-heavy and iterator-heavy templates: many label bindings / closures per run
const TEMPLATES: &[&str] = &[
    "[range(300) | label $a | (label $b | ., break $a, 1), 2]",
    "[range(200) | label $a | def f(g): if . % 3 == 0 then (label $b | (., g, \"x\")), \"y\" else . - 1 | f(g) end; f(break $a)] | length",
    "[limit(50; repeat(label $l | 1, break $l, 2))]",
    "[range(100) | first(range(.; 1000))] | add",
    "reduce range(500) as $i (0; . + (label $l | $i, break $l))",
    "[foreach range(100) as $i (0; . + $i; label $l | ., break $l)] | length",
    "[.. | label $x | if type == \"number\" then ., break $x else . end] | length",
    "[range(50) as $i | label $a | label $b | label $c | $i, break $b, 9] | add",
    "def f: label $l | if . > 200 then . else (. + 1 | f), break $l end; [0 | f]",
    "[range(100) | isempty(empty), any(range(5); . > 3), all(range(5); . < 9)] | length",
    "[range(100) | tostring | test(\"1\")] | map(select(.)) | length",
    "[range(60) | [., \"a\"] | tojson | fromjson | .[0]] | add",
    "[range(40) | {a: ., b: [., .]} | to_entries | from_entries | .a] | add",
    "[range(100) | try (if . % 7 == 0 then error(.) else . end) catch -.] | add",
    "[limit(30; recurse(if . < 1000 then . * 2 else empty end))] | last",
    "[range(30) | . as $x | [range($x)] | sort_by(-.) | .[0]?] | add",
];

struct Job {
    program: String,
    filter: jaq_all::data::Filter,
    inputs: Vec<MVal>,
    /// isolated outputs per input
    alone: Vec<Vec<OutM>>,
}

const LIMIT: usize = 40;

fn outs_same(a: &[OutM], b: &[OutM]) -> bool {
    a.len() == b.len()
        && a.iter().zip(b).all(|(x, y)| match (x, y) {
            (OutM::Val(p), OutM::Val(q)) | (OutM::Err(p), OutM::Err(q)) => p.same(q),
            (OutM::Halt(p), OutM::Halt(q)) => p == q,
            _ => false,
        })
}

fn run_one(f: &jaq_all::data::Filter, input: &MVal) -> Vec<OutM> {
    jq::run(f, vec![MVal::Null.to_val()], input.to_val(), LIMIT).iter().map(OutM::from_out).collect()
}

/// Programs that would interfere through state kept per process (a cache keyed too coarsely, a lazily
/// initialised table shared by two filters): the same native filter with different flags or arguments,
/// and the two directions of every codec.
const FAMILIES: &[&[&str]] = &[
    &["\"ab\" | test(\"a b\")", "\"ab\" | test(\"a b\"; \"x\")", "\"a b\" | test(\"a b\"; \"x\")", "\"A B\" | test(\"a b\"; \"i\")", "\"A B\" | test(\"a b\"; \"ix\")", "\"a\\nb\" | test(\"a.b\"; \"s\")", "\"a\\nb\" | test(\"a.b\")", "\"a\\nb\" | [match(\"^b\"; \"g\").offset]", "\"a\\nb\" | [match(\"^b\"; \"gm\").offset]", "\"aaa\" | [match(\"a+\"; \"g\").length]", "\"aaa\" | [match(\"a+\"; \"gl\").length]", "\"aaa\" | sub(\"a\"; \"b\")", "\"aaa\" | sub(\"a\"; \"b\"; \"g\")", "\"aXbxc\" | [splits(\"x\")]", "\"aXbxc\" | [splits(\"x\"; \"i\")]"],
    &["\"<&>\" | @html", "\"&lt;p&gt;\" | @htmld", "\"<&>\" | @html | @htmld", "\"&amp;lt;\" | @htmld", "\"'\\\"\" | @html"],
    &["\"a b/c\" | @uri", "\"a%20b%2Fc\" | @urid", "\"%25\" | @urid | @uri"],
    &["\"hi\" | @base64", "\"aGk=\" | @base64d", "\"hi\" | @base32", "\"NBUQ====\" | @base32d"],
    &["[1, \"a b\"] | @sh", "[1, \"a,b\"] | @csv", "[1, \"a\\tb\"] | @tsv", "[1, \"a\"] | @json", "[1, \"a\"] | @text"],
    &["0 | strftime(\"%Y-%m-%d\")", "0 | strftime(\"%H:%M\")", "\"1970-01-02\" | strptime(\"%Y-%m-%d\") | mktime", "\"02.01.1970\" | strptime(\"%d.%m.%Y\") | mktime", "86400 | todate", "\"1970-01-02T00:00:00Z\" | fromdate"],
    &["\"aXb\" | ascii_downcase", "\"aXb\" | ascii_upcase", "\"  a \" | ltrimstr(\" \")", "\"  a \" | rtrimstr(\" \")", "\"  a \" | trim", "\"  a \" | ltrim", "\"  a \" | rtrim"],
    &["[3, 1, 2] | sort", "[3, 1, 2] | sort_by(-.)", "[{\"a\": 2}, {\"a\": 1}] | group_by(.a)", "[3, 1, 2] | min_by(-.)", "[1, 1, 2] | unique", "{\"b\": 1, \"a\": 2} | keys", "{\"b\": 1, \"a\": 2} | keys_unsorted", "{\"b\": 1, \"a\": 2} | tojson", "{\"b\": 1, \"a\": 2} | tojson | fromjson | keys_unsorted"],
    &["[1, [2]] | toyaml", "\"a: 1\" | fromyaml", "{\"a\": 1} | totoml", "\"a = 1\" | fromtoml", "\"<a>t</a>\" | fromxml | toxml", "\"a,b\\n\" | [fromcsv]", "\"a\\tb\\n\" | [fromtsv]"],
];

/// What a program yields in a process of its own (the jaq binary, one process per program).
fn in_fresh_process(prog: &str) -> Result<String, String> {
    let out = vcore::cli::Cmd::jaq().args(["-nc", &format!("[{prog}]")]).run().map_err(|e| e.to_string())?;
    if out.status != 0 {
        return Ok(format!("ERROR exit {}", out.status));
    }
    Ok(out.out_str().trim().to_string())
}

fn in_this_process(prog: &str) -> String {
    match jq::eval(&format!("[{prog}]"), &[], jaq_json::Val::Null, 2) {
        Ok(outs) => match outs.first() {
            Some(jq::Out::Val(v)) => format!("{v}"),
            _ => "ERROR exit 5".to_string(),
        },
        Err(_) => "ERROR exit 3".to_string(),
    }
}

/// Every program of a family is run in a process of its own (expected result), then all of them in
/// this one process: in the order of the family, in reverse order, and from 8 threads at once. No result
/// may depend on what else the process has run.
fn process_wide_state(i: usize) -> vcore::runner::CaseResult {
    let fam = FAMILIES[i % FAMILIES.len()];
    let reverse = i >= FAMILIES.len();
    let case = |p: &str, want: &str, got: &str, how: &str| json!({"program": p, "in_a_process_of_its_own": want, "in_a_process_that_also_ran_the_others": got, "others": fam, "how": how});
    let mut want = Vec::new();
    for p in fam.iter() {
        want.push(in_fresh_process(p).map_err(|e| CaseFail::new("harness-spawn", e, json!({})))?);
    }
    let order: Vec<usize> = if reverse { (0..fam.len()).rev().collect() } else { (0..fam.len()).collect() };
    for round in 0..2 {
        for &k in &order {
            let got = in_this_process(fam[k]);
            if got != want[k] {
                return Err(CaseFail::new("result-depends-on-what-else-the-process-ran", format!("`{}` gives {} in a process of its own, {} here (round {round}, {} order)", fam[k], want[k], got, if reverse { "reverse" } else { "given" }), case(fam[k], &want[k], &got, "sequentially")));
            }
        }
    }
    // concurrently
    let bad = std::sync::Mutex::new(None::<(usize, String)>);
    std::thread::scope(|sc| {
        for t in 0..8usize {
            let (bad, want) = (&bad, &want);
            sc.spawn(move || {
                for r in 0..6 {
                    for j in 0..fam.len() {
                        let k = (j * 7 + t * 3 + r) % fam.len();
                        let got = in_this_process(fam[k]);
                        if got != want[k] {
                            *bad.lock().unwrap() = Some((k, got));
                            return;
                        }
                    }
                }
            });
        }
    });
    if let Some((k, got)) = bad.into_inner().unwrap() {
        return Err(CaseFail::new("result-depends-on-what-else-the-process-ran", format!("`{}` gives {} in a process of its own, {} when run concurrently with the others", fam[k], want[k], got), case(fam[k], &want[k], &got, "8 threads")));
    }
    Ok(CaseOk::new(true, 9_000_000 + i as u64).class("family-of-programs-sharing-a-native-filter").bundle((fam.len() * (1 + 2 + 48)) as u64, (0..fam.len() as u64).map(|k| 9_000_000 + (i as u64) * 100 + k).collect()).desc(Some(json!({"programs": fam, "order": if reverse { "reverse" } else { "given" }}))))
}

pub fn run(mut rep: Report) -> ! {
    rep.set_level("exploration");
    rep.set_rule(
        "batches of compiled filters (16 label-, closure-, fold- and iterator-heavy templates with hundreds of label bindings per run, plus programs of the C01 generator without clock/environment/input access) x generated inputs: every (filter, input) is first run alone on one thread (twice: determinism), then all pairs are run from T in {2, 4, 16, 48} threads x R repetitions that share the compiled filters by reference, in per-thread shuffled order behind a barrier, while further threads keep compiling other (also ill-formed) programs; each concurrent output stream (<= 40 items incl. the terminating error) must equal the isolated one; \
         process-wide state: 9 families of programs that use the same native filter with different flags or arguments, or the two directions of a codec (regex flags x/i/s/m/g/l on one pattern, @html/@htmld, @uri/@urid, @base64/@base64d/@base32/@base32d, the other @formats, strftime/strptime formats, trimming and case filters, sort/group/keys/tojson, the format readers and writers): every program is run by the jaq binary in a process of its own (expected result), then all programs of the family in this one process - in order, in reverse order, twice, and from 8 threads at once; no result may depend on what else the process has run; \
         non-trivial = the filter yields >= 2 outputs or an error and at least two threads were inside filter runs at the same time (measured with an in-flight counter); distinct by (program, input); static part: Filter and Lut are Send + Sync (compile-time assertion)",
    );
    rep.assume("schedules are those the operating system produces on 16 cores; this family cannot enumerate interleavings of uninstrumented std code");
    rep.assume("values are per thread here (default build: Val is not Send); values shared between threads are exercised by the companion binary verif-sync, built with jaq-json's `sync` feature, which ./check C19 runs as well");
    static_facts();
    let quick = rep.quick();
    let nprog = rep.n(160, 4000);
    let bytes = seeded_bytes(rep.seed, "C19", nprog * 220);
    let mut src = Src::new(&bytes);
    let mut jobs: Vec<Job> = Vec::new();
    let mut compile_fail: Vec<CaseFail> = Vec::new();
    let cfg = Cfg { nan: false, depth: 2, width: 3, str_pieces: 2, small_nums: true, ..Cfg::default() };
    for i in 0..nprog {
        let program = if i < TEMPLATES.len() * 2 {
            TEMPLATES[i % TEMPLATES.len()].to_string()
        } else {
            let d = 2 + src.below(3);
            gprog::program(&mut src, gprog::Cfg::core(d), &["$g"]).0
        };
        let inputs: Vec<MVal> = (0..3).map(|k| if k == 0 { MVal::Arr(vec![vcore::mval::int(1), MVal::Arr(vec![vcore::mval::int(2), MVal::Obj(vec![(vcore::mval::tstr("a"), vcore::mval::int(3))])])]) } else { gen::gen_val(&mut src, &cfg) }).collect();
        // generated programs may diverge: probe in an isolated, time-limited run first
        let probe = jq::run_isolated(&program, &[("g", &MVal::Null)], &inputs[1], &[], LIMIT, 3000);
        if !matches!(probe, jq::Iso::Outs(_)) {
            continue;
        }
        let probe2 = [jq::run_isolated(&program, &[("g", &MVal::Null)], &inputs[0], &[], LIMIT, 3000), jq::run_isolated(&program, &[("g", &MVal::Null)], &inputs[2], &[], LIMIT, 3000)];
        if probe2.iter().any(|p| !matches!(p, jq::Iso::Outs(_))) {
            continue;
        }
        match jq::compile(&program, &["g"]) {
            Ok(filter) => {
                let alone: Vec<Vec<OutM>> = inputs.iter().map(|i| run_one(&filter, i)).collect();
                // determinism: a second isolated run gives the same streams
                for (inp, a) in inputs.iter().zip(&alone) {
                    let again = run_one(&filter, inp);
                    if !outs_same(a, &again) {
                        compile_fail.push(CaseFail::new("rerun-differs", format!("two isolated runs differ: [{}] vs [{}]", jq::show_outs_m(a), jq::show_outs_m(&again)), json!({"program": program, "input": inp.show()})));
                    }
                }
                jobs.push(Job { program, filter, inputs, alone });
            }
            Err(e) => compile_fail.push(CaseFail::new("generated-program-does-not-compile", e, json!({"program": program}))),
        }
    }
    if std::env::var("VERIF_TRACE").is_ok() {
        eprintln!("C19: {} jobs prepared", jobs.len());
    }
    let jobs = Arc::new(jobs);
    let fails: Arc<std::sync::Mutex<Vec<CaseFail>>> = Arc::new(std::sync::Mutex::new(compile_fail));
    let inflight = Arc::new(AtomicUsize::new(0));
    let max_inflight = Arc::new(AtomicUsize::new(0));
    let runs = Arc::new(AtomicUsize::new(0));
    let thread_counts: &[usize] = if quick { &[2, 16, 48] } else { &[2, 4, 16, 48, 64] };
    let reps = rep.n(3, 40);
    let seed = rep.seed;
    for &t in thread_counts {
        if std::env::var("VERIF_TRACE").is_ok() {
            eprintln!("C19: {t} threads");
        }
        let barrier = Arc::new(Barrier::new(t + 2));
        let stop = Arc::new(std::sync::atomic::AtomicBool::new(false));
        let mut handles = Vec::new();
        for w in 0..t {
            let (jobs, fails, barrier, inflight, max_inflight, runs) = (jobs.clone(), fails.clone(), barrier.clone(), inflight.clone(), max_inflight.clone(), runs.clone());
            handles.push(std::thread::Builder::new().stack_size(64 << 20).spawn(move || {
                // per-thread order: a permutation derived from the seed
                let mut order: Vec<(usize, usize)> = (0..jobs.len()).flat_map(|j| (0..jobs[j].inputs.len()).map(move |i| (j, i))).collect();
                let mut x = seed.wrapping_mul(6364136223846793005).wrapping_add((w as u64).wrapping_mul(1442695040888963407).wrapping_add(t as u64));
                for k in (1..order.len()).rev() {
                    x = x.wrapping_mul(6364136223846793005).wrapping_add(1442695040888963407);
                    order.swap(k, (x >> 33) as usize % (k + 1));
                }
                barrier.wait();
                for _ in 0..reps {
                    for &(j, i) in &order {
                        let job = &jobs[j];
                        let n = inflight.fetch_add(1, Ordering::SeqCst) + 1;
                        max_inflight.fetch_max(n, Ordering::SeqCst);
                        let got = run_one(&job.filter, &job.inputs[i]);
                        inflight.fetch_sub(1, Ordering::SeqCst);
                        runs.fetch_add(1, Ordering::Relaxed);
                        if !outs_same(&got, &job.alone[i]) {
                            let mut f = fails.lock().unwrap();
                            if f.len() < 50 {
                                f.push(CaseFail::new(
                                    "concurrent-run-differs-from-isolated-run",
                                    format!("with {t} threads: [{}] instead of [{}]", jq::show_outs_m(&got).chars().take(300).collect::<String>(), jq::show_outs_m(&job.alone[i]).chars().take(300).collect::<String>()),
                                    json!({"program": job.program, "input": job.inputs[i].show(), "threads": t}),
                                ));
                            }
                        }
                    }
                }
            }).unwrap());
        }
        // two more threads keep compiling (and failing to compile) other programs meanwhile
        for c in 0..2 {
            let (barrier, stop, jobs) = (barrier.clone(), stop.clone(), jobs.clone());
            handles.push(std::thread::Builder::new().stack_size(64 << 20).spawn(move || {
                barrier.wait();
                let mut k = c;
                while !stop.load(Ordering::SeqCst) {
                    let p = &jobs[k % jobs.len()].program;
                    let _ = jq::compile(p, &["g"]);
                    let _ = jq::compile(&format!("{p} | ("), &["g"]);
                    let _ = jq::compile("def f: def g: 3; g; def g: 4; label $x | [f, g, break $x]", &[]);
                    k += 2;
                }
            }).unwrap());
        }
        let n = handles.len();
        for (i, h) in handles.into_iter().enumerate() {
            if i + 2 == n {
                stop.store(true, Ordering::SeqCst);
            }
            let _ = h.join();
        }
    }
    // after all of that, the isolated runs still give the same streams (non-interference)
    for job in jobs.iter() {
        for (inp, a) in job.inputs.iter().zip(&job.alone) {
            let again = run_one(&job.filter, inp);
            if !outs_same(a, &again) {
                fails.lock().unwrap().push(CaseFail::new("run-after-other-compilations-differs", format!("[{}] vs [{}]", jq::show_outs_m(a), jq::show_outs_m(&again)), json!({"program": job.program, "input": inp.show()})));
            }
        }
    }
    let fails = fails.lock().unwrap().clone();
    let overlapped = max_inflight.load(Ordering::SeqCst) >= 2;
    rep.extra("max_runs_in_flight", json!(max_inflight.load(Ordering::SeqCst)));
    rep.extra("concurrent_runs", json!(runs.load(Ordering::SeqCst)));
    rep.extra("filters", json!(jobs.len()));
    let pairs: Vec<(usize, usize)> = (0..jobs.len()).flat_map(|j| (0..jobs[j].inputs.len()).map(move |i| (j, i))).collect();
    let total_runs = runs.load(Ordering::SeqCst) as u64;
    {
        let (jobs, fails, pairs) = (&jobs, &fails, &pairs);
        rep.fixed("concurrent-vs-isolated", fails.len() + pairs.len(), |k| {
            if k < fails.len() {
                return Err(fails[k].clone());
            }
            let (j, i) = pairs[k - fails.len()];
            let job = &jobs[j];
            let nt = overlapped && (job.alone[i].len() >= 2 || matches!(job.alone[i].last(), Some(OutM::Err(_))));
            // every pair was run (threads x repetitions) times concurrently
            let per_pair = total_runs / pairs.len().max(1) as u64;
            Ok(CaseOk::new(nt, fnv_str(&[&job.program, &job.inputs[i].show()]))
                .class(if job.program.contains("label") { "uses-labels" } else { "no-labels" })
                .desc(if k % 97 == 0 { Some(json!({"program": job.program, "input": job.inputs[i].show(), "isolated_outputs": jq::show_outs_m(&job.alone[i]).chars().take(120).collect::<String>()})) } else { None })
                .bundle(per_pair.max(1), if nt { vec![fnv_str(&[&job.program, &job.inputs[i].show()])] } else { vec![] }))
        });
    }
    // the thread-safe value representation: companion crate built with jaq-json's `sync` feature
    let root = vcore::cli::root();
    let build = std::process::Command::new("cargo")
        .args(["build", "--profile", "verif", "-p", "vsync"])
        .current_dir(format!("{root}/harness"))
        .env("CARGO_TARGET_DIR", format!("{root}/target"))
        .env("CARGO_NET_OFFLINE", "true")
        .output();
    let sync_result: Result<u64, CaseFail> = match build {
        Err(e) => rep.inconclusive(&format!("cargo-not-runnable:{e}")),
        Ok(o) if !o.status.success() => {
            let err = String::from_utf8_lossy(&o.stderr).into_owned();
            if err.contains("cannot be sent between threads safely") || err.contains("cannot be shared between threads safely") {
                let line = err.lines().find(|l| l.contains("cannot be s")).unwrap_or("").to_string();
                Err(CaseFail::new("value-or-filter-type-not-send-sync", format!("with jaq-json's `sync` feature the static assertions do not compile: {line}"), json!({"build": "cargo build -p vsync (jaq-json feature sync)", "compiler": err.lines().filter(|l| l.contains("error") || l.contains("within") || l.contains("required")).take(12).collect::<Vec<_>>()})))
            } else {
                rep.inconclusive(&format!("vsync-build-failed:{}", err.lines().filter(|l| l.starts_with("error")).take(3).collect::<Vec<_>>().join(" | ")))
            }
        }
        Ok(_) => match std::process::Command::new(format!("{root}/target/verif/verif-sync")).arg(if quick { "20" } else { "300" }).output() {
            Err(e) => rep.inconclusive(&format!("verif-sync-not-runnable:{e}")),
            Ok(o) => {
                let out = String::from_utf8_lossy(&o.stdout).into_owned();
                match out.lines().find(|l| l.starts_with("VSYNC")) {
                    Some(l) if l.starts_with("VSYNC ok") => Ok(l.split("runs=").nth(1).and_then(|r| r.split(' ').next()).and_then(|n| n.parse().ok()).unwrap_or(1)),
                    Some(l) => Err(CaseFail::new("shared-values-concurrent-run-differs", l.to_string(), json!({"binary": "verif-sync", "output": l}))),
                    None => Err(CaseFail::new("shared-values-run-crashed", format!("exit {:?}: {}", o.status.code(), String::from_utf8_lossy(&o.stderr).chars().take(400).collect::<String>()), json!({"binary": "verif-sync"}))),
                }
            }
        },
    };
    rep.fixed("process-wide-state", 2 * FAMILIES.len(), process_wide_state);
    rep.fixed("thread-safe-values", 1, |_| match &sync_result {
        Err(f) => Err(f.clone()),
        Ok(n) => Ok(CaseOk::new(false, 0).class("shared-values").desc(Some(json!({"what": "19 filters x 12 values shared between 2/16/48 threads (Arc-based Val), every run compared with the isolated run; Val, Map, Error<Val>, Filter, Lut statically Send + Sync", "concurrent_runs": n}))).bundle(*n, (0..228u64).map(|k| k + 7_000_000).collect())),
    });
    rep.finish()
}
