//! C20 — date and time filters agree with the proleptic Gregorian calendar
//! and invert each other.  Oracle: an independent calendar implementation
//! (days_from_civil / civil_from_days) in the harness.

use jaq_json::Val;
use num_bigint::BigInt;
use num_traits::{FromPrimitive, Signed, ToPrimitive, Zero};
use serde_json::json;
use vcore::jq::{self, Out};
use vcore::mval::{int, tstr, MVal};
use vcore::runner::{fnv_str, CaseFail, CaseOk, CaseResult, Report};
use vcore::Src;

// ---------------------------------------------------------------- calendar model

/// days since 1970-01-01 of the proleptic Gregorian date y-m-d (m in 1..=12)
pub fn days_from_civil(y: i64, m: i64, d: i64) -> i64 {
    let y = if m <= 2 { y - 1 } else { y };
    let era = if y >= 0 { y } else { y - 399 } / 400;
    let yoe = y - era * 400;
    let mp = (m + 9) % 12;
    let doy = (153 * mp + 2) / 5 + d - 1;
    let doe = yoe * 365 + yoe / 4 - yoe / 100 + doy;
    era * 146097 + doe - 719468
}

pub fn civil_from_days(z: i64) -> (i64, i64, i64) {
    let z = z + 719468;
    let era = if z >= 0 { z } else { z - 146096 } / 146097;
    let doe = z - era * 146097;
    let yoe = (doe - doe / 1460 + doe / 36524 - doe / 146096) / 365;
    let y = yoe + era * 400;
    let doy = doe - (365 * yoe + yoe / 4 - yoe / 100);
    let mp = (5 * doy + 2) / 153;
    let d = doy - (153 * mp + 2) / 5 + 1;
    let m = if mp < 10 { mp + 3 } else { mp - 9 };
    (if m <= 2 { y + 1 } else { y }, m, d)
}

fn is_leap(y: i64) -> bool {
    (y % 4 == 0 && y % 100 != 0) || y % 400 == 0
}
fn days_in_month(y: i64, m: i64) -> i64 {
    match m {
        1 | 3 | 5 | 7 | 8 | 10 | 12 => 31,
        4 | 6 | 9 | 11 => 30,
        _ => {
            if is_leap(y) {
                29
            } else {
                28
            }
        }
    }
}

/// [year, month0, day, h, m, s, wday, yday0] of an integer epoch
fn model_bdt(secs: i64) -> [i64; 8] {
    let days = secs.div_euclid(86400);
    let rem = secs.rem_euclid(86400);
    let (y, m, d) = civil_from_days(days);
    let wd = (days + 4).rem_euclid(7);
    let yd = days - days_from_civil(y, 1, 1);
    [y, m - 1, d, rem / 3600, (rem / 60) % 60, rem % 60, wd, yd]
}

fn self_test() -> Result<(), String> {
    let anchors = [((1970, 1, 1), 0i64), ((2000, 3, 1), 11017), ((1969, 12, 31), -1), ((0, 3, 1), -719468), ((1600, 1, 1), -135140), ((2038, 1, 19), 24855), ((1900, 3, 1), -25508)];
    for ((y, m, d), z) in anchors {
        if days_from_civil(y, m, d) != z {
            return Err(format!("days_from_civil({y},{m},{d}) != {z}"));
        }
        if civil_from_days(z) != (y, m, d) {
            return Err(format!("civil_from_days({z})"));
        }
    }
    let mut prev = days_from_civil(-9999, 1, 1) - 1;
    for y in -9999..=9999i64 {
        for m in 1..=12 {
            for d in [1, days_in_month(y, m)] {
                let z = days_from_civil(y, m, d);
                if civil_from_days(z) != (y, m, d) {
                    return Err(format!("roundtrip {y}-{m}-{d}"));
                }
                if d == 1 && z != prev + 1 {
                    return Err(format!("month lengths inconsistent at {y}-{m}"));
                }
                prev = z + if d == 1 { 0 } else { 0 };
            }
            prev = days_from_civil(y, m, days_in_month(y, m));
        }
    }
    if model_bdt(0) != [1970, 0, 1, 0, 0, 0, 4, 0] {
        return Err("bdt(0)".into());
    }
    // manual example: 1955-11-13T06:04:00Z is a Sunday, day 316
    let e = days_from_civil(1955, 11, 13) * 86400 + 6 * 3600 + 4 * 60;
    if model_bdt(e) != [1955, 10, 13, 6, 4, 0, 0, 316] {
        return Err("bdt(1955)".into());
    }
    Ok(())
}

const MIN_Y: i64 = -9998;
const MAX_Y: i64 = 9998;
fn lo_epoch() -> i64 {
    days_from_civil(MIN_Y, 1, 1) * 86400
}
fn hi_epoch() -> i64 {
    days_from_civil(MAX_Y + 1, 1, 1) * 86400 - 1
}
/// epochs for which jaq's time library cannot represent the instant at all
/// (outside years -9999..9999): an answer other than an error is wrong
fn beyond(secs: &BigInt) -> bool {
    let lo = BigInt::from(days_from_civil(-9999, 1, 1)) * 86400;
    let hi = BigInt::from(days_from_civil(10000, 1, 1)) * 86400;
    secs < &lo || secs >= &hi
}

// ---------------------------------------------------------------- helpers

/// exact value of a double in microseconds, as (floor, ceil)
fn micros_bounds(x: f64) -> (BigInt, BigInt) {
    // x = m * 2^e exactly
    let bits = x.to_bits();
    let sign = if bits >> 63 == 1 { -1 } else { 1 };
    let exp = ((bits >> 52) & 0x7ff) as i64;
    let frac = bits & ((1u64 << 52) - 1);
    let (m, e) = if exp == 0 { (frac, -1074) } else { (frac | (1u64 << 52), exp - 1075) };
    let num = BigInt::from(m) * 1_000_000 * sign;
    if e >= 0 {
        let v: BigInt = num << (e as usize);
        (v.clone(), v)
    } else {
        let den = BigInt::from(1) << ((-e) as usize);
        let fl = num_integer_div_floor(&num, &den);
        let exact = (&fl * &den) == num;
        (fl.clone(), if exact { fl } else { fl + 1 })
    }
}
fn num_integer_div_floor(a: &BigInt, b: &BigInt) -> BigInt {
    let (q, r) = (a / b, a % b);
    if !r.is_zero() && (r.is_negative() != b.is_negative()) {
        q - 1
    } else {
        q
    }
}
fn ulp_micros(x: f64) -> f64 {
    let next = f64::from_bits(x.abs().to_bits() + 1);
    (next - x.abs()) * 1e6
}

/// instant in microseconds denoted by a jaq BDT array, validated against the model
fn bdt_to_micros(b: &MVal) -> Result<BigInt, String> {
    let a = match b {
        MVal::Arr(a) if a.len() == 8 => a,
        _ => return Err(format!("not an 8-element array: {}", b.show())),
    };
    let geti = |i: usize| -> Result<i64, String> {
        match &a[i] {
            MVal::Int(x, _) => x.to_i64().ok_or_else(|| format!("field {i} out of range")),
            other => Err(format!("field {i} is not an integer: {}", other.show())),
        }
    };
    let (y, mo, d, h, mi) = (geti(0)?, geti(1)?, geti(2)?, geti(3)?, geti(4)?);
    let (wd, yd) = (geti(6)?, geti(7)?);
    if !(0..12).contains(&mo) || d < 1 || d > days_in_month(y, mo + 1) || !(0..24).contains(&h) || !(0..60).contains(&mi) {
        return Err(format!("field out of its range in {}", b.show()));
    }
    let sec_us: i64 = match &a[5] {
        MVal::Int(x, _) => x.to_i64().filter(|s| (0..60).contains(s)).ok_or("seconds out of range")? * 1_000_000,
        MVal::Float(f) if *f >= 0.0 && *f < 60.0 => (f * 1e6).round() as i64,
        other => return Err(format!("bad seconds {}", other.show())),
    };
    let days = days_from_civil(y, mo + 1, d);
    if (days + 4).rem_euclid(7) != wd {
        return Err(format!("weekday {wd} is wrong for {y}-{}-{d} (model {})", mo + 1, (days + 4).rem_euclid(7)));
    }
    if days - days_from_civil(y, 1, 1) != yd {
        return Err(format!("day of year {yd} is wrong for {y}-{}-{d} (model {})", mo + 1, days - days_from_civil(y, 1, 1)));
    }
    Ok((BigInt::from(days) * 86400 + h * 3600 + mi * 60) * 1_000_000 + sec_us)
}

/// the instant (µs bounds) an input number denotes; None if not a finite number
fn input_micros(x: &MVal) -> Option<(BigInt, BigInt, f64)> {
    match x {
        MVal::Int(i, _) => {
            let v: BigInt = i * 1_000_000;
            Some((v.clone(), v, 0.0))
        }
        MVal::Float(f) if f.is_finite() => {
            let (lo, hi) = micros_bounds(*f);
            Some((lo, hi, ulp_micros(*f)))
        }
        MVal::Dec(s) => {
            let f: f64 = s.parse().ok()?;
            if !f.is_finite() {
                return None;
            }
            let (lo, hi) = micros_bounds(f);
            Some((lo, hi, ulp_micros(f)))
        }
        _ => None,
    }
}

fn close(k: &BigInt, x: &MVal) -> bool {
    match input_micros(x) {
        None => false,
        Some((lo, hi, ulp)) => {
            let slack = BigInt::from_f64(1.0 + ulp.ceil()).unwrap_or_else(|| BigInt::from(1));
            k >= &(lo - &slack) && k <= &(hi + &slack)
        }
    }
}

fn out_micros(v: &MVal) -> Option<(BigInt, BigInt, f64)> {
    input_micros(v)
}

/// do two numbers denote the same instant to the microsecond (+ float resolution)?
fn same_instant(a: &MVal, b: &MVal) -> bool {
    match (input_micros(a), out_micros(b)) {
        (Some((alo, ahi, au)), Some((blo, bhi, bu))) => {
            let slack = BigInt::from_f64(1.0 + au.max(bu).ceil()).unwrap();
            blo >= alo - &slack && bhi <= ahi + &slack
        }
        _ => false,
    }
}

fn run1(prog: &str, x: &MVal) -> Result<MVal, String> {
    let outs = jq::eval(prog, &[], x.to_val(), 3).map_err(|e| format!("compile: {e}"))?;
    match outs.as_slice() {
        [Out::Val(v)] => Ok(MVal::from_val(v)),
        [Out::Err(e)] => Err(format!("error: {e}")),
        other => Err(format!("unexpected: {}", jq::show_outs(other))),
    }
}

fn is_panic(e: &str) -> bool {
    e.contains("PANIC")
}

const FORMATS: &[&str] = &["%Y-%m-%dT%H:%M:%SZ", "%F %T", "%s", "%Y %j %H %M %S", "%G-W%V-%u %T", "%d/%m/%Y %H:%M:%S", "%Y%m%d%H%M%S", "%a, %d %b %Y %H:%M:%S", "%A %B %e %Y %I:%M:%S %p", "%Y-%m-%d %H:%M:%S %z"];

fn iso(y: i64, mo: i64, d: i64, h: i64, mi: i64, s: i64) -> String {
    format!("{y:04}-{mo:02}-{d:02}T{h:02}:{mi:02}:{s:02}")
}

/// In-range epoch: all round trips.
fn check_epoch(x: &MVal, sample: bool) -> CaseResult {
    let case = || json!({"epoch": x.show(), "repr": format!("{x:?}")});
    let (lo, hi, _) = input_micros(x).unwrap();
    let fractional = !(x.is_int()) && lo != hi || matches!(x, MVal::Float(_) | MVal::Dec(_)) && (&lo % 1_000_000) != BigInt::zero();
    let fail = |sig: &str, msg: String| Err(CaseFail::new(sig, msg, case()));
    // A: gmtime
    let bdt = match run1("gmtime", x) {
        Ok(b) => b,
        Err(e) => return fail(if is_panic(&e) { "gmtime-panic" } else { "gmtime-rejects-in-range" }, format!("gmtime: {e}")),
    };
    let k = match bdt_to_micros(&bdt) {
        Ok(k) => k,
        Err(e) => return fail("gmtime-bdt-invalid", format!("gmtime gave {}: {e}", bdt.show())),
    };
    if !close(&k, x) {
        return fail("gmtime-wrong-instant", format!("gmtime gave {} which denotes {k} µs, input denotes [{lo}, {hi}] µs", bdt.show()));
    }
    if let MVal::Int(i, _) = x {
        // integer epoch: exact comparison with the model BDT
        let want = model_bdt(i.to_i64().unwrap());
        let want = MVal::Arr(want.iter().map(|v| int(*v)).collect());
        if !bdt.same(&want) {
            return fail("gmtime-differs-from-model", format!("gmtime gave {} but the calendar model says {}", bdt.show(), want.show()));
        }
    }
    // B: gmtime | mktime
    match run1("gmtime | mktime", x) {
        Ok(v) => {
            if !same_instant(x, &v) {
                return fail("gmtime-mktime", format!("gmtime|mktime gave {}", v.show()));
            }
            if x.is_int() && !v.is_int() {
                return fail("mktime-not-integer", format!("gmtime|mktime of an integer epoch gave {}", v.show()));
            }
        }
        Err(e) => return fail("gmtime-mktime", format!("gmtime|mktime: {e}")),
    }
    // C: todate | fromdate, and the text itself
    let text = match run1("todate", x) {
        Ok(MVal::TStr(s)) => String::from_utf8_lossy(&s).into_owned(),
        Ok(o) => return fail("todate", format!("todate gave {}", o.show())),
        Err(e) => return fail("todate", format!("todate: {e}")),
    };
    match run1("todate | fromdate", x) {
        Ok(v) => {
            if !same_instant(x, &v) {
                return fail("todate-fromdate", format!("todate gave {text:?}, todate|fromdate gave {}", v.show()));
            }
            if x.is_int() && !v.is_int() {
                return fail("fromdate-not-integer", format!("todate|fromdate of an integer epoch gave {} (text {text})", v.show()));
            }
        }
        Err(e) => return fail("todate-fromdate", format!("todate gave {text:?}; fromdate: {e}")),
    }
    // text must be the model's ISO rendering (years 0..9999: plain 4-digit form)
    let secs = num_integer_div_floor(&k, &BigInt::from(1_000_000)).to_i64().unwrap();
    let b = model_bdt(secs);
    if (0..=9999).contains(&b[0]) {
        let want = iso(b[0], b[1] + 1, b[2], b[3], b[4], b[5]);
        let ok = if x.is_int() {
            text == format!("{want}Z")
        } else {
            // the instant todate prints may differ by the truncation of the fraction; compare prefix on the instant it chose
            text.ends_with('Z') && text.len() >= 20 && {
                let t = &text[..19];
                // parse the printed fields and compare with the printed instant via fromdate (done above); here: shape only
                t.as_bytes()[4] == b'-' && t.as_bytes()[10] == b'T'
            }
        };
        if !ok {
            return fail("todate-text", format!("todate gave {text:?}, the model renders {want}Z"));
        }
    }
    // D: strftime | strptime | mktime for complete formats (integer epochs, years 1..9999)
    if x.is_int() && (1..=9999).contains(&b[0]) {
        for f in FORMATS {
            if *f == "%Y%m%d%H%M%S" && b[0] < 1000 {
                continue;
            }
            let prog = format!("strftime({f:?}) | [., (strptime({f:?}) | mktime)]");
            match run1(&prog, x) {
                Ok(MVal::Arr(v)) if v.len() == 2 => {
                    if !same_instant(x, &v[1]) || !v[1].is_int() {
                        return fail("strftime-strptime", format!("format {f}: strftime gave {}, strptime|mktime gave {}", v[0].show(), v[1].show()));
                    }
                }
                Ok(o) => return fail("strftime-strptime", format!("format {f}: {}", o.show())),
                Err(e) => return fail("strftime-strptime", format!("format {f}: {e}")),
            }
        }
        // BDT input to strftime equals epoch input
        match run1("[strftime(\"%F %T %j %u\"), (gmtime | strftime(\"%F %T %j %u\"))]", x) {
            Ok(MVal::Arr(v)) if v.len() == 2 && v[0].same(&v[1]) => {
                let want = format!("{:04}-{:02}-{:02} {:02}:{:02}:{:02} {:03} {}", b[0], b[1] + 1, b[2], b[3], b[4], b[5], b[7] + 1, if b[6] == 0 { 7 } else { b[6] });
                if !v[0].same(&tstr(&want)) {
                    return fail("strftime-text", format!("strftime gave {} but the model renders {want:?}", v[0].show()));
                }
            }
            Ok(o) => return fail("strftime-bdt-vs-epoch", o.show()),
            Err(e) => return fail("strftime-bdt-vs-epoch", e),
        }
    }
    let near_boundary = {
        let d = secs.div_euclid(86400);
        let (y, m, dd) = civil_from_days(d);
        (m == 2 && dd >= 28) || (m == 3 && dd == 1) || (m == 12 && dd == 31) || (m == 1 && dd == 1) || y <= MIN_Y + 1 || y >= MAX_Y - 1
    };
    let nontrivial = near_boundary || secs < 0 || fractional || secs.abs() >= (1 << 31);
    let mut ok = CaseOk::new(nontrivial, fnv_str(&[&format!("{x:?}")]));
    ok = ok.class(if fractional { "fractional" } else { "integral" });
    if secs < 0 {
        ok = ok.class("negative");
    }
    if near_boundary {
        ok = ok.class("near-calendar-boundary");
    }
    if sample {
        ok = ok.desc(Some(json!({"epoch": x.show(), "gmtime": bdt.show(), "todate": text})));
    }
    Ok(ok)
}

/// Any input at all: each filter must give an error or an answer denoting the input instant.
fn check_any(x: &MVal, sample: bool) -> CaseResult {
    let case = || json!({"input": x.show(), "repr": format!("{x:?}")});
    let inm = input_micros(x);
    let must_fail = match &inm {
        None => true,
        Some((lo, _, _)) => beyond(&num_integer_div_floor(lo, &BigInt::from(1_000_000))),
    };
    let mut rejected = 0;
    for prog in ["gmtime", "todate", "gmtime|mktime", "todate|fromdate", "strftime(\"%s\")", "strftime(\"%Y-%m-%dT%H:%M:%SZ\")|fromdate"] {
        let outs = jq::eval(prog, &[], x.to_val(), 3).map_err(|e| CaseFail::new("compile", e, case()))?;
        let bad = |sig: &str, msg: String| Err(CaseFail::new(format!("{sig}:{}", prog.split('|').next().unwrap().split('(').next().unwrap()), msg, json!({"input": x.show(), "filter": prog})));
        match outs.as_slice() {
            [Out::Err(_)] => rejected += 1,
            [Out::Panic(p)] => return bad("panic", format!("{prog}: {p}")),
            [Out::Val(v)] => {
                let v = MVal::from_val(v);
                if must_fail {
                    return bad("accepts-unrepresentable", format!("{prog} answered {} for an input that denotes no representable instant", v.show()));
                }
                // the answer must denote the input instant
                let k: Result<BigInt, String> = match prog {
                    "gmtime" => bdt_to_micros(&v),
                    "todate" => {
                        // re-read through the model-independent route: fromdate is checked separately; here accept any string
                        continue;
                    }
                    "strftime(\"%s\")" => match &v {
                        MVal::TStr(s) => String::from_utf8_lossy(s).parse::<i64>().map(|s| BigInt::from(s) * 1_000_000).map_err(|e| e.to_string()),
                        _ => Err("not a string".into()),
                    },
                    _ => match input_micros(&v) {
                        Some((lo, _, _)) => Ok(lo),
                        None => Err(format!("not a number: {}", v.show())),
                    },
                };
                match k {
                    Ok(k) => {
                        let whole_second = prog.starts_with("strftime");
                        let okk = if whole_second {
                            // formats without fractions drop them: compare on the second
                            let (lo, hi, _) = inm.clone().unwrap();
                            let m = BigInt::from(1_000_000);
                            k >= num_integer_div_floor(&lo, &m) * &m - &m && k <= num_integer_div_floor(&hi, &m) * &m + &m
                        } else {
                            close(&k, x)
                        };
                        if !okk {
                            return bad("different-instant", format!("{prog} gave {} which denotes {k} µs", v.show()));
                        }
                    }
                    Err(e) => return bad("malformed-answer", format!("{prog} gave {}: {e}", v.show())),
                }
            }
            other => return bad("unexpected", jq::show_outs(other)),
        }
    }
    let mut ok = CaseOk::new(true, fnv_str(&[&format!("{x:?}")]));
    ok = ok.class(if must_fail { "must-be-rejected" } else { "representable-or-margin" });
    if rejected > 0 {
        ok = ok.class("rejected-by-some-filter");
    }
    if sample {
        ok = ok.desc(Some(case()));
    }
    Ok(ok)
}

/// BDT arrays into mktime / strftime.
fn check_bdt(a: &[MVal], sample: bool) -> CaseResult {
    let x = MVal::Arr(a.to_vec());
    let case = || json!({"bdt": x.show()});
    // model: valid iff six leading fields are in range
    let geti = |v: &MVal| -> Option<i64> {
        match v {
            MVal::Int(i, _) => i.to_i64(),
            _ => None,
        }
    };
    let secf = |v: &MVal| -> Option<f64> { v.as_f64() };
    let fields: Option<(i64, i64, i64, i64, i64, f64)> = if a.len() >= 6 {
        match (geti(&a[0]), geti(&a[1]), geti(&a[2]), geti(&a[3]), geti(&a[4]), secf(&a[5])) {
            (Some(y), Some(mo), Some(d), Some(h), Some(mi), Some(s)) => Some((y, mo, d, h, mi, s)),
            _ => None,
        }
    } else {
        None
    };
    let valid = match fields {
        Some((y, mo, d, h, mi, s)) => (MIN_Y..=MAX_Y).contains(&y) && (0..12).contains(&mo) && d >= 1 && d <= days_in_month(y, mo + 1) && (0..24).contains(&h) && (0..60).contains(&mi) && s.is_finite() && (0.0..60.0).contains(&s),
        None => false,
    };
    // arithmetic normalisation (only used to accept lenient answers for invalid-but-numeric arrays)
    let arith: Option<BigInt> = fields.and_then(|(y, mo, d, h, mi, s)| {
        if !s.is_finite() || y.abs() > 20000 || mo.abs() > 1000 || d.abs() > 100000 || h.abs() > 100000 || mi.abs() > 100000 || s.abs() > 1e9 {
            return None;
        }
        let yy = y + mo.div_euclid(12);
        let mm = mo.rem_euclid(12) + 1;
        let days = days_from_civil(yy, mm, 1) + d - 1;
        Some((BigInt::from(days) * 86400 + h * 3600 + mi * 60) * 1_000_000 + BigInt::from_f64((s * 1e6).round()).unwrap())
    });
    let outs = jq::eval("mktime", &[], x.to_val(), 3).map_err(|e| CaseFail::new("compile", e, case()))?;
    let bad = |sig: &str, msg: String| Err(CaseFail::new(sig, msg, case()));
    match outs.as_slice() {
        [Out::Panic(p)] => return bad("mktime-panic", p.clone()),
        [Out::Err(_)] => {
            if valid {
                return bad("mktime-rejects-valid", format!("mktime rejected a valid broken-down time: {}", jq::show_outs(&outs)));
            }
        }
        [Out::Val(v)] => {
            let v = MVal::from_val(v);
            let im = input_micros(&v);
            let slack = BigInt::from_f64(2.0 + im.as_ref().map_or(0.0, |t| t.2.ceil())).unwrap();
            let k = im.map(|t| t.0);
            match (k, &arith) {
                (Some(k), Some(w)) => {
                    let diff = (&k - w).abs();
                    if diff > slack {
                        return bad(if valid { "mktime-wrong-instant" } else { "mktime-different-instant-for-malformed" }, format!("mktime gave {} ({k} µs) but the fields denote {w} µs", v.show()));
                    }
                    if valid {
                        let frac = fields.unwrap().5.fract() != 0.0;
                        if !frac && !v.is_int() {
                            return bad("mktime-not-integer", format!("mktime gave {}", v.show()));
                        }
                    }
                }
                (_, None) => return bad("mktime-accepts-malformed", format!("mktime answered {} for a malformed array", v.show())),
                (None, _) => return bad("mktime-malformed-answer", v.show()),
            }
        }
        other => return bad("mktime-unexpected", jq::show_outs(other)),
    }
    // strftime on a BDT never panics, and for valid input renders the same fields
    let outs = jq::eval("strftime(\"%Y-%m-%dT%H:%M:%SZ\")", &[], x.to_val(), 3).map_err(|e| CaseFail::new("compile", e, case()))?;
    match outs.as_slice() {
        [Out::Panic(p)] => return bad("strftime-panic", p.clone()),
        [Out::Val(v)] if valid => {
            let (y, mo, d, h, mi, s) = fields.unwrap();
            if (0..=9999).contains(&y) {
                let want = format!("{}Z", iso(y, mo + 1, d, h, mi, s.floor() as i64));
                if !MVal::from_val(v).same(&tstr(&want)) {
                    return bad("strftime-bdt-text", format!("strftime gave {v} but the fields render as {want}"));
                }
            }
        }
        [Out::Err(_)] if valid => return bad("strftime-rejects-valid", jq::show_outs(&outs)),
        _ => {}
    }
    let mut ok = CaseOk::new(true, fnv_str(&[&format!("{x:?}")]));
    ok = ok.class(if valid { "valid-bdt" } else { "malformed-bdt" });
    if sample {
        ok = ok.desc(Some(case()));
    }
    Ok(ok)
}

/// ISO strings with offsets into fromdate.
fn check_iso(secs: i64, micros: i64, off_min: i64, sample: bool) -> CaseResult {
    let local = secs + off_min * 60;
    let b = model_bdt(local);
    if !(0..=9999).contains(&b[0]) {
        return Ok(CaseOk::trivial().class("year-outside-0..9999"));
    }
    let mut s = iso(b[0], b[1] + 1, b[2], b[3], b[4], b[5]);
    if micros > 0 {
        s += &format!(".{micros:06}");
    }
    if off_min == 0 {
        s += "Z";
    } else {
        s += &format!("{}{:02}:{:02}", if off_min < 0 { '-' } else { '+' }, off_min.abs() / 60, off_min.abs() % 60);
    }
    let x = tstr(&s);
    let case = || json!({"text": s, "expected_epoch": format!("{secs}.{micros:06}")});
    match run1("fromdate", &x) {
        Ok(v) => {
            let want: BigInt = BigInt::from(secs) * 1_000_000 + micros;
            let ok = match input_micros(&v) {
                Some((lo, hi, ulp)) => {
                    // a double near 7e10 cannot resolve a microsecond
                    let slack = BigInt::from_f64(1.0 + ulp.ceil()).unwrap();
                    let (d1, d2): (BigInt, BigInt) = (&lo - &want, &hi - &want);
                    d1.abs() <= slack || d2.abs() <= slack
                }
                None => false,
            };
            if !ok {
                return Err(CaseFail::new("fromdate-wrong-instant", format!("fromdate gave {} for {s}", v.show()), case()));
            }
            if micros == 0 && !v.is_int() {
                return Err(CaseFail::new("fromdate-not-integer", format!("fromdate gave {} for {s}", v.show()), case()));
            }
        }
        Err(e) => return Err(CaseFail::new(if is_panic(&e) { "fromdate-panic" } else { "fromdate-rejects" }, format!("fromdate on {s}: {e}"), case())),
    }
    let mut ok = CaseOk::new(off_min != 0 || micros != 0, fnv_str(&[&s]));
    ok = ok.class(if off_min != 0 { "with-offset" } else { "utc" });
    if sample {
        ok = ok.desc(Some(case()));
    }
    Ok(ok)
}

// ---------------------------------------------------------------- domains

fn edge_epochs() -> Vec<i64> {
    let mut v: Vec<i64> = vec![0, 1, -1, 59, 60, 86399, 86400, -86400, -86401, 1 << 31, (1 << 31) - 1, -(1 << 31), -(1 << 31) - 1, (1 << 31) + 1, 1 << 32, 1 << 53, -(1 << 53), 8910480];
    v.retain(|e| *e >= lo_epoch() && *e <= hi_epoch());
    for y in [-9998i64, -9997, -4, -1, 0, 1, 4, 100, 400, 1582, 1600, 1900, 1969, 1970, 1972, 2000, 2038, 2100, 9997, 9998] {
        for (m, d) in [(1, 1), (2, 28), (2, 29), (3, 1), (12, 31), (6, 15)] {
            if d > days_in_month(y, m) {
                continue;
            }
            let base = days_from_civil(y, m, d) * 86400;
            for s in [0, 1, 86399, 43200] {
                v.push(base + s);
            }
            if base - 1 >= lo_epoch() {
                v.push(base - 1);
            }
        }
    }
    v.sort();
    v.dedup();
    v
}

fn gen_epoch(src: &mut Src) -> MVal {
    let secs = match src.weighted(&[3, 5, 2]) {
        0 => *src.pick(&edge_epochs()),
        1 => {
            let y = src.range(MIN_Y, MAX_Y);
            let m = src.range(1, 12);
            let d = src.range(1, days_in_month(y, m));
            days_from_civil(y, m, d) * 86400 + src.range(0, 86399)
        }
        _ => src.range(-4_000_000_000, 8_000_000_000),
    };
    match src.weighted(&[5, 1, 3, 1]) {
        0 => int(secs),
        1 => MVal::Int(BigInt::from(secs), true),
        2 => {
            let us = *src.pick(&[0i64, 1, 500_000, 999_999, 123_456, 999_999, 250_000, 7]);
            let us = if src.bool() { us } else { src.range(0, 999_999) };
            MVal::Float(secs as f64 + us as f64 / 1e6)
        }
        _ => MVal::Dec(format!("{secs}.{:06}", src.range(0, 999_999))),
    }
}

fn gen_any(src: &mut Src) -> MVal {
    match src.weighted(&[4, 3, 3, 2, 2]) {
        0 => {
            let pool: Vec<BigInt> = vec![
                BigInt::from(9223372036854i64),
                BigInt::from(9223372036855i64),
                BigInt::from(-9223372036855i64),
                BigInt::from(i64::MAX),
                BigInt::from(i64::MIN),
                BigInt::from(1u8) << 64usize,
                -(BigInt::from(1u8) << 64usize),
                BigInt::from(253402300799i64),
                BigInt::from(253402300800i64),
                BigInt::from(-62135596800i64),
                BigInt::from(-62167219200i64),
                BigInt::from(-377705116800i64),
                BigInt::from(-377736739200i64),
                BigInt::from(-377705116801i64),
                BigInt::from(253370764799i64),
                BigInt::from(1i64 << 53),
                BigInt::from(1i64 << 62),
                BigInt::from(days_from_civil(10000, 1, 1) * 86400),
                BigInt::from(days_from_civil(-9999, 1, 1) * 86400 - 1),
            ];
            let mut p = src.pick(&pool).clone();
            p += src.range(-2, 2);
            MVal::Int(p, src.chance(32))
        }
        1 => MVal::Float(*src.pick(&[f64::NAN, f64::INFINITY, f64::NEG_INFINITY, 1e300, -1e300, 9.3e12, -9.3e12, 1e19, 2.5e11, -3.8e11, 0.9999995, -0.0000005, 9007199254740993.0, 253402300799.9])),
        2 => {
            let f = f64::from_bits(src.u64());
            MVal::Float(f)
        }
        3 => gen_epoch(src),
        _ => src.pick(&[MVal::Null, MVal::Bool(true), tstr("0"), tstr("1970-01-01T00:00:00Z"), MVal::Arr(vec![]), MVal::Obj(vec![]), MVal::Dec("1e1000".into()), MVal::Dec("-1e1000".into()), MVal::BStr(vec![0])]).clone(),
    }
}

fn gen_bdt(src: &mut Src) -> Vec<MVal> {
    let valid = src.chance(150);
    let y = if valid || src.bool() { src.range(MIN_Y, MAX_Y) } else { *src.pick(&[-10000i64, -9999, 9999, 10000, 32767, 32768, -32769, 1 << 31, i64::MAX]) };
    let mo = if valid { src.range(0, 11) } else { *src.pick(&[-1i64, 0, 11, 12, 126, 127, 128, 255, -128, -129, i64::MAX]) };
    let yy = y.clamp(-20000, 20000);
    let dmax = days_in_month(yy, mo.rem_euclid(12) + 1);
    let d = if valid { src.range(1, dmax) } else { *src.pick(&[0i64, 1, 28, 29, 30, 31, 32, -1, 127, 128]) };
    let h = if valid || src.bool() { src.range(0, 23) } else { *src.pick(&[24i64, -1, 127, 128, 25]) };
    let mi = if valid || src.bool() { src.range(0, 59) } else { *src.pick(&[60i64, -1, 127, 128]) };
    let s: MVal = if valid {
        match src.below(3) {
            0 => int(src.range(0, 59)),
            1 => MVal::Float(src.range(0, 59) as f64 + *src.pick(&[0.5, 0.25, 0.999999, 0.000001, 0.123456])),
            _ => MVal::Float(src.range(0, 59) as f64),
        }
    } else {
        src.pick(&[int(59), int(60), int(61), int(-1), MVal::Float(59.999999), MVal::Float(60.0), MVal::Float(1e9), MVal::Float(-0.5), MVal::Float(f64::NAN), MVal::Float(f64::INFINITY), MVal::Float(127.5), MVal::Float(300.0), tstr("1"), MVal::Null, int(128)]).clone()
    };
    let mut v = vec![int(y), int(mo), int(d), int(h), int(mi), s];
    if !valid && src.chance(90) {
        // a field that is out of range but congruent to a valid value modulo a power of two
        // (a narrowing cast would wrap it into range): must be rejected like any other
        let i = src.below(5);
        let base = [src.range(MIN_Y, MAX_Y), src.range(0, 11), src.range(1, 28), src.range(0, 23), src.range(0, 59)][i];
        let k = *src.pick(&[1i64, -1, 2, -2, 3, 255, 256, -256, 1 << 8, 1 << 16, 1 << 24, 1 << 32, -(1 << 32), 1 << 40]);
        let m = if i == 0 { *src.pick(&[1i64 << 16, 1 << 32]) } else { *src.pick(&[1i64 << 8, 1 << 8, 1 << 16, 1 << 32]) };
        v[i] = int(base + k.saturating_mul(m) % (1i64 << 56));
    }
    match src.below(6) {
        0 => {
            // junk / missing trailing fields
            v.push(tstr("x"));
            v.push(MVal::Null);
        }
        1 if !valid => {
            v.truncate(src.below(6));
        }
        2 if !valid => {
            let i = src.below(5);
            v[i] = src.pick(&[MVal::Float(1.5), tstr("1"), MVal::Null, MVal::Float(1970.0)]).clone();
        }
        _ => {
            v.push(int(0));
            v.push(int(0));
        }
    }
    v
}

pub fn run(mut rep: Report) -> ! {
    if let Err(e) = self_test() {
        rep.inconclusive(&format!("calendar-model-self-test-failed:{e}"));
    }
    rep.set_rule(
        "epochs (edge set: range limits, leap days, year/century boundaries, negative times, +-2^31, +-2^53 and neighbours; random instants with uniformly random year in -9998..9998; integer, big-integer, float and decimal representations, fractional parts) checked against an independent proleptic-Gregorian model: gmtime fields, gmtime|mktime, todate|fromdate, todate text, strftime(F)|strptime(F)|mktime for 10 complete formats; \
         arbitrary numbers and non-numbers (NaN, infinities, overflow boundaries, non-numeric values): every filter must give an error or an answer denoting the input instant; broken-down arrays over edge field values into mktime/strftime; ISO-8601 texts with offsets into fromdate; \
         non-trivial = within a day of a leap-day/year/range boundary, negative, fractional or beyond 2^31 in magnitude; BDT/ISO cases: any case with an edge field / an offset or fraction",
    );
    rep.assume("fractional instants are compared to the microsecond plus the resolution of the double that carries them (doubles near 2.5e11 cannot resolve a microsecond)");
    rep.assume("round trips through strftime formats are asserted for years 1..9999 (outside, %Y is not a fixed-width field)");
    let edges = edge_epochs();
    let ne = edges.len() as u64;
    rep.extra("edge_epochs", json!(ne));
    // regression / known-finding demonstrations
    {
        let demos: Vec<MVal> = vec![int(9223372036855), MVal::Float(f64::NAN), int(9007199254740992), MVal::Float(f64::INFINITY)];
        rep.fixed("regressions", demos.len(), |i| check_any(&demos[i], true));
        let bd: Vec<Vec<MVal>> = vec![
            vec![int(1970), int(127), int(1), int(0), int(0), int(0)],
            vec![int(1970), int(0), int(1), int(0), int(0), MVal::Float(f64::NAN)],
            vec![int(1970), int(0), int(1), int(0), int(0), MVal::Float(1e9)],
        ];
        rep.fixed("regressions-bdt", bd.len(), |i| check_bdt(&bd[i], true));
    }
    {
        let edges = &edges;
        rep.exhaustive("edge-epochs", ne * 2, move |i, s| {
            let e = edges[(i / 2) as usize];
            let x = if i % 2 == 0 { int(e) } else { MVal::Float(e as f64 + 0.5) };
            if i % 2 == 1 && (e as f64 + 0.5) as i64 != e {
                return Ok(CaseOk::trivial().class("float-cannot-carry-fraction"));
            }
            check_epoch(&x, s)
        });
    }
    let n = rep.n(40_000, 2_000_000);
    rep.random("random-epochs", n, 40, |src| {
        let x = gen_epoch(src);
        let s = src.sample;
        check_epoch(&x, s)
    });
    let n = rep.n(60_000, 2_000_000);
    rep.random("any-input", n, 24, |src| {
        let x = gen_any(src);
        let s = src.sample;
        check_any(&x, s)
    });
    let n = rep.n(80_000, 2_000_000);
    rep.random("broken-down-arrays", n, 40, |src| {
        let a = gen_bdt(src);
        let s = src.sample;
        check_bdt(&a, s)
    });
    let n = rep.n(40_000, 1_000_000);
    rep.random("iso-offsets", n, 32, |src| {
        let y = src.range(1, 9998);
        let m = src.range(1, 12);
        let d = src.range(1, days_in_month(y, m));
        let secs = days_from_civil(y, m, d) * 86400 + src.range(0, 86399);
        let micros = if src.bool() { 0 } else { *src.pick(&[1i64, 500_000, 123_456, 999_999, 100_000]) };
        let off = if src.bool() { 0 } else { *src.pick(&[60i64, -480, 330, 345, -210, 840, -720, 1, -1, 59]) };
        let s = src.sample;
        check_iso(secs, micros, off, s)
    });
    rep.finish()
}

#[allow(dead_code)]
fn _u(_: Val) {}
