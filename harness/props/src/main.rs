//! `verif <ID> <quick|thorough> [--replay FILE]`

use vcore::runner::{unhex, Mode, Report, Tier};

mod c01;
mod c02;
mod c03;
mod c04;
mod c05;
mod c06;
mod c07;
mod c08;
mod c09;
mod c10;
mod c11;
mod c12;
mod c13;
mod c14;
mod c15;
mod c16;
mod c17;
mod c18;
mod c19;
mod c20;
mod reftest;

fn main() {
    let args: Vec<String> = std::env::args().collect();
    if args.len() < 3 {
        eprintln!("usage: verif <ID> <quick|thorough> [--replay FILE]");
        std::process::exit(2);
    }
    let id = args[1].clone();
    let tier = if args[2] == "thorough" { Tier::Thorough } else { Tier::Quick };
    let mut mode = Mode::Run;
    if let Some(p) = args.iter().position(|a| a == "--replay") {
        let path = args.get(p + 1).expect("--replay FILE");
        let text = std::fs::read_to_string(path).expect("replay file");
        let v: serde_json::Value = serde_json::from_str(&text).expect("replay json");
        mode = Mode::Replay {
            sub: v["sub"].as_str().unwrap_or("").to_string(),
            bytes: v["bytes"].as_str().map(unhex),
            index: v["index"].as_u64(),
        };
    }
    vcore::jq::install_panic_hook();
    if id == "C05" && args.iter().any(|a| a == "--child") {
        c05::child(&args)
    }
    let report = Report::new(&id, tier, mode);
    if id == "REFTEST" {
        reftest::run()
    }
    if id == "REFRUN" {
        // verif REFRUN <which: ref|jaq|both> <program> <input-json>
        let input = jaq_json::read::parse_single(args[4].as_bytes()).unwrap();
        if args[2] != "jaq" {
            let r = vcore::refrun::run_ref(&args[3], &[("$g", jaq_json::Val::Null)], input.clone(), 64, 150_000);
            println!("REF: {:?}", r.map(|r| r.0.iter().map(|o| o.show()).collect::<Vec<_>>()));
        }
        if args[2] != "ref" {
            let j = vcore::jq::eval(&args[3], &[("g", jaq_json::Val::Null)], input, 64);
            println!("JAQ: {:?}", j.map(|j| vcore::jq::show_outs(&j)));
        }
        std::process::exit(0);
    }
    match id.as_str() {
        "C01" => c01::run(report),
        "C02" => c02::run(report),
        "C03" => c03::run(report),
        "C04" => c04::run(report),
        "C05" => c05::run(report),
        "C06" => c06::run(report),
        "C07" => c07::run(report),
        "C08" => c08::run(report),
        "C09" => c09::run(report),
        "C10" => c10::run(report),
        "C11" => c11::run(report),
        "C12" => c12::run(report),
        "C13" => c13::run(report),
        "C14" => c14::run(report),
        "C15" => c15::run(report),
        "C16" => c16::run(report),
        "C17" => c17::run(report),
        "C18" => c18::run(report),
        "C19" => c19::run(report),
        "C20" => c20::run(report),
        _ => {
            eprintln!("unknown property {id}");
            std::process::exit(2)
        }
    }
}
