//! Development aid: REF and jaq on the manual's examples.
use vcore::jq;
use vcore::manual;
use vcore::refrun::{self, ROut};
use jaq_json::Val;

pub fn run() -> ! {
    let exs = manual::examples();
    println!("{} examples", exs.len());
    let (mut ok, mut bad, mut skip, mut jaqbad) = (0, 0, 0, 0);
    for e in &exs {
        let want: Vec<Val> = match jaq_json::read::parse_many(e.outputs.as_bytes()).collect::<Result<Vec<_>, _>>() {
            Ok(w) => w,
            Err(_) => { skip += 1; continue; }
        };
        let jout = match jq::eval(&e.filter, &[], Val::Null, 200) {
            Ok(o) => o,
            Err(_) => { skip += 1; println!("NOCOMPILE {}:{} {}", e.file, e.line, e.filter); continue; }
        };
        let js: Vec<String> = jout.iter().map(|o| o.show()).collect();
        let ws: Vec<String> = want.iter().map(|v| format!("{v}")).collect();
        if js != ws { jaqbad += 1; println!("JAQ!=DOC {}:{} {} => {:?} doc {:?}", e.file, e.line, e.filter, js, ws); }
        let (rout, _) = match refrun::run_ref(&e.filter, &[], Val::Null, 200, 2_000_000) {
            Some(r) => r,
            None => { skip += 1; continue; }
        };
        if rout.iter().any(|r| r.inconclusive()) { skip += 1; println!("SKIP {}:{} {} => {}", e.file, e.line, e.filter, rout.last().unwrap().show()); continue; }
        let rs: Vec<String> = rout.iter().map(|o| o.show()).collect();
        if rs == js { ok += 1 } else { bad += 1; println!("REF!=JAQ {}:{} {}\n   ref {:?}\n   jaq {:?}", e.file, e.line, e.filter, rs, js); }
    }
    println!("ok {ok} bad {bad} skip {skip} jaq!=doc {jaqbad}");
    let _ = ROut::Fuel;
    std::process::exit(0)
}
