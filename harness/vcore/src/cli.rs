//! Running the `jaq` binary built from /repo's working tree.

use std::io::{Read, Write};
use std::path::{Path, PathBuf};
use std::process::{Command, Stdio};
use std::sync::atomic::{AtomicU64, Ordering};

pub fn root() -> String {
    std::env::var("VERIF_ROOT").unwrap_or_else(|_| "/verif".into())
}

pub fn jaq_bin() -> PathBuf {
    if let Ok(p) = std::env::var("VERIF_JAQ_BIN") {
        return p.into();
    }
    PathBuf::from(format!("{}/target/jaqbin/debug/jaq", root()))
}

#[derive(Debug, Clone)]
pub struct RunOut {
    /// exit code, or 128+signal when killed by a signal
    pub status: i32,
    pub signal: Option<i32>,
    pub stdout: Vec<u8>,
    pub stderr: Vec<u8>,
}

impl RunOut {
    pub fn out_str(&self) -> String {
        String::from_utf8_lossy(&self.stdout).into_owned()
    }
    pub fn err_str(&self) -> String {
        String::from_utf8_lossy(&self.stderr).into_owned()
    }
    pub fn panicked(&self) -> bool {
        self.status == 101 || matches!(self.signal, Some(6) | Some(11) | Some(4) | Some(7))
    }
}

pub struct Cmd {
    pub program: PathBuf,
    pub args: Vec<std::ffi::OsString>,
    pub stdin: Vec<u8>,
    pub cwd: Option<PathBuf>,
    pub envs: Vec<(String, String)>,
    pub env_clear: bool,
}

impl Cmd {
    pub fn jaq() -> Cmd {
        Cmd { program: jaq_bin(), args: Vec::new(), stdin: Vec::new(), cwd: None, envs: Vec::new(), env_clear: true }
    }
    pub fn new(program: impl Into<PathBuf>) -> Cmd {
        Cmd { program: program.into(), args: Vec::new(), stdin: Vec::new(), cwd: None, envs: Vec::new(), env_clear: false }
    }
    pub fn arg(mut self, a: impl Into<std::ffi::OsString>) -> Cmd {
        self.args.push(a.into());
        self
    }
    pub fn args<I, S>(mut self, it: I) -> Cmd
    where
        I: IntoIterator<Item = S>,
        S: Into<std::ffi::OsString>,
    {
        self.args.extend(it.into_iter().map(Into::into));
        self
    }
    pub fn stdin(mut self, b: impl Into<Vec<u8>>) -> Cmd {
        self.stdin = b.into();
        self
    }
    pub fn cwd(mut self, p: impl AsRef<Path>) -> Cmd {
        self.cwd = Some(p.as_ref().to_path_buf());
        self
    }
    pub fn env(mut self, k: &str, v: &str) -> Cmd {
        self.envs.push((k.to_string(), v.to_string()));
        self
    }
    pub fn run(self) -> std::io::Result<RunOut> {
        let mut c = Command::new(&self.program);
        c.args(&self.args).stdin(Stdio::piped()).stdout(Stdio::piped()).stderr(Stdio::piped());
        if self.env_clear {
            c.env_clear();
            c.env("PATH", "/usr/bin:/bin");
            c.env("HOME", "/nonexistent");
            c.env("NO_COLOR", "1");
            c.env("RUST_BACKTRACE", "0");
        }
        for (k, v) in &self.envs {
            c.env(k, v);
        }
        if let Some(d) = &self.cwd {
            c.current_dir(d);
        }
        let mut child = c.spawn()?;
        let mut stdin = child.stdin.take().unwrap();
        let data = self.stdin;
        let writer = std::thread::spawn(move || {
            let _ = stdin.write_all(&data);
        });
        let mut so = child.stdout.take().unwrap();
        let mut se = child.stderr.take().unwrap();
        let t_err = std::thread::spawn(move || {
            let mut b = Vec::new();
            let _ = se.read_to_end(&mut b);
            b
        });
        let mut stdout = Vec::new();
        let _ = so.read_to_end(&mut stdout);
        let stderr = t_err.join().unwrap_or_default();
        let st = child.wait()?;
        let _ = writer.join();
        use std::os::unix::process::ExitStatusExt;
        let signal = st.signal();
        let status = st.code().unwrap_or_else(|| 128 + signal.unwrap_or(0));
        Ok(RunOut { status, signal, stdout, stderr })
    }
}

static SCRATCH_N: AtomicU64 = AtomicU64::new(0);

/// A scratch directory under /verif/target/scratch, removed on drop.
pub struct Scratch {
    pub path: PathBuf,
}

impl Scratch {
    pub fn new(tag: &str) -> Scratch {
        let n = SCRATCH_N.fetch_add(1, Ordering::Relaxed);
        let path = PathBuf::from(format!("{}/target/scratch/{}-{}-{}", root(), tag, std::process::id(), n));
        let _ = std::fs::remove_dir_all(&path);
        std::fs::create_dir_all(&path).expect("create scratch dir");
        Scratch { path }
    }
    pub fn file(&self, name: &str, content: &[u8]) -> PathBuf {
        let p = self.path.join(name);
        if let Some(d) = p.parent() {
            let _ = std::fs::create_dir_all(d);
        }
        std::fs::write(&p, content).expect("write scratch file");
        p
    }
}

impl Drop for Scratch {
    fn drop(&mut self) {
        // make everything removable again (tests change permission bits)
        let _ = Command::new("chmod").arg("-R").arg("u+rwx").arg(&self.path).output();
        let _ = std::fs::remove_dir_all(&self.path);
    }
}
