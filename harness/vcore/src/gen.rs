//! Value generator `G_val`: produces model values (`MVal`) from a `Src`.

use crate::mval::MVal;
use crate::src::Src;
use num_bigint::BigInt;
use num_traits::{One, Zero};

#[derive(Clone, Debug)]
pub struct Cfg {
    pub depth: usize,
    pub width: usize,
    pub nan: bool,
    pub inf: bool,
    pub bytes: bool,
    pub dec: bool,
    pub bigint: bool,
    pub float: bool,
    pub invalid_utf8: bool,
    pub nonstring_keys: bool,
    /// extra string atoms (format-specific reserved words)
    pub extra_strs: &'static [&'static str],
    /// maximum number of string pieces
    pub str_pieces: usize,
    /// only numbers of small magnitude (for checks in which a generated program may
    /// multiply a string or build a range with them: memory exhaustion is out of scope)
    pub small_nums: bool,
}

impl Default for Cfg {
    fn default() -> Self {
        Cfg {
            depth: 3,
            width: 4,
            nan: false,
            inf: true,
            bytes: true,
            dec: true,
            bigint: true,
            float: true,
            invalid_utf8: true,
            nonstring_keys: true,
            extra_strs: &[],
            str_pieces: 3,
            small_nums: false,
        }
    }
}

impl Cfg {
    pub fn json_like() -> Self {
        Cfg { bytes: false, invalid_utf8: false, nonstring_keys: false, inf: false, nan: false, ..Default::default() }
    }
    pub fn all() -> Self {
        Cfg { nan: true, ..Default::default() }
    }
    pub fn depth(mut self, d: usize) -> Self {
        self.depth = d;
        self
    }
}

pub fn pow2(n: u32) -> BigInt {
    BigInt::one() << n
}

/// Integer boundary pool.
pub fn int_pool() -> Vec<BigInt> {
    let mut v: Vec<BigInt> = Vec::new();
    for i in -3..=3 {
        v.push(BigInt::from(i));
    }
    for b in [31u32, 32, 53, 63, 64] {
        for d in [-1i32, 0, 1] {
            let x = pow2(b) + BigInt::from(d);
            v.push(x.clone());
            v.push(-x);
        }
    }
    v.push(pow2(70));
    v.push(pow2(128));
    v.push(BigInt::from(10).pow(30));
    v.push(-BigInt::from(10).pow(30));
    v.push(BigInt::from(3037000500u64));
    v.push(BigInt::from(255));
    v.push(BigInt::from(256));
    v.push(BigInt::from(1000));
    v
}

pub const FLOAT_POOL: &[f64] = &[
    0.0,
    -0.0,
    1.0,
    -1.0,
    0.5,
    -0.5,
    1.5,
    2.5,
    0.1,
    5e-324,
    f64::MIN_POSITIVE,
    1e-7,
    1e-320,
    1e21,
    1e22,
    1e308,
    f64::MAX,
    f64::MIN,
    9007199254740992.0,
    9007199254740994.0,
    9223372036854775808.0,
    -9223372036854775808.0,
    3.0,
    255.0,
    4294967296.0,
];

pub const DEC_POOL: &[&str] = &[
    "1.0", "1.10", "1e0", "1e1000", "0.0", "-0.0", "1E+2", "100e-2", "0.1", "1.5", "2.50", "-1e-1000", "0e0",
    "-1.0", "1.00", "3.14", "2.99e6", "1e-400", "-1e1000", "0.5", "123456789012345678901234567890.5",
    "9007199254740993.0", "1.0e500",
    // jaq's reader accepts an explicit plus sign and keeps the literal as read
    "+1.5", "+0.0", "+1e2", "+0.5e-3",
];

pub const STR_PIECES: &[&[u8]] = &[
    b"a", b"b", b"A", b"ab", b"z", b"0", b"1", b" ", b"\"", b"\\", b"'", b"/", b"\0", b"\t", b"\n", b"\r",
    b"\x1f", b"\x7f", b",", b":", b"#", b"-", b"?", b"&", b"<", b">", b"%", b"+", b"=", b"$", b"`", b"!",
    b"*", b"|", b"(", b")", b"[", b"]", b"{", b"}", b".", b";", b"~", b"@", b"^", b"_",
    "é".as_bytes(), "€".as_bytes(), "老".as_bytes(), "😀".as_bytes(), "\u{fffd}".as_bytes(),
    "\u{2028}".as_bytes(), "e\u{301}".as_bytes(), "ß".as_bytes(), "\u{0}".as_bytes(), "\u{80}".as_bytes(),
    b"null", b"true", b"false", b"NaN", b"key", b"start", b"end", b"value", b"name",
];

pub const INVALID_PIECES: &[&[u8]] =
    &[b"\xff", b"\x80", b"\xe2\x82", b"\xc0\x80", b"\xed\xa0\x80", b"\xf0\x9f", b"\xfe", b"\xc3"];

pub fn gen_int(src: &mut Src, cfg: &Cfg) -> MVal {
    if cfg.small_nums {
        return MVal::Int(BigInt::from(src.range(-3, 8)), cfg.bigint && src.chance(32));
    }
    match src.weighted(&[6, 3, 2]) {
        0 => MVal::Int(BigInt::from(src.range(-3, 8)), cfg.bigint && src.chance(32)),
        1 => {
            let pool = int_pool();
            let mut i = src.pick(&pool).clone();
            if !cfg.bigint {
                // clamp into the machine range
                let lim = pow2(62);
                if i > lim || i < -lim.clone() {
                    i = BigInt::from(src.range(-100, 100));
                }
            }
            MVal::Int(i, cfg.bigint && src.chance(64))
        }
        _ => {
            let bits = if cfg.bigint { src.below(130) } else { src.below(62) } as u32;
            let mut x = BigInt::zero();
            for _ in 0..(bits / 32 + 1) {
                x = (x << 32) + BigInt::from(src.u32());
            }
            x = x % (pow2(bits) + 1);
            if src.bool() {
                x = -x;
            }
            MVal::Int(x, cfg.bigint && src.chance(32))
        }
    }
}

pub fn gen_float(src: &mut Src, cfg: &Cfg) -> MVal {
    if cfg.small_nums {
        return MVal::Float(*src.pick(&[0.0, -0.0, 1.0, -1.0, 0.5, -0.5, 1.5, 2.5, 0.1, 3.0]));
    }
    match src.weighted(&[6, 1, 1, 2]) {
        0 => MVal::Float(*src.pick(FLOAT_POOL)),
        1 if cfg.inf => MVal::Float(if src.bool() { f64::INFINITY } else { f64::NEG_INFINITY }),
        2 if cfg.nan => MVal::Float(f64::NAN),
        _ => {
            let f = f64::from_bits(src.u64());
            if f.is_nan() || f.is_infinite() {
                MVal::Float(src.range(-1000, 1000) as f64 / 8.0)
            } else {
                MVal::Float(f)
            }
        }
    }
}

pub fn gen_num(src: &mut Src, cfg: &Cfg) -> MVal {
    match src.weighted(&[6, if cfg.float { 3 } else { 0 }, if cfg.dec { 2 } else { 0 }]) {
        0 => gen_int(src, cfg),
        1 => gen_float(src, cfg),
        _ if cfg.small_nums => MVal::Dec(src.pick(&["1.0", "1.10", "1e0", "0.0", "-0.0", "1E+1", "100e-2", "0.1", "1.5", "2.50", "+1.5", "+0.0"]).to_string()),
        _ => MVal::Dec(src.pick(DEC_POOL).to_string()),
    }
}

pub fn gen_bytes(src: &mut Src, cfg: &Cfg, valid_utf8: bool) -> Vec<u8> {
    let n = src.below(cfg.str_pieces + 1);
    let mut out = Vec::new();
    for _ in 0..n {
        match src.weighted(&[10, if cfg.extra_strs.is_empty() { 0 } else { 5 }, if valid_utf8 { 0 } else { 2 }, 1]) {
            0 => out.extend_from_slice(*src.pick(STR_PIECES)),
            1 => out.extend_from_slice(src.pick(cfg.extra_strs).as_bytes()),
            2 => out.extend_from_slice(*src.pick(INVALID_PIECES)),
            _ => {
                // a random scalar value / byte
                if valid_utf8 {
                    let c = char::from_u32(src.below(0x11000) as u32).unwrap_or('x');
                    let mut b = [0; 4];
                    out.extend_from_slice(c.encode_utf8(&mut b).as_bytes());
                } else {
                    out.push(src.byte());
                }
            }
        }
    }
    out
}

pub fn gen_str(src: &mut Src, cfg: &Cfg) -> MVal {
    if cfg.bytes && src.chance(40) {
        MVal::BStr(gen_bytes(src, cfg, false))
    } else {
        let invalid = cfg.invalid_utf8 && src.chance(40);
        MVal::TStr(gen_bytes(src, cfg, !invalid))
    }
}

pub fn gen_scalar(src: &mut Src, cfg: &Cfg) -> MVal {
    match src.weighted(&[2, 2, 6, 6]) {
        0 => MVal::Null,
        1 => MVal::Bool(src.bool()),
        2 => gen_num(src, cfg),
        _ => gen_str(src, cfg),
    }
}

pub fn gen_key(src: &mut Src, cfg: &Cfg, depth: usize) -> MVal {
    if cfg.nonstring_keys && src.chance(64) {
        gen_val_d(src, cfg, depth.min(1))
    } else {
        match src.weighted(&[8, 3]) {
            0 => MVal::TStr(src.pick(&[&b"a"[..], b"b", b"c", b"d", b"key", b"value", b"start", b"end", b"", b"A"]).to_vec()),
            _ => {
                let c = Cfg { bytes: false, invalid_utf8: false, ..cfg.clone() };
                gen_str(src, &c)
            }
        }
    }
}

pub fn gen_val(src: &mut Src, cfg: &Cfg) -> MVal {
    gen_val_d(src, cfg, cfg.depth)
}

pub fn gen_val_d(src: &mut Src, cfg: &Cfg, depth: usize) -> MVal {
    if depth == 0 {
        return gen_scalar(src, cfg);
    }
    match src.weighted(&[5, 3, 3]) {
        0 => gen_scalar(src, cfg),
        1 => {
            let n = src.below(cfg.width + 1);
            MVal::Arr((0..n).map(|_| gen_val_d(src, cfg, depth - 1)).collect())
        }
        _ => {
            // over-weight objects with >= 2 entries (hashed look-up)
            let n = match src.weighted(&[1, 1, 3, 2, 1]) {
                k => k.min(cfg.width),
            };
            let mut o: Vec<(MVal, MVal)> = Vec::new();
            for _ in 0..n {
                let k = gen_key(src, cfg, depth - 1);
                if k.contains_nan() || o.iter().any(|(k2, _)| crate::mval::eq_m(k2, &k)) {
                    continue;
                }
                let v = gen_val_d(src, cfg, depth - 1);
                o.push((k, v));
            }
            MVal::Obj(o)
        }
    }
}

/// Exhaustive enumeration: all trees with at most `nodes` nodes over the
/// given atoms, arrays of children and objects with keys from `keys`
/// (distinct, in every order of selection).
pub fn enum_trees(atoms: &[MVal], keys: &[MVal], nodes: usize) -> Vec<MVal> {
    // by_size[n] = trees with exactly n nodes
    let mut by_size: Vec<Vec<MVal>> = vec![Vec::new(); nodes + 1];
    if nodes >= 1 {
        by_size[1] = atoms.to_vec();
        by_size[1].push(MVal::Arr(vec![]));
        by_size[1].push(MVal::Obj(vec![]));
    }
    for n in 2..=nodes {
        let mut out = Vec::new();
        // arrays: sequences of children with total size n-1
        let mut seqs: Vec<Vec<MVal>> = Vec::new();
        compositions(&by_size, n - 1, &mut Vec::new(), &mut seqs);
        for s in &seqs {
            out.push(MVal::Arr(s.clone()));
        }
        // objects: children sequences with distinct keys (keys cost nothing)
        for s in &seqs {
            if s.len() <= keys.len() {
                let mut ks: Vec<Vec<usize>> = Vec::new();
                key_choices(keys.len(), s.len(), &mut Vec::new(), &mut ks);
                for kc in ks {
                    out.push(MVal::Obj(kc.iter().zip(s.iter()).map(|(k, v)| (keys[*k].clone(), v.clone())).collect()));
                }
            }
        }
        by_size[n] = out;
    }
    by_size.into_iter().flatten().collect()
}

fn compositions(by_size: &[Vec<MVal>], total: usize, cur: &mut Vec<MVal>, out: &mut Vec<Vec<MVal>>) {
    if total == 0 {
        if !cur.is_empty() {
            out.push(cur.clone());
        }
        return;
    }
    for k in 1..=total {
        for t in &by_size[k] {
            cur.push(t.clone());
            compositions(by_size, total - k, cur, out);
            cur.pop();
        }
    }
}

fn key_choices(nkeys: usize, len: usize, cur: &mut Vec<usize>, out: &mut Vec<Vec<usize>>) {
    if cur.len() == len {
        out.push(cur.clone());
        return;
    }
    for k in 0..nkeys {
        if !cur.contains(&k) {
            cur.push(k);
            key_choices(nkeys, len, cur, out);
            cur.pop();
        }
    }
}
