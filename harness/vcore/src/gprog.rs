//! Program generator `G_prog`: scope- and arity-aware generation of jq
//! program *texts* from a `Src`.  Every generated program is well-scoped by
//! construction (no rejection); names are drawn from tiny pools so that
//! shadowing, closure capture across definition boundaries and label/variable
//! name clashes are frequent.  Sub-terms are always parenthesised, so the
//! printer needs no precedence knowledge (precedence is C15's business).

use crate::src::Src;
use std::collections::BTreeSet;

#[derive(Clone, Debug)]
pub struct FunSig {
    pub name: String,
    /// true = `$x` parameter, false = filter parameter
    pub params: Vec<bool>,
}

#[derive(Clone, Debug, Default)]
pub struct Scope {
    pub vars: Vec<String>,
    pub labels: Vec<String>,
    pub funs: Vec<FunSig>,
    /// filter arguments (arity 0) in scope
    pub args: Vec<String>,
}

#[derive(Clone, Debug, Default)]
pub struct Cfg {
    /// allow `input` / `inputs`
    pub inputs: bool,
    /// restrict to path expressions where a path is expected
    pub max_depth: usize,
    /// allow library calls
    pub stdlib: bool,
    /// allow updates
    pub updates: bool,
    /// allow user definitions
    pub defs: bool,
}

impl Cfg {
    pub fn core(max_depth: usize) -> Cfg {
        Cfg { inputs: false, max_depth, stdlib: true, updates: true, defs: true }
    }
}

pub struct Gen<'s, 'b> {
    pub src: &'s mut Src<'b>,
    pub cfg: Cfg,
    pub classes: BTreeSet<&'static str>,
    pub nodes: usize,
    /// kinds of binders used
    pub binders: BTreeSet<&'static str>,
}

const VARS: [&str; 3] = ["$x", "$y", "$z"];
const LABELS: [&str; 2] = ["$l", "$x"];
const FUNS: [&str; 3] = ["f", "g", "h"];
const PARAMS: [&str; 3] = ["a", "b", "f"];
const LITS: [&str; 16] = ["0", "1", "2", "3", "-1", "null", "true", "false", "\"a\"", "\"b\"", "[]", "{}", "[1,2,3]", "{\"a\":1,\"b\":2}", "1.5", "\"\""];

impl<'s, 'b> Gen<'s, 'b> {
    pub fn new(src: &'s mut Src<'b>, cfg: Cfg) -> Self {
        Gen { src, cfg, classes: BTreeSet::new(), nodes: 0, binders: BTreeSet::new() }
    }

    fn tag(&mut self, c: &'static str) {
        self.classes.insert(c);
    }

    pub fn lit(&mut self) -> String {
        self.src.pick(&LITS).to_string()
    }

    fn small_int(&mut self) -> String {
        format!("{}", self.src.range(-1, 4))
    }

    /// an atom that needs no parentheses
    pub fn atom(&mut self, sc: &Scope) -> String {
        self.nodes += 1;
        let has_vars = !sc.vars.is_empty();
        let has_labels = !sc.labels.is_empty();
        let has_args = !sc.args.is_empty();
        let funs0: Vec<&FunSig> = sc.funs.iter().filter(|f| f.params.is_empty()).collect();
        let w = [6, 5, if has_vars { 8 } else { 0 }, 5, 3, 2, 1, if has_labels { 3 } else { 0 }, if has_args { 8 } else { 0 }, if funs0.is_empty() { 0 } else { 6 }, 1, if self.cfg.inputs { 2 } else { 0 }];
        match self.src.weighted(&w) {
            0 => ".".into(),
            1 => self.lit(),
            2 => {
                let v = self.src.pick(&sc.vars).clone();
                if sc.vars.iter().filter(|x| **x == v).count() > 1 {
                    self.tag("shadowed-variable");
                }
                v
            }
            3 => self.src.pick(&[".a", ".b", ".[0]", ".[1]", ".[-1]", ".a?", ".[0]?", ".a.b", ".[0].a", ".a[0]"]).to_string(),
            4 => self.src.pick(&[".[]", ".[]?", ".[1:]", ".[:1]", ".[1:2]", ".[]?[]?", "..", ".[:-1]"]).to_string(),
            5 => "empty".into(),
            6 => self.src.pick(&["error", "error(1)", "error(\"e\")", "error(null)"]).to_string(),
            7 => {
                self.tag("break");
                format!("break {}", self.src.pick(&sc.labels))
            }
            8 => {
                self.tag("filter-argument-use");
                self.src.pick(&sc.args).clone()
            }
            9 => {
                self.tag("call-arity0");
                self.src.pick(&funs0).name.clone()
            }
            10 => self.src.pick(&["length", "keys", "type", "not", "tostring", "add", "first", "last", "tojson", "sort", "reverse", "any", "all", "min", "max", "unique", "to_entries", "paths", "values", "flatten", "transpose", "floor", "ascii_downcase", "explode", "keys_unsorted", "from_entries", "tonumber", "abs"]).to_string(),
            _ => self.src.pick(&["input", "first(inputs)", "[limit(2; inputs)]"]).to_string(),
        }
    }

    /// a path expression (something `path(..)` and updates can work with)
    pub fn path(&mut self, sc: &Scope, depth: usize) -> String {
        self.nodes += 1;
        if depth == 0 {
            return self.src.pick(&[".", ".a", ".b", ".[0]", ".[1]", ".[]", ".[]?", ".a?", ".[1:]", ".[:1]", "..", ".[-1]", "empty", ".[0:2]", ".a.b", ".[][]?", "first", "last"]).to_string();
        }
        let d = depth - 1;
        let has_args = !sc.args.is_empty();
        match self.src.weighted(&[6, 4, 3, 2, 2, 3, 2, 2, 2, 2, 2, if has_args { 3 } else { 0 }, 2, 1, 2]) {
            0 => self.path(sc, 0),
            1 => format!("({} | {})", self.path(sc, d), self.path(sc, d)),
            2 => format!("({}, {})", self.path(sc, d), self.path(sc, d)),
            3 => format!("({} // {})", self.path(sc, d), self.path(sc, d)),
            4 => format!("({})?", self.path(sc, d)),
            5 => {
                let x = self.src.pick(&VARS).to_string();
                let v = self.term(sc, d);
                let mut sc2 = sc.clone();
                sc2.vars.push(x.clone());
                self.binders.insert("as");
                format!("({v} as {x} | {})", self.path_with_var(&sc2, d, &x))
            }
            6 => format!("if {} then {} else {} end", self.term(sc, d), self.path(sc, d), self.path(sc, d)),
            7 => format!("select({})", self.term(sc, d)),
            8 => format!("{}({})", self.src.pick(&["first", "last"]), self.path(sc, d)),
            9 => format!("{}({}; {})", self.src.pick(&["limit", "skip"]), self.small_int(), self.path(sc, d)),
            10 => format!("getpath({})", self.src.pick(&["[]", "[\"a\"]", "[0]", "[\"a\",\"b\"]", "[0,\"a\"]", "[1]"])),
            11 => self.src.pick(&sc.args).clone(),
            12 => format!("recurse({})", self.src.pick(&[".[]?", ".a?", ".[0]?", "empty"])),
            13 => {
                self.binders.insert("fold");
                let x = self.src.pick(&VARS).to_string();
                let kind = *self.src.pick(&["reduce", "foreach"]);
                format!("{kind} ({}) as {x} (.; .[{x}]?)", self.src.pick(&["0, \"a\"", "\"a\", \"b\"", "0", "empty", "0, 1"]))
            }
            _ => format!("{}[{}]", self.path(sc, 0), self.term(sc, 0)),
        }
    }

    fn path_with_var(&mut self, sc: &Scope, depth: usize, x: &str) -> String {
        if self.src.bool() {
            format!(".[{x}]")
        } else {
            self.path(sc, depth)
        }
    }

    fn pattern(&mut self, sc: &Scope, depth: usize, bound: &mut Vec<String>) -> String {
        let var = |g: &mut Self, bound: &mut Vec<String>| {
            let x = g.src.pick(&VARS).to_string();
            bound.push(x.clone());
            x
        };
        if depth == 0 {
            return var(self, bound);
        }
        match self.src.weighted(&[5, 3, 3]) {
            0 => var(self, bound),
            1 => {
                self.tag("array-pattern");
                let n = 1 + self.src.below(3);
                let ps: Vec<String> = (0..n).map(|_| self.pattern(sc, depth - 1, bound)).collect();
                format!("[{}]", ps.join(", "))
            }
            _ => {
                self.tag("object-pattern");
                let n = 1 + self.src.below(2);
                let mut es = Vec::new();
                for _ in 0..n {
                    match self.src.below(4) {
                        0 => {
                            let x = var(self, bound);
                            es.push(x);
                        }
                        1 => {
                            self.tag("computed-pattern-key");
                            // key filters run in the scope outside the pattern: let them use its names
                            let k = if (!sc.vars.is_empty() || !sc.args.is_empty()) && self.src.chance(150) {
                                self.tag("computed-pattern-key-uses-outer-name");
                                let pool: Vec<String> = sc.vars.iter().chain(sc.args.iter()).cloned().collect();
                                let n = self.src.pick(&pool).clone();
                                match self.src.below(4) {
                                    0 => format!("{n}, \"a\""),
                                    1 => format!("{n} | tostring"),
                                    _ => n,
                                }
                            } else {
                                self.src.pick(&["\"a\", \"b\"", ".k?", "\"a\"", "0", "keys_unsorted[]?"]).to_string()
                            };
                            let p = self.pattern(sc, depth - 1, bound);
                            es.push(format!("({k}): {p}"));
                        }
                        _ => {
                            let k = self.src.pick(&["a", "b", "\"a\"", "$__k"]).to_string();
                            let k = if k.starts_with('$') { "a".to_string() } else { k };
                            let p = self.pattern(sc, depth - 1, bound);
                            es.push(format!("{k}: {p}"));
                        }
                    }
                }
                format!("{{{}}}", es.join(", "))
            }
        }
    }

    pub fn term(&mut self, sc: &Scope, depth: usize) -> String {
        self.nodes += 1;
        if depth == 0 || self.src.exhausted() {
            return self.atom(sc);
        }
        let d = depth - 1;
        let cfg = self.cfg.clone();
        let callable: Vec<FunSig> = sc.funs.iter().filter(|f| !f.params.is_empty()).cloned().collect();
        let w = [
            8,                                        // 0 atom
            7,                                        // 1 pipe
            5,                                        // 2 comma
            5,                                        // 3 arith / cmp
            3,                                        // 4 alt / logic
            5,                                        // 5 as-binding
            3,                                        // 6 label
            4,                                        // 7 if
            4,                                        // 8 try
            4,                                        // 9 reduce/foreach
            if cfg.defs { 7 } else { 0 },             // 10 def
            if callable.is_empty() { 0 } else { 7 },  // 11 call with args
            4,                                        // 12 array / object construction
            3,                                        // 13 string interpolation
            4,                                        // 14 compound path f[x]
            if cfg.updates { 5 } else { 0 },          // 15 update
            if cfg.stdlib { 6 } else { 0 },           // 16 library call
            2,                                        // 17 neg / opt
            3,                                        // 18 path()
            if cfg.defs { 3 } else { 0 },             // 19 closure scenario
        ];
        match self.src.weighted(&w) {
            0 => self.atom(sc),
            1 => format!("({} | {})", self.term(sc, d), self.term(sc, d)),
            2 => format!("({}, {})", self.term(sc, d), self.term(sc, d)),
            3 => {
                let op = *self.src.pick(&["+", "-", "*", "/", "%", "==", "!=", "<", "<=", ">", ">="]);
                if matches!(op, "-" | "/" | "<" | "<=" | ">" | ">=") {
                    self.tag("non-commutative-operator");
                }
                format!("({} {op} {})", self.term(sc, d), self.term(sc, d))
            }
            4 => {
                let op = *self.src.pick(&["//", "and", "or"]);
                format!("({} {op} {})", self.term(sc, d), self.term(sc, d))
            }
            5 => {
                self.binders.insert("as");
                let v = self.term(sc, d);
                let mut bound = Vec::new();
                let pd = if self.src.chance(90) { 2 } else { 0 };
                let pat = self.pattern(sc, pd, &mut bound);
                let mut sc2 = sc.clone();
                sc2.vars.extend(bound.iter().cloned());
                if bound.len() >= 3 {
                    self.tag("pattern-3-or-more-variables");
                }
                format!("({v} as {pat} | {})", self.term(&sc2, d))
            }
            6 => {
                self.binders.insert("label");
                let l = self.src.pick(&LABELS).to_string();
                let mut sc2 = sc.clone();
                sc2.labels.push(l.clone());
                if sc.vars.contains(&l) {
                    self.tag("label-and-variable-same-name");
                }
                format!("(label {l} | {})", self.term(&sc2, d))
            }
            7 => {
                let c = self.term(sc, d);
                let t = self.term(sc, d);
                match self.src.below(3) {
                    0 => format!("if {c} then {t} end"),
                    1 => format!("if {c} then {t} else {} end", self.term(sc, d)),
                    _ => format!("if {c} then {t} elif {} then {} else {} end", self.term(sc, d), self.term(sc, d), self.term(sc, d)),
                }
            }
            8 => {
                self.binders.insert("try");
                let t = self.term(sc, d);
                if self.src.bool() {
                    format!("try ({t}) catch ({})", self.term(sc, d))
                } else {
                    format!("try ({t})")
                }
            }
            9 => {
                self.binders.insert("fold");
                let kind = *self.src.pick(&["reduce", "foreach"]);
                let xs = self.term(sc, d);
                let mut bound = Vec::new();
                let pd = if self.src.chance(60) { 1 } else { 0 };
                let pat = self.pattern(sc, pd, &mut bound);
                let init = self.term(sc, d);
                let mut sc2 = sc.clone();
                sc2.vars.extend(bound.iter().cloned());
                let upd = self.term(&sc2, d);
                if kind == "foreach" && self.src.bool() {
                    format!("{kind} ({xs}) as {pat} ({init}; {upd}; {})", self.term(&sc2, d))
                } else {
                    format!("{kind} ({xs}) as {pat} ({init}; {upd})")
                }
            }
            10 => self.def(sc, d),
            11 => {
                let f = self.src.pick(&callable).clone();
                self.call(sc, &f, d)
            }
            12 => match self.src.below(6) {
                0 => format!("[{}]", self.term(sc, d)),
                1 => format!("{{a: {}}}", self.term(sc, d)),
                2 => {
                    self.tag("object-multi-valued-key-value");
                    format!("{{({}): {}}}", self.term(sc, d), self.term(sc, d))
                }
                3 if !sc.vars.is_empty() => format!("{{{}}}", self.src.pick(&sc.vars)),
                4 => format!("{{a: {}, b: {}}}", self.term(sc, d), self.term(sc, d)),
                _ => format!("{{{}}}", self.src.pick(&["a", "\"b\"", "a, b", "\"a\\(1,2)\""])),
            },
            13 => {
                let fmt = *self.src.pick(&["", "", "@json ", "@text ", "@base64 ", "@html "]);
                match self.src.below(3) {
                    0 => format!("{fmt}\"x\\({})y\"", self.term(sc, d)),
                    1 => {
                        self.tag("interpolation-two-parts");
                        format!("{fmt}\"A\\({})B\\({})\"", self.term(sc, d), self.term(sc, d))
                    }
                    _ => format!("{fmt}\"\\({})\"", self.term(sc, d)),
                }
            }
            14 => {
                self.tag("compound-path");
                let f = self.term(sc, d);
                let q = if self.src.chance(60) { "?" } else { "" };
                match self.src.below(4) {
                    0 => format!("({f})[{}]{q}", self.term(sc, d)),
                    1 => format!("({f})[{}:{}]{q}", self.term(sc, d), self.term(sc, d)),
                    2 => format!("({f})[{}][{}:]{q}", self.term(sc, d), self.term(sc, d)),
                    _ => format!("({f})[]{q}"),
                }
            }
            15 => {
                self.tag("update");
                let p = if self.src.chance(220) { self.path(sc, d.min(2)) } else { self.term(sc, d) };
                let op = *self.src.pick(&["|=", "|=", "=", "+=", "-=", "*=", "//=", "/=", "%="]);
                format!("({p} {op} {})", self.term(sc, d))
            }
            16 => self.lib_call(sc, d),
            17 => {
                if self.src.bool() {
                    format!("-({})", self.term(sc, d))
                } else {
                    format!("({})?", self.term(sc, d))
                }
            }
            18 => {
                self.tag("path-of");
                if self.src.chance(200) {
                    format!("path({})", self.path(sc, d.min(2)))
                } else {
                    format!("path({})", self.term(sc, d))
                }
            }
            _ => self.closure_scenario(sc, d),
        }
    }

    fn def(&mut self, sc: &Scope, d: usize) -> String {
        self.binders.insert("def");
        let name = self.src.pick(&FUNS).to_string();
        let arity = self.src.weighted(&[4, 4, 2]);
        let mut params: Vec<(String, bool)> = Vec::new();
        for _ in 0..arity {
            if self.src.bool() {
                params.push((self.src.pick(&VARS).to_string(), true));
            } else {
                params.push((self.src.pick(&PARAMS).to_string(), false));
            }
        }
        if sc.funs.iter().any(|f| f.name == name) {
            self.tag("shadowed-definition");
        }
        let sig = FunSig { name: name.clone(), params: params.iter().map(|p| p.1).collect() };
        // body scope: outer scope + parameters; the definition itself is visible in its body
        // (recursion) - the generator calls it only in the bounded-recursion shapes below,
        // so it hides the name inside other bodies (a call to an outer definition of the same
        // name and arity would in fact be a recursive call)
        let recursive = self.src.chance(70);
        let mut body_sc = sc.clone();
        body_sc.funs.retain(|f| !(f.name == sig.name && f.params.len() == sig.params.len()));
        if params.is_empty() {
            // ... and so would be a use of an outer filter parameter of that name
            body_sc.args.retain(|a| *a != sig.name);
        }
        for (p, is_var) in &params {
            if *is_var {
                body_sc.vars.push(p.clone());
            } else {
                // a filter parameter shadows definitions of arity 0 with the same name
                body_sc.args.push(p.clone());
                body_sc.funs.retain(|f| !(f.name == *p && f.params.is_empty()));
            }
        }
        let body = if recursive {
            self.tag("recursive-definition");
            // bounded recursion: the input is a counter; only the exact integers 0, 1, 2 recurse
            // (NaN, infinities and non-numbers take the base case), so that every generated
            // recursion terminates on every input
            let call = self.call_with_same_args(&sig, &params);
            let fparams: Vec<String> = params.iter().filter(|p| !p.1).map(|p| p.0.clone()).collect();
            let step = if !fparams.is_empty() && self.src.chance(140) {
                let g = self.src.pick(&fparams).clone();
                self.closure_step(&body_sc, &g)
            } else {
                let sd = if self.src.chance(80) { d.min(2) } else { d.min(1) };
                self.term(&body_sc, sd)
            };
            let guard = "(. == 0 or . == 1 or . == 2) | not";
            match self.src.below(3) {
                0 => format!("if {guard} then {step} else ., (.+1 | {call}) end"),
                1 => format!("if {guard} then empty else {step}, (.+1 | {call}) end"),
                _ => format!("if {guard} then . else (.+1 | {call}) | {step} end"),
            }
        } else {
            self.term(&body_sc, d)
        };
        if !sc.vars.is_empty() || !sc.labels.is_empty() || !sc.args.is_empty() {
            self.tag("definition-under-binders");
        }
        let mut rest_sc = sc.clone();
        rest_sc.funs.push(sig);
        let rest = self.term(&rest_sc, d);
        let ps = if params.is_empty() { String::new() } else { format!("({})", params.iter().map(|p| p.0.clone()).collect::<Vec<_>>().join("; ")) };
        format!("(def {name}{ps}: {body}; {rest})")
    }

    /// run the filter parameter `g` under binders introduced inside a definition
    fn closure_step(&mut self, body_sc: &Scope, g: &str) -> String {
        self.tag("closure-run-under-inner-binder");
        let t1 = self.term(body_sc, 0);
        let t2 = self.term(body_sc, 0);
        let l = self.src.pick(&LABELS).to_string();
        let x = self.src.pick(&VARS).to_string();
        match self.src.below(8) {
            0 => format!("((label {l} | ({t1}, {g}, {t2})), {t2})"),
            1 => format!("({t1} as {x} | {g})"),
            2 => format!("(reduce ({t1}) as {x} (.; {g}))"),
            3 => format!("(def h: {g}; (label {l} | h), {t2})"),
            4 => format!("(try ({g}) catch {t1})"),
            5 => format!("(label {l} | {t1} as {x} | first(({g}), {t2}))"),
            6 => format!("({g})"),
            _ => format!("[({g}), (label {l} | {g})]"),
        }
    }

    /// A directed scenario: a (tail-)recursive definition with a filter parameter is called under a
    /// label with a closure that captures names of the call site (and may break out of it); after the
    /// recursion has taken some calls, the closure runs under binders introduced inside the definition.
    fn closure_scenario(&mut self, sc: &Scope, d: usize) -> String {
        self.tag("closure-scenario");
        self.binders.insert("label");
        self.binders.insert("def");
        let l = self.src.pick(&LABELS).to_string();
        let mut sc2 = sc.clone();
        sc2.labels.push(l.clone());
        let name = self.src.pick(&FUNS).to_string();
        let g = self.src.pick(&PARAMS).to_string();
        let with_var = self.src.chance(80);
        let xv = self.src.pick(&VARS).to_string();
        let mut body_sc = sc2.clone();
        body_sc.funs.retain(|f| !(f.name == name && f.params.len() == 1 + with_var as usize));
        body_sc.funs.retain(|f| !(f.name == g && f.params.is_empty()));
        body_sc.args.push(g.clone());
        if with_var {
            body_sc.vars.push(xv.clone());
        }
        let (ps, call) = if with_var { (format!("{g}; {xv}"), format!("{name}({g}; {xv})")) } else { (g.clone(), format!("{name}({g})")) };
        let step = self.closure_step(&body_sc, &g);
        let guard = "(. == 0 or . == 1 or . == 2) | not";
        let body = match self.src.below(4) {
            0 => format!("if {guard} then {step} else (.+1 | {call}) end"),
            1 => format!("if {guard} then {step} else ., (.+1 | {call}) end"),
            2 => format!("if {guard} then {step} else (.+1 | {call}) | {} end", self.term(&body_sc, 0)),
            _ => format!("if {guard} then {step} else ({}) as {xv} | (.+1 | {call}) end", self.term(&body_sc, 0)),
        };
        let arg = match self.src.below(5) {
            0 => format!("break {l}"),
            1 => format!("({}, break {l})", self.term(&sc2, d.min(1))),
            2 if !sc2.vars.is_empty() => self.src.pick(&sc2.vars).clone(),
            3 => format!("(if {} then break {l} else . end)", self.term(&sc2, 0)),
            _ => self.term(&sc2, d.min(1)),
        };
        let ctr = self.src.pick(&["0", "1", "2", ".", "3"]).to_string();
        let xarg = if with_var { format!("; {}", self.term(&sc2, 0)) } else { String::new() };
        let tail = if self.src.bool() { format!(", {}", self.term(sc, 0)) } else { String::new() };
        format!("((label {l} | def {name}({ps}): {body}; ({ctr} | {name}({arg}{xarg}))){tail})")
    }

    fn call_with_same_args(&mut self, sig: &FunSig, params: &[(String, bool)]) -> String {
        if params.is_empty() {
            sig.name.clone()
        } else {
            format!("{}({})", sig.name, params.iter().map(|p| p.0.clone()).collect::<Vec<_>>().join("; "))
        }
    }

    fn call(&mut self, sc: &Scope, f: &FunSig, d: usize) -> String {
        self.tag("call-with-arguments");
        let mut args = Vec::new();
        let mut multi_var = 0;
        for is_var in &f.params {
            let a = if !*is_var && !sc.labels.is_empty() && self.src.chance(90) {
                // a closure that leaves through a label bound at the call site
                let l = self.src.pick(&sc.labels).clone();
                match self.src.below(3) {
                    0 => format!("break {l}"),
                    1 => format!("({}, break {l})", self.term(sc, d.min(1))),
                    _ => format!("(if {} then break {l} else . end)", self.term(sc, 0)),
                }
            } else {
                self.term(sc, d)
            };
            if *is_var && a.contains(',') {
                multi_var += 1;
            }
            if !*is_var && (a.contains('$') || a.contains("break")) {
                self.tag("closure-captures-variable-or-label");
            }
            args.push(a);
        }
        if multi_var >= 2 {
            self.tag("cartesian-variable-arguments");
        }
        format!("{}({})", f.name, args.join("; "))
    }

    fn lib_call(&mut self, sc: &Scope, d: usize) -> String {
        self.tag("library-call");
        let n = self.small_int();
        match self.src.below(30) {
            0 => format!("first({})", self.term(sc, d)),
            1 => format!("last({})", self.term(sc, d)),
            2 => format!("limit({n}; {})", self.term(sc, d)),
            3 => format!("skip({n}; {})", self.term(sc, d)),
            4 => format!("[limit(3; repeat({}))]", self.term(sc, d.min(1))),
            5 => format!("select({})", self.term(sc, d)),
            6 => format!("map({})", self.term(sc, d)),
            7 => format!("range({n})"),
            8 => format!("range({}; {})", self.term(sc, 0), self.term(sc, 0)),
            9 => format!("isempty({})", self.term(sc, d)),
            10 => format!("any({}; {})", self.term(sc, d), self.term(sc, d)),
            11 => format!("all({}; {})", self.term(sc, d), self.term(sc, d)),
            12 => format!("add({})", self.term(sc, d)),
            13 => format!("nth({n}; {})", self.term(sc, d)),
            14 => format!("[limit(4; recurse({}))]", self.term(sc, d.min(1))),
            15 => format!("del({})", self.path(sc, d.min(2))),
            16 => format!("getpath({})", self.term(sc, d)),
            17 => format!("[paths({})]", self.term(sc, d)),
            18 => format!("has({})", self.term(sc, 0)),
            19 => format!("with_entries({})", self.term(sc, d)),
            20 => format!("map_values({})", self.term(sc, d)),
            21 => format!("sort_by({})", self.term(sc, d)),
            22 => format!("group_by({})", self.term(sc, d)),
            23 => format!("min_by({})", self.term(sc, d)),
            24 => format!("walk({})", self.term(sc, d.min(1))),
            25 => format!("pick({})", self.path(sc, d.min(1))),
            26 => format!("setpath({}; {})", self.src.pick(&["[]", "[\"a\"]", "[0]"]), self.term(sc, d)),
            27 => format!("until({}; {})", self.src.pick(&[". >= 3", "true", ". == null", "(.|type) != \"number\" or . > 2"]), self.src.pick(&[".+1", ".[0]?", "null"])),
            28 => format!("[limit(4; while({}; {}))]", self.term(sc, 0), self.term(sc, 0)),
            _ => format!("path_value({})", self.path(sc, d.min(1))),
        }
    }
}

/// Generate a whole program with optional global variables `$g0..`.
pub fn program(src: &mut Src, cfg: Cfg, globals: &[&str]) -> (String, Vec<&'static str>, usize, usize) {
    let depth = 1 + src.below(cfg.max_depth.max(1));
    let mut g = Gen::new(src, cfg);
    let mut sc = Scope::default();
    sc.vars.extend(globals.iter().map(|s| s.to_string()));
    let text = g.term(&sc, depth);
    let mut classes: Vec<&'static str> = g.classes.iter().copied().collect();
    if g.binders.len() >= 2 {
        classes.push("two-or-more-binder-kinds");
    }
    (text, classes, g.binders.len(), g.nodes)
}
