//! Thin wrappers around jaq's public API: compile, run with an output bound,
//! panic capture.

use jaq_all::data::{Ctx, Data, Filter, Runner};
use jaq_core::Vars;
use jaq_json::Val;
use jaq_std::input::RcIter;
use std::cell::RefCell;
use std::collections::HashMap;
use std::panic::{catch_unwind, AssertUnwindSafe};
use std::rc::Rc;

use crate::mval::MVal;

/// One item of an output stream.
#[derive(Clone, Debug)]
pub enum Out {
    Val(Val),
    /// uncaught error (value as seen by `catch`)
    Err(Val),
    Halt(i32),
    /// an internal control-flow exception escaped (break / tail call)
    Escape(String),
    Panic(String),
}

impl Out {
    pub fn show(&self) -> String {
        match self {
            Out::Val(v) => format!("{v}"),
            Out::Err(v) => format!("ERROR({v})"),
            Out::Halt(c) => format!("HALT({c})"),
            Out::Escape(s) => format!("ESCAPE({s})"),
            Out::Panic(s) => format!("PANIC({s})"),
        }
    }
    pub fn is_end(&self) -> bool {
        !matches!(self, Out::Val(_))
    }
    pub fn val(&self) -> Option<&Val> {
        match self {
            Out::Val(v) => Some(v),
            _ => None,
        }
    }
}

thread_local! {
    static LAST_PANIC: RefCell<Option<String>> = RefCell::new(None);
    static CACHE: RefCell<HashMap<(String, Vec<String>), Option<Rc<Filter>>>> = RefCell::new(HashMap::new());
}

/// Install a panic hook that records message and location in a thread-local
/// instead of printing (call once at start-up).
pub fn install_panic_hook() {
    std::panic::set_hook(Box::new(|info| {
        let loc = info.location().map(|l| format!("{}:{}", l.file(), l.line())).unwrap_or_default();
        let msg = if let Some(s) = info.payload().downcast_ref::<&str>() {
            s.to_string()
        } else if let Some(s) = info.payload().downcast_ref::<String>() {
            s.clone()
        } else {
            "?".to_string()
        };
        LAST_PANIC.with(|p| *p.borrow_mut() = Some(format!("{loc}: {msg}")));
    }));
}

pub fn take_panic() -> String {
    LAST_PANIC.with(|p| p.borrow_mut().take()).unwrap_or_else(|| "panic".into())
}

/// Run `f`, converting a panic into `Err(location: message)`.
pub fn guarded<T>(f: impl FnOnce() -> T) -> Result<T, String> {
    catch_unwind(AssertUnwindSafe(f)).map_err(|_| take_panic())
}

/// Strip absolute path prefix of panic locations so that signatures are stable.
pub fn panic_sig(p: &str) -> String {
    let p = p.split(": ").next().unwrap_or(p);
    let p = p.rsplit("/repo/").next().unwrap_or(p);
    p.to_string()
}

pub fn compile(code: &str, vars: &[&str]) -> Result<Filter, String> {
    let vars: Vec<String> = vars.iter().map(|s| s.to_string()).collect();
    let defs = jaq_all::defs();
    let funs = jaq_all::data::funs();
    jaq_all::compile_with(code, defs, funs, &vars).map_err(|errs| {
        let mut s = String::new();
        for e in &errs {
            s += &format!("{}", jaq_all::load::FileReportsDisp::new(e));
        }
        s
    })
}

/// Compile with extra native filters (used for marker effects).
pub fn compile_with_funs(
    code: &str,
    vars: &[&str],
    extra: Vec<jaq_core::native::Fun<jaq_all::data::DataKind>>,
) -> Result<Filter, String> {
    let vars: Vec<String> = vars.iter().map(|s| s.to_string()).collect();
    let defs = jaq_all::defs();
    let funs = jaq_all::data::funs().chain(extra);
    jaq_all::compile_with(code, defs, funs, &vars).map_err(|errs| {
        let mut s = String::new();
        for e in &errs {
            s += &format!("{}", jaq_all::load::FileReportsDisp::new(e));
        }
        s
    })
}

/// Compile through a per-thread cache.
pub fn cached(code: &str, vars: &[&str]) -> Option<Rc<Filter>> {
    let key = (code.to_string(), vars.iter().map(|s| s.to_string()).collect::<Vec<_>>());
    CACHE.with(|c| {
        let mut c = c.borrow_mut();
        if c.len() > 20000 {
            c.clear();
        }
        c.entry(key).or_insert_with(|| compile(code, vars).ok().map(Rc::new)).clone()
    })
}

fn exn_to_out(e: jaq_core::Exn<'_, Val>) -> Out {
    match e.get_err() {
        Ok(err) => Out::Err(err.into_val()),
        Err(e) => match e.get_halt() {
            Ok(code) => Out::Halt(code),
            Err(e) => Out::Escape(format!("{e:?}").chars().take(80).collect()),
        },
    }
}

/// Run `filter` on `input` with the given variable values and an input
/// stream for `input`/`inputs`; collect at most `limit` outputs, stopping
/// after the first error/halt.
pub fn run_with(
    filter: &Filter,
    vars: Vec<Val>,
    input: Val,
    inputs: Vec<Val>,
    limit: usize,
) -> Vec<Out> {
    let mut outs = Vec::new();
    let r = catch_unwind(AssertUnwindSafe(|| {
        let runner = Runner::default();
        let inputs: Box<dyn Iterator<Item = Result<Val, String>>> =
            Box::new(inputs.into_iter().map(Ok));
        let rc = RcIter::new(inputs);
        let data = Data { runner: &runner, lut: &filter.lut, inputs: &rc };
        let ctx = Ctx::new(&data, Vars::new(vars));
        let mut it = filter.id.run((ctx, input));
        while outs.len() < limit {
            match it.next() {
                None => break,
                Some(Ok(v)) => outs.push(Out::Val(v)),
                Some(Err(e)) => {
                    outs.push(exn_to_out(e));
                    break;
                }
            }
        }
    }));
    if r.is_err() {
        outs.push(Out::Panic(take_panic()));
    }
    outs
}

pub fn run(filter: &Filter, vars: Vec<Val>, input: Val, limit: usize) -> Vec<Out> {
    run_with(filter, vars, input, Vec::new(), limit)
}

/// Compile (cached) and run; `Err` = does not compile.
pub fn eval(code: &str, vars: &[(&str, Val)], input: Val, limit: usize) -> Result<Vec<Out>, String> {
    let names: Vec<&str> = vars.iter().map(|(n, _)| *n).collect();
    let f = cached(code, &names).ok_or_else(|| match compile(code, &names) {
        Err(e) => e,
        Ok(_) => "?".into(),
    })?;
    Ok(run(&f, vars.iter().map(|(_, v)| v.clone()).collect(), input, limit))
}

/// Evaluate and demand exactly one value output.
pub fn eval1(code: &str, vars: &[(&str, Val)], input: Val) -> Result<Val, String> {
    let outs = eval(code, vars, input, 3).map_err(|e| format!("compile error: {e}"))?;
    match outs.as_slice() {
        [Out::Val(v)] => Ok(v.clone()),
        other => Err(format!(
            "expected one output, got [{}]",
            other.iter().map(|o| o.show()).collect::<Vec<_>>().join(", ")
        )),
    }
}

pub fn eval1_m(code: &str, vars: &[(&str, &MVal)], input: &MVal) -> Result<MVal, String> {
    let vars: Vec<(&str, Val)> = vars.iter().map(|(n, v)| (*n, v.to_val())).collect();
    eval1(code, &vars, input.to_val()).map(|v| MVal::from_val(&v))
}

pub fn show_outs(outs: &[Out]) -> String {
    outs.iter().map(|o| o.show()).collect::<Vec<_>>().join(" ")
}

// ------------------------------------------------------------------ isolated runs (time-limited)

/// An output stream item in model form (sendable between threads).
#[derive(Clone, Debug)]
pub enum OutM {
    Val(MVal),
    Err(MVal),
    Halt(i32),
    Escape(String),
    Panic(String),
}

impl OutM {
    pub fn show(&self) -> String {
        match self {
            OutM::Val(v) => v.show(),
            OutM::Err(v) => format!("ERROR({})", v.show()),
            OutM::Halt(c) => format!("HALT({c})"),
            OutM::Escape(s) => format!("ESCAPE({s})"),
            OutM::Panic(s) => format!("PANIC({s})"),
        }
    }
    pub fn from_out(o: &Out) -> OutM {
        match o {
            Out::Val(v) => OutM::Val(MVal::from_val(v)),
            Out::Err(v) => OutM::Err(MVal::from_val(v)),
            Out::Halt(c) => OutM::Halt(*c),
            Out::Escape(s) => OutM::Escape(s.clone()),
            Out::Panic(s) => OutM::Panic(s.clone()),
        }
    }
}

#[derive(Clone, Debug)]
pub enum Iso {
    Outs(Vec<OutM>),
    CompileError(String),
    /// the run did not finish within the time limit (the helper thread is abandoned)
    Timeout,
}

struct IsoReq {
    code: String,
    vars: Vec<(String, MVal)>,
    input: MVal,
    inputs: Vec<MVal>,
    limit: usize,
}

struct Helper {
    tx: std::sync::mpsc::Sender<IsoReq>,
    rx: std::sync::mpsc::Receiver<Iso>,
}

thread_local! {
    static HELPER: RefCell<Option<Helper>> = RefCell::new(None);
}

static ABANDONED: std::sync::atomic::AtomicUsize = std::sync::atomic::AtomicUsize::new(0);

fn spawn_helper() -> Helper {
    let (tx, hrx) = std::sync::mpsc::channel::<IsoReq>();
    let (htx, rx) = std::sync::mpsc::channel::<Iso>();
    std::thread::Builder::new()
        .stack_size(512 << 20)
        .spawn(move || {
            while let Ok(req) = hrx.recv() {
                let names: Vec<&str> = req.vars.iter().map(|(n, _)| n.as_str()).collect();
                let res = match cached(&req.code, &names) {
                    None => Iso::CompileError(compile(&req.code, &names).err().unwrap_or_default()),
                    Some(f) => {
                        let outs = run_with(
                            &f,
                            req.vars.iter().map(|(_, v)| v.to_val()).collect(),
                            req.input.to_val(),
                            req.inputs.iter().map(|v| v.to_val()).collect(),
                            req.limit,
                        );
                        Iso::Outs(outs.iter().map(OutM::from_out).collect())
                    }
                };
                if htx.send(res).is_err() {
                    break;
                }
            }
        })
        .expect("spawn helper thread");
    Helper { tx, rx }
}

/// Compile and run in a helper thread, giving up after `timeout_ms`.  A run
/// that does not come back is abandoned (its thread keeps spinning); after too
/// many abandoned runs the whole check stops as INCONCLUSIVE (exit 2).
pub fn run_isolated(code: &str, vars: &[(&str, &MVal)], input: &MVal, inputs: &[MVal], limit: usize, timeout_ms: u64) -> Iso {
    HELPER.with(|h| {
        let mut h = h.borrow_mut();
        if h.is_none() {
            *h = Some(spawn_helper());
        }
        let helper = h.as_ref().unwrap();
        let req = IsoReq {
            code: code.to_string(),
            vars: vars.iter().map(|(n, v)| (n.to_string(), (*v).clone())).collect(),
            input: input.clone(),
            inputs: inputs.to_vec(),
            limit,
        };
        if helper.tx.send(req).is_err() {
            *h = None;
            return Iso::Outs(vec![OutM::Panic("helper thread died".into())]);
        }
        match helper.rx.recv_timeout(std::time::Duration::from_millis(timeout_ms)) {
            Ok(r) => r,
            Err(std::sync::mpsc::RecvTimeoutError::Timeout) => {
                *h = None;
                let n = ABANDONED.fetch_add(1, std::sync::atomic::Ordering::SeqCst) + 1;
                if n > 12 {
                    println!("INCONCLUSIVE reason=too-many-runs-exceeded-their-time-limit last={}", code.chars().take(400).collect::<String>());
                    std::process::exit(crate::runner::inconclusive_status());
                }
                Iso::Timeout
            }
            Err(_) => {
                *h = None;
                Iso::Outs(vec![OutM::Panic("helper thread died".into())])
            }
        }
    })
}

pub fn abandoned_runs() -> usize {
    ABANDONED.load(std::sync::atomic::Ordering::SeqCst)
}

pub fn show_outs_m(outs: &[OutM]) -> String {
    outs.iter().map(|o| o.show()).collect::<Vec<_>>().join(" ")
}
