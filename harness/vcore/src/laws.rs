//! In-language equation checking: two program texts are run by jaq on the
//! same input with the same variables, and their output streams - values up
//! to and including the first error - must agree.

use crate::jq::{self, Iso, OutM};
use crate::mval::{eq_m, MVal};

#[derive(Clone, Copy, PartialEq, Eq, Debug)]
pub enum Cmp {
    /// indistinguishable (same constructors, key order, number classes)
    Same,
    /// jq equality `==` (1 == 1.0, key order irrelevant); NaN-containing values fall back to `Same`
    Eq,
}

pub const LIMIT: usize = 300;
pub const TIMEOUT_MS: u64 = 10_000;

/// Result of running one side.
#[derive(Clone, Debug)]
pub enum Side {
    Outs(Vec<OutM>),
    NoCompile(String),
    Timeout,
}

pub fn run_side(code: &str, vars: &[(&str, &MVal)], input: &MVal) -> Side {
    match jq::run_isolated(code, vars, input, &[], LIMIT, TIMEOUT_MS) {
        Iso::Outs(o) => Side::Outs(o),
        Iso::CompileError(e) => Side::NoCompile(e),
        Iso::Timeout => Side::Timeout,
    }
}

pub fn val_agree(a: &MVal, b: &MVal, cmp: Cmp) -> bool {
    match cmp {
        Cmp::Same => a.same(b),
        Cmp::Eq => {
            if a.contains_nan() || b.contains_nan() {
                a.same(b)
            } else {
                eq_m(a, b)
            }
        }
    }
}

/// How two streams differ, if they do. `err_payload`: compare the values of terminating errors too.
pub fn streams_agree(l: &[OutM], r: &[OutM], cmp: Cmp, err_payload: bool) -> Result<(), String> {
    for (i, (a, b)) in l.iter().zip(r.iter()).enumerate() {
        let same = match (a, b) {
            (OutM::Val(x), OutM::Val(y)) => val_agree(x, y, cmp),
            (OutM::Err(x), OutM::Err(y)) => !err_payload || val_agree(x, y, cmp),
            (OutM::Halt(x), OutM::Halt(y)) => x == y,
            _ => false,
        };
        if !same {
            return Err(format!("item #{i}: {} vs {}", a.show(), b.show()));
        }
    }
    if l.len() != r.len() {
        return Err(format!(
            "{} items vs {} items ([{}] vs [{}])",
            l.len(),
            r.len(),
            jq::show_outs_m(l).chars().take(300).collect::<String>(),
            jq::show_outs_m(r).chars().take(300).collect::<String>()
        ));
    }
    Ok(())
}

pub enum Verdict {
    /// both sides ran and agree; the outputs of the left side
    Agree(Vec<OutM>),
    /// a side ran into the time limit (not a verdict)
    Inconclusive,
    Differ(String),
}

/// Run both sides and compare.
pub fn equation(lhs: &str, rhs: &str, vars: &[(&str, &MVal)], input: &MVal, cmp: Cmp, err_payload: bool) -> Verdict {
    let l = run_side(lhs, vars, input);
    let r = run_side(rhs, vars, input);
    match (l, r) {
        (Side::Timeout, _) | (_, Side::Timeout) => Verdict::Inconclusive,
        (Side::NoCompile(e), _) => Verdict::Differ(format!("left side does not compile: {e}")),
        (_, Side::NoCompile(e)) => Verdict::Differ(format!("right side does not compile: {e}")),
        (Side::Outs(l), Side::Outs(r)) => {
            if let Some(OutM::Panic(p)) = l.last().or(None) {
                return Verdict::Differ(format!("left side panics: {p}"));
            }
            if let Some(OutM::Panic(p)) = r.last() {
                return Verdict::Differ(format!("right side panics: {p}"));
            }
            match streams_agree(&l, &r, cmp, err_payload) {
                Ok(()) => Verdict::Agree(l),
                Err(m) => Verdict::Differ(m),
            }
        }
    }
}

/// Does the stream contain an error / halt / other abnormal end?
pub fn ends_abnormally(outs: &[OutM]) -> bool {
    outs.last().map_or(false, |o| !matches!(o, OutM::Val(_)))
}
