pub mod cli;
pub mod gen;
pub mod gprog;
pub mod jq;
pub mod laws;
pub mod manual;
pub mod mval;
pub mod refi;
pub mod refrun;
pub mod runner;
pub mod src;

pub use mval::MVal;
pub use runner::{CaseFail, CaseOk, CaseResult, Env, Mode, Report, Tier};
pub use src::Src;
