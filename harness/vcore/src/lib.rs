pub mod cli;
pub mod gen;
pub mod jq;
pub mod mval;
pub mod runner;
pub mod src;

pub use mval::MVal;
pub use runner::{CaseFail, CaseOk, CaseResult, Env, Mode, Report, Tier};
pub use src::Src;
