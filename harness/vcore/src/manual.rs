//! Extraction of the `filter --> outputs` examples from the manual
//! (docs/*.dj of the repository under test).

use std::path::PathBuf;

#[derive(Clone, Debug)]
pub struct Example {
    pub file: String,
    pub line: usize,
    pub filter: String,
    /// expected outputs as XJON text (sequence of values)
    pub outputs: String,
}

pub fn repo() -> PathBuf {
    std::env::var("VERIF_REPO").unwrap_or_else(|_| "/repo".into()).into()
}

/// All code spans / code blocks of the Djot sources that contain `-->`.
pub fn examples() -> Vec<Example> {
    let mut out = Vec::new();
    let dir = repo().join("docs");
    let mut files: Vec<PathBuf> = std::fs::read_dir(&dir).map(|d| d.filter_map(|e| e.ok()).map(|e| e.path()).filter(|p| p.extension().map_or(false, |e| e == "dj")).collect()).unwrap_or_default();
    files.sort();
    for f in files {
        let text = match std::fs::read_to_string(&f) {
            Ok(t) => t,
            Err(_) => continue,
        };
        let name = f.file_name().unwrap().to_string_lossy().into_owned();
        extract(&name, &text, &mut out);
    }
    out
}

fn extract(file: &str, text: &str, out: &mut Vec<Example>) {
    let lines: Vec<&str> = text.lines().collect();
    let mut i = 0;
    // spans may run over several lines: work on the text outside fenced blocks
    let mut prose = String::new();
    let mut prose_start = 1;
    let flush = |prose: &mut String, start: usize, out: &mut Vec<Example>| {
        spans(file, start, prose, out);
        prose.clear();
    };
    while i < lines.len() {
        let l = lines[i];
        let t = l.trim_start();
        if t.starts_with("```") {
            flush(&mut prose, prose_start, out);
            let fence: String = t.chars().take_while(|c| *c == '`').collect();
            let start = i + 1;
            let mut body = String::new();
            i += 1;
            while i < lines.len() && !lines[i].trim_start().starts_with(&fence) {
                body.push_str(lines[i]);
                body.push('\n');
                i += 1;
            }
            if let Some((f, o)) = body.split_once("-->") {
                // blocks that are shell sessions are not examples
                if !body.trim_start().starts_with('$') {
                    out.push(Example { file: file.into(), line: start, filter: f.trim().to_string(), outputs: o.trim().to_string() });
                }
            }
            i += 1;
            prose_start = i + 1;
            continue;
        }
        prose.push_str(l);
        prose.push('\n');
        i += 1;
    }
    flush(&mut prose, prose_start, out);
}

fn spans(file: &str, start_line: usize, text: &str, out: &mut Vec<Example>) {
    let b = text.as_bytes();
    let mut i = 0;
    while i < b.len() {
        if b[i] == b'`' {
            let mut n = 0;
            while i + n < b.len() && b[i + n] == b'`' {
                n += 1;
            }
            let open_end = i + n;
            // find the closing run of exactly n backticks
            let mut j = open_end;
            let mut close = None;
            while j < b.len() {
                if b[j] == b'`' {
                    let mut m = 0;
                    while j + m < b.len() && b[j + m] == b'`' {
                        m += 1;
                    }
                    if m == n {
                        close = Some(j);
                        break;
                    }
                    j += m;
                } else {
                    j += 1;
                }
            }
            match close {
                Some(c) => {
                    let body = &text[open_end..c];
                    if let Some((f, o)) = body.split_once("-->") {
                        let line = start_line + text[..i].matches('\n').count();
                        out.push(Example { file: file.into(), line, filter: f.trim().replace('\n', " "), outputs: o.trim().replace('\n', " ") });
                    }
                    i = c + n;
                }
                None => break,
            }
        } else {
            i += 1;
        }
    }
}
