//! Independent model of jaq values (`MVal`), with conversions from/to
//! `jaq_json::Val` through its *public constructors only*, an independent
//! XJON printer and the model ordering written from the manual's
//! "Ordering" section.

use jaq_json::{Map, Num, Val};
use num_bigint::BigInt;
use num_traits::{ToPrimitive, Zero};
use std::cmp::Ordering;
use std::rc::Rc;

#[derive(Clone, Debug)]
pub enum MVal {
    Null,
    Bool(bool),
    /// exact integer; `true` = force the arbitrary-precision representation
    Int(BigInt, bool),
    Float(f64),
    /// decimal literal kept as text
    Dec(String),
    TStr(Vec<u8>),
    BStr(Vec<u8>),
    Arr(Vec<MVal>),
    Obj(Vec<(MVal, MVal)>),
}

pub fn int(i: i64) -> MVal {
    MVal::Int(BigInt::from(i), false)
}
pub fn tstr(s: &str) -> MVal {
    MVal::TStr(s.as_bytes().to_vec())
}

impl MVal {
    pub fn to_val(&self) -> Val {
        match self {
            MVal::Null => Val::Null,
            MVal::Bool(b) => Val::Bool(*b),
            MVal::Int(i, big) => match (i.to_isize(), big) {
                (Some(i), false) => Val::Num(Num::Int(i)),
                _ => Val::Num(Num::big_int(i.clone())),
            },
            MVal::Float(f) => Val::Num(Num::Float(*f)),
            MVal::Dec(s) => Val::Num(Num::Dec(Rc::new(s.clone()))),
            MVal::TStr(b) => Val::utf8_str(b.clone()),
            MVal::BStr(b) => Val::byte_str(b.clone()),
            MVal::Arr(a) => Val::Arr(Rc::new(a.iter().map(|x| x.to_val()).collect())),
            MVal::Obj(o) => {
                let mut m = Map::default();
                for (k, v) in o {
                    m.insert(k.to_val(), v.to_val());
                }
                Val::obj(m)
            }
        }
    }

    pub fn from_val(v: &Val) -> MVal {
        match v {
            Val::Null => MVal::Null,
            Val::Bool(b) => MVal::Bool(*b),
            Val::Num(Num::Int(i)) => MVal::Int(BigInt::from(*i), false),
            Val::Num(Num::BigInt(i)) => MVal::Int((**i).clone(), true),
            Val::Num(Num::Float(f)) => MVal::Float(*f),
            Val::Num(Num::Dec(s)) => MVal::Dec((**s).clone()),
            Val::TStr(b) => MVal::TStr(b.to_vec()),
            Val::BStr(b) => MVal::BStr(b.to_vec()),
            Val::Arr(a) => MVal::Arr(a.iter().map(MVal::from_val).collect()),
            Val::Obj(o) => {
                MVal::Obj(o.iter().map(|(k, v)| (MVal::from_val(k), MVal::from_val(v))).collect())
            }
        }
    }

    pub fn kind(&self) -> u8 {
        match self {
            MVal::Null => 0,
            MVal::Bool(_) => 1,
            MVal::Int(..) | MVal::Float(_) | MVal::Dec(_) => 2,
            MVal::TStr(_) | MVal::BStr(_) => 3,
            MVal::Arr(_) => 4,
            MVal::Obj(_) => 5,
        }
    }
    pub fn type_name(&self) -> &'static str {
        ["null", "boolean", "number", "string", "array", "object"][self.kind() as usize]
    }
    pub fn is_num(&self) -> bool {
        self.kind() == 2
    }
    pub fn is_int(&self) -> bool {
        matches!(self, MVal::Int(..))
    }
    pub fn as_f64(&self) -> Option<f64> {
        match self {
            MVal::Int(i, _) => Some(i.to_f64().unwrap()),
            MVal::Float(f) => Some(*f),
            MVal::Dec(s) => Some(s.parse::<f64>().unwrap_or(f64::NAN)),
            _ => None,
        }
    }
    pub fn as_bigint(&self) -> Option<&BigInt> {
        match self {
            MVal::Int(i, _) => Some(i),
            _ => None,
        }
    }
    pub fn truthy(&self) -> bool {
        !matches!(self, MVal::Null | MVal::Bool(false))
    }
    pub fn contains_nan(&self) -> bool {
        match self {
            MVal::Float(f) => f.is_nan(),
            MVal::Dec(s) => s.parse::<f64>().map_or(true, |f| f.is_nan()),
            MVal::Arr(a) => a.iter().any(|x| x.contains_nan()),
            MVal::Obj(o) => o.iter().any(|(k, v)| k.contains_nan() || v.contains_nan()),
            _ => false,
        }
    }
    pub fn depth(&self) -> usize {
        match self {
            MVal::Arr(a) => 1 + a.iter().map(|x| x.depth()).max().unwrap_or(0),
            MVal::Obj(o) => {
                1 + o.iter().map(|(k, v)| k.depth().max(v.depth())).max().unwrap_or(0)
            }
            _ => 0,
        }
    }
    pub fn nodes(&self) -> usize {
        match self {
            MVal::Arr(a) => 1 + a.iter().map(|x| x.nodes()).sum::<usize>(),
            MVal::Obj(o) => 1 + o.iter().map(|(k, v)| k.nodes() + v.nodes()).sum::<usize>(),
            _ => 1,
        }
    }

    /// Indistinguishability: same constructors, same contents (floats by
    /// value with NaN==NaN and -0.0 != 0.0, decimals by spelling, integers by
    /// value regardless of machine/big representation, key order included).
    pub fn same(&self, o: &MVal) -> bool {
        use MVal::*;
        match (self, o) {
            (Null, Null) => true,
            (Bool(a), Bool(b)) => a == b,
            (Int(a, _), Int(b, _)) => a == b,
            (Float(a), Float(b)) => (a.is_nan() && b.is_nan()) || a.to_bits() == b.to_bits(),
            (Dec(a), Dec(b)) => a == b,
            (TStr(a), TStr(b)) | (BStr(a), BStr(b)) => a == b,
            (Arr(a), Arr(b)) => a.len() == b.len() && a.iter().zip(b).all(|(x, y)| x.same(y)),
            (Obj(a), Obj(b)) => {
                a.len() == b.len()
                    && a.iter().zip(b).all(|((k1, v1), (k2, v2))| k1.same(k2) && v1.same(v2))
            }
            _ => false,
        }
    }

    /// Independent XJON printer (compact). Floats use Rust's shortest
    /// round-trip formatting, which may differ textually from jaq's; compare
    /// values, not texts, where floats are involved.
    pub fn xjon(&self) -> Vec<u8> {
        let mut out = Vec::new();
        self.write_xjon(&mut out);
        out
    }
    pub fn show(&self) -> String {
        String::from_utf8_lossy(&self.xjon()).into_owned()
    }
    fn write_xjon(&self, out: &mut Vec<u8>) {
        match self {
            MVal::Null => out.extend(b"null"),
            MVal::Bool(true) => out.extend(b"true"),
            MVal::Bool(false) => out.extend(b"false"),
            MVal::Int(i, _) => out.extend(i.to_string().as_bytes()),
            MVal::Float(f) => {
                if f.is_nan() {
                    out.extend(b"NaN")
                } else if *f == f64::INFINITY {
                    out.extend(b"Infinity")
                } else if *f == f64::NEG_INFINITY {
                    out.extend(b"-Infinity")
                } else {
                    let s = format!("{:?}", f);
                    out.extend(s.as_bytes())
                }
            }
            MVal::Dec(s) => out.extend(s.as_bytes()),
            MVal::TStr(b) => {
                out.push(b'"');
                for &c in b {
                    match c {
                        b'"' => out.extend(b"\\\""),
                        b'\\' => out.extend(b"\\\\"),
                        b'\n' => out.extend(b"\\n"),
                        b'\r' => out.extend(b"\\r"),
                        b'\t' => out.extend(b"\\t"),
                        0x08 => out.extend(b"\\b"),
                        0x0c => out.extend(b"\\f"),
                        0..=0x1f | 0x7f => out.extend(format!("\\u{:04x}", c).as_bytes()),
                        _ => out.push(c),
                    }
                }
                out.push(b'"');
            }
            MVal::BStr(b) => {
                out.extend(b"b\"");
                for &c in b {
                    match c {
                        b'"' => out.extend(b"\\\""),
                        b'\\' => out.extend(b"\\\\"),
                        0x20..=0x7e => out.push(c),
                        _ => out.extend(format!("\\x{:02x}", c).as_bytes()),
                    }
                }
                out.push(b'"');
            }
            MVal::Arr(a) => {
                out.push(b'[');
                for (i, x) in a.iter().enumerate() {
                    if i > 0 {
                        out.push(b',');
                    }
                    x.write_xjon(out);
                }
                out.push(b']');
            }
            MVal::Obj(o) => {
                out.push(b'{');
                for (i, (k, v)) in o.iter().enumerate() {
                    if i > 0 {
                        out.push(b',');
                    }
                    k.write_xjon(out);
                    out.push(b':');
                    v.write_xjon(out);
                }
                out.push(b'}');
            }
        }
    }
}

fn float_cmp(a: f64, b: f64) -> Ordering {
    // domain: no NaN. -0.0 == 0.0
    if a == b {
        Ordering::Equal
    } else if a < b {
        Ordering::Less
    } else {
        Ordering::Greater
    }
}

/// The manual's total order. Domain: NaN-free values; integers beyond 2^53
/// are only compared with integers or infinities (the caller restricts).
pub fn cmp_m(a: &MVal, b: &MVal) -> Ordering {
    use MVal::*;
    let (ka, kb) = (a.kind(), b.kind());
    if ka != kb {
        return ka.cmp(&kb);
    }
    match (a, b) {
        (Null, Null) => Ordering::Equal,
        (Bool(x), Bool(y)) => x.cmp(y),
        (Int(x, _), Int(y, _)) => x.cmp(y),
        (x, y) if ka == 2 => float_cmp(x.as_f64().unwrap(), y.as_f64().unwrap()),
        (TStr(x) | BStr(x), TStr(y) | BStr(y)) => x.cmp(y),
        (Arr(x), Arr(y)) => {
            for (p, q) in x.iter().zip(y.iter()) {
                let c = cmp_m(p, q);
                if c != Ordering::Equal {
                    return c;
                }
            }
            x.len().cmp(&y.len())
        }
        (Obj(x), Obj(y)) => {
            let mut ex: Vec<&(MVal, MVal)> = x.iter().collect();
            let mut ey: Vec<&(MVal, MVal)> = y.iter().collect();
            ex.sort_by(|p, q| cmp_m(&p.0, &q.0));
            ey.sort_by(|p, q| cmp_m(&p.0, &q.0));
            let kx = Arr(ex.iter().map(|e| e.0.clone()).collect());
            let ky = Arr(ey.iter().map(|e| e.0.clone()).collect());
            let c = cmp_m(&kx, &ky);
            if c != Ordering::Equal {
                return c;
            }
            let vx = Arr(ex.iter().map(|e| e.1.clone()).collect());
            let vy = Arr(ey.iter().map(|e| e.1.clone()).collect());
            cmp_m(&vx, &vy)
        }
        _ => unreachable!(),
    }
}

pub fn eq_m(a: &MVal, b: &MVal) -> bool {
    cmp_m(a, b) == Ordering::Equal
}

/// True if the pair lies in C08's domain: NaN-free, and no comparison of an
/// integer beyond 2^53 in magnitude with a finite non-integer number
/// (checked recursively, conservatively: any such integer anywhere together
/// with any finite float/decimal anywhere in the other value).
pub fn order_domain(a: &MVal, b: &MVal) -> bool {
    fn has_big(v: &MVal) -> bool {
        match v {
            MVal::Int(i, _) => {
                let lim = BigInt::from(1u64 << 53);
                i > &lim || i < &-lim
            }
            MVal::Arr(a) => a.iter().any(has_big),
            MVal::Obj(o) => o.iter().any(|(k, v)| has_big(k) || has_big(v)),
            _ => false,
        }
    }
    fn has_finite_float(v: &MVal) -> bool {
        match v {
            MVal::Float(f) => f.is_finite(),
            MVal::Dec(s) => s.parse::<f64>().map_or(false, |f| f.is_finite()),
            MVal::Arr(a) => a.iter().any(has_finite_float),
            MVal::Obj(o) => o.iter().any(|(k, v)| has_finite_float(k) || has_finite_float(v)),
            _ => false,
        }
    }
    if a.contains_nan() || b.contains_nan() {
        return false;
    }
    let (ba, bb) = (has_big(a), has_big(b));
    let (fa, fb) = (has_finite_float(a), has_finite_float(b));
    // also within one value (objects sort their own keys)
    !((ba || bb) && (fa || fb))
}

pub fn is_zero(v: &MVal) -> bool {
    match v {
        MVal::Int(i, _) => i.is_zero(),
        MVal::Float(f) => *f == 0.0,
        MVal::Dec(s) => s.parse::<f64>().map_or(false, |f| f == 0.0),
        _ => false,
    }
}
