//! REF — a definitional interpreter for the jq core language, written from
//! the manual (docs/corelang.dj, docs/advanced.dj) directly over jaq's parse
//! tree.  It shares the lexer/parser and the *value-level* primitives
//! (`Val + Val`, indexing, ordering, native filters whose arguments are all
//! values) with jaq, and nothing else: environments are linked lists of
//! *named* bindings, streams are memoised lazy lists, there are no indices,
//! no skip counts, no call types, no tail-call exceptions, and path / update
//! evaluation are separate recursive functions transcribing the manual's
//! tables.

use jaq_core::load::lex::StrPart;
use jaq_core::load::parse::{BinaryOp, Def, Pattern, Term};
use jaq_core::path::{Opt, Part};
use jaq_core::ValT;
use jaq_json::Val;
use std::cell::{Cell, RefCell};
use std::collections::VecDeque;
use std::rc::Rc;

pub type T<'a> = Term<&'a str>;

#[derive(Clone, Debug)]
pub enum Sig {
    Error(Val),
    Break(usize),
    Halt(i32),
    /// step budget exhausted: the case is inconclusive
    Fuel,
    /// construct outside REF's domain (manual silent / not modelled)
    Unsupported(String),
}

pub type Item<X> = Result<X, Sig>;

/// Known finding (see known_findings.txt, sig `single-interpolation-in-path-position`): a string that
/// consists of exactly one interpolation is compiled by jaq to `f | tostring`, whose path/update
/// evaluation yields nothing when `f` is empty (the manual: a value-constructing expression fails).
/// While the finding is listed, REF leaves its domain there (the case is excluded and counted).
pub static KNOWN_SINGLE_INTERP: std::sync::atomic::AtomicBool = std::sync::atomic::AtomicBool::new(false);
pub static EXCLUDED_KNOWN: std::sync::atomic::AtomicU64 = std::sync::atomic::AtomicU64::new(0);

fn single_interp<'a, X: Clone + 'a>(t: &T<'a>) -> Option<Stream<'a, X>> {
    use std::sync::atomic::Ordering::Relaxed;
    match t {
        Term::Str(_, parts) if parts.len() == 1 && matches!(parts[0], StrPart::Term(_)) && KNOWN_SINGLE_INTERP.load(Relaxed) => {
            Some(Stream::err(Sig::Unsupported("known-finding:single-interpolation-in-path-position".into())))
        }
        _ => None,
    }
}

// ------------------------------------------------------------------ lazy lists

thread_local! {
    static DEPTH: Cell<usize> = Cell::new(0);
    /// number of entries deleted from objects that kept other entries during the current run: after
    /// such a deletion the order of the remaining entries is unspecified (jaq swaps the last entry
    /// into the gap), and everything that later iterates over the object may see another order
    pub static OBJ_DELETIONS: Cell<u64> = Cell::new(0);
}

fn note_obj_deletion(remaining: usize) {
    if remaining >= 2 {
        OBJ_DELETIONS.with(|d| d.set(d.get() + 1));
    }
}
const MAX_DEPTH: usize = 4000;

pub struct Stream<'a, X>(Rc<RefCell<Node<'a, X>>>);

impl<'a, X> Clone for Stream<'a, X> {
    fn clone(&self) -> Self {
        Stream(self.0.clone())
    }
}

enum Node<'a, X> {
    Thunk(Box<dyn FnOnce() -> Step<'a, X> + 'a>),
    Done(Step<'a, X>),
    Busy,
}

pub enum Step<'a, X> {
    Nil,
    Cons(Item<X>, Stream<'a, X>),
}

impl<'a, X: Clone> Clone for Step<'a, X> {
    fn clone(&self) -> Self {
        match self {
            Step::Nil => Step::Nil,
            Step::Cons(i, s) => Step::Cons(i.clone(), s.clone()),
        }
    }
}

impl<'a, X: Clone + 'a> Stream<'a, X> {
    pub fn lazy(f: impl FnOnce() -> Step<'a, X> + 'a) -> Self {
        Stream(Rc::new(RefCell::new(Node::Thunk(Box::new(f)))))
    }
    pub fn delay(f: impl FnOnce() -> Stream<'a, X> + 'a) -> Self {
        Stream::lazy(move || f().force())
    }
    pub fn empty() -> Self {
        Stream(Rc::new(RefCell::new(Node::Done(Step::Nil))))
    }
    pub fn once(i: Item<X>) -> Self {
        Stream(Rc::new(RefCell::new(Node::Done(Step::Cons(i, Stream::empty())))))
    }
    pub fn ok(x: X) -> Self {
        Stream::once(Ok(x))
    }
    pub fn err(s: Sig) -> Self {
        Stream::once(Err(s))
    }
    pub fn cons(i: Item<X>, rest: Stream<'a, X>) -> Self {
        Stream(Rc::new(RefCell::new(Node::Done(Step::Cons(i, rest)))))
    }
    pub fn force(&self) -> Step<'a, X> {
        let node = std::mem::replace(&mut *self.0.borrow_mut(), Node::Busy);
        match node {
            Node::Thunk(f) => {
                // bound the native recursion depth of forcing (runaway recursion
                // in the program under test counts as "out of fuel")
                let d = DEPTH.with(|d| {
                    d.set(d.get() + 1);
                    d.get()
                });
                let s = if d > MAX_DEPTH { Step::Cons(Err(Sig::Fuel), Stream::empty()) } else { f() };
                DEPTH.with(|d| d.set(d.get() - 1));
                *self.0.borrow_mut() = Node::Done(s.clone());
                s
            }
            Node::Done(s) => {
                *self.0.borrow_mut() = Node::Done(s.clone());
                s
            }
            Node::Busy => panic!("REF: stream forced re-entrantly"),
        }
    }
    /// `self` followed by `next` (not evaluated unless reached; not reached after an error)
    pub fn concat(self, next: Stream<'a, X>) -> Self {
        Stream::lazy(move || match self.force() {
            Step::Nil => next.force(),
            Step::Cons(Err(e), _) => Step::Cons(Err(e), Stream::empty()),
            Step::Cons(Ok(x), rest) => Step::Cons(Ok(x), rest.concat(next)),
        })
    }
    pub fn flat_map<Y: Clone + 'a>(self, f: Rc<dyn Fn(X) -> Stream<'a, Y> + 'a>) -> Stream<'a, Y> {
        Stream::lazy(move || match self.force() {
            Step::Nil => Step::Nil,
            Step::Cons(Err(e), _) => Step::Cons(Err(e), Stream::empty()),
            Step::Cons(Ok(x), rest) => f(x).concat(rest.flat_map(f)).force(),
        })
    }
    pub fn map<Y: Clone + 'a>(self, f: Rc<dyn Fn(X) -> Item<Y> + 'a>) -> Stream<'a, Y> {
        Stream::lazy(move || match self.force() {
            Step::Nil => Step::Nil,
            Step::Cons(Err(e), _) => Step::Cons(Err(e), Stream::empty()),
            Step::Cons(Ok(x), rest) => match f(x) {
                Ok(y) => Step::Cons(Ok(y), rest.map(f)),
                Err(e) => Step::Cons(Err(e), Stream::empty()),
            },
        })
    }
    /// Collect everything (stops at the first signal).
    pub fn collect(&self) -> Result<Vec<X>, Sig> {
        let mut out = Vec::new();
        let mut cur = self.clone();
        loop {
            match cur.force() {
                Step::Nil => return Ok(out),
                Step::Cons(Err(e), _) => return Err(e),
                Step::Cons(Ok(x), rest) => {
                    out.push(x);
                    cur = rest;
                }
            }
        }
    }
    /// Take at most `n` items (including a terminating signal).
    pub fn take_items(&self, n: usize) -> Vec<Item<X>> {
        let mut out = Vec::new();
        let mut cur = self.clone();
        while out.len() < n {
            match cur.force() {
                Step::Nil => break,
                Step::Cons(i, rest) => {
                    let stop = i.is_err();
                    out.push(i);
                    if stop {
                        break;
                    }
                    cur = rest;
                }
            }
        }
        out
    }
}

// ------------------------------------------------------------------ environments

#[derive(Clone)]
pub struct Env<'a>(Option<Rc<EnvNode<'a>>>);

struct EnvNode<'a> {
    bind: Bind<'a>,
    next: Env<'a>,
}

enum Bind<'a> {
    Var(&'a str, Val),
    Label(&'a str, usize),
    /// a definition; its closure environment is the node itself
    Def(&'a Def<&'a str>),
    /// a filter argument: name, term, environment of the call site
    Arg(&'a str, &'a T<'a>, Env<'a>),
    /// native closure (used for marker effects): name, arity 0
    Hook(&'a str, Rc<dyn Fn(Val) -> Stream<'a, Val> + 'a>),
}

impl<'a> Env<'a> {
    pub fn new() -> Self {
        Env(None)
    }
    fn push(&self, bind: Bind<'a>) -> Env<'a> {
        Env(Some(Rc::new(EnvNode { bind, next: self.clone() })))
    }
    pub fn with_var(&self, name: &'a str, v: Val) -> Env<'a> {
        self.push(Bind::Var(name, v))
    }
    pub fn with_def(&self, d: &'a Def<&'a str>) -> Env<'a> {
        self.push(Bind::Def(d))
    }
    pub fn with_hook(&self, name: &'a str, f: Rc<dyn Fn(Val) -> Stream<'a, Val> + 'a>) -> Env<'a> {
        self.push(Bind::Hook(name, f))
    }
    fn var(&self, name: &str) -> Option<Val> {
        let mut cur = self;
        while let Some(n) = &cur.0 {
            if let Bind::Var(x, v) = &n.bind {
                if *x == name {
                    return Some(v.clone());
                }
            }
            cur = &n.next;
        }
        None
    }
    fn label(&self, name: &str) -> Option<usize> {
        let mut cur = self;
        while let Some(n) = &cur.0 {
            if let Bind::Label(x, id) = &n.bind {
                if *x == name {
                    return Some(*id);
                }
            }
            cur = &n.next;
        }
        None
    }
    /// nearest definition / argument with this name and arity
    fn fun(&self, name: &str, arity: usize) -> Option<Env<'a>> {
        let mut cur = self;
        while let Some(n) = &cur.0 {
            match &n.bind {
                Bind::Def(d) if d.name == name && d.args.len() == arity => return Some(cur.clone()),
                Bind::Arg(x, ..) | Bind::Hook(x, _) if arity == 0 && *x == name => return Some(cur.clone()),
                _ => {}
            }
            cur = &n.next;
        }
        None
    }
}

// ------------------------------------------------------------------ interpreter state

pub struct Interp<'a> {
    pub fuel: Cell<u64>,
    pub labels: Cell<usize>,
    /// values of `input` / `inputs`
    pub inputs: RefCell<VecDeque<Val>>,
    pub pulled: Cell<usize>,
    /// call a native filter whose arguments are all values
    pub native: Box<dyn Fn(&str, &[Val], Val) -> Option<Vec<Item<Val>>> + 'a>,
    /// kinds of the arguments of a native filter (true = value argument); None = no such native
    pub native_kinds: Box<dyn Fn(&str, usize) -> Option<Vec<bool>> + 'a>,
    /// whether any bound name was looked up (non-triviality rule of C01)
    pub lookups: Cell<u64>,
}

type Path = Rc<Vec<Val>>;
type VP = (Val, Path);
type UpdFn<'a> = Rc<dyn Fn(Val) -> Stream<'a, Val> + 'a>;

fn err_val<'a, X: Clone + 'a>(e: jaq_core::Error<Val>) -> Stream<'a, X> {
    Stream::err(Sig::Error(e.into_val()))
}
fn lift<X>(r: Result<X, jaq_core::Error<Val>>) -> Item<X> {
    r.map_err(|e| Sig::Error(e.into_val()))
}
fn path_err<'a, X: Clone + 'a>(v: Val) -> Stream<'a, X> {
    err_val(jaq_core::Error::path_expr(v))
}
fn push_path(p: &Path, k: Val) -> Path {
    let mut q = (**p).clone();
    q.push(k);
    Rc::new(q)
}
fn truthy(v: &Val) -> bool {
    v.as_bool()
}

#[derive(Clone)]
pub struct Ref<'a>(pub Rc<Interp<'a>>);

impl<'a> Ref<'a> {
    fn tick<X: Clone + 'a>(&self) -> Option<Stream<'a, X>> {
        let f = self.0.fuel.get();
        if f == 0 {
            return Some(Stream::err(Sig::Fuel));
        }
        self.0.fuel.set(f - 1);
        None
    }
    fn fresh_label(&self) -> usize {
        let l = self.0.labels.get() + 1;
        self.0.labels.set(l);
        l
    }

    // -------------------------------------------------------------- run mode

    pub fn eval(&self, t: &'a T<'a>, env: &Env<'a>, v: Val) -> Stream<'a, Val> {
        if let Some(s) = self.tick() {
            return s;
        }
        let me = self.clone();
        match t {
            Term::Id => Stream::ok(v),
            Term::Recurse => self.recurse_vals(v),
            Term::Num(n) => match n.parse::<isize>() {
                Ok(i) => Stream::ok(Val::from(i)),
                Err(_) => Stream::once(lift(Val::from_num(n))),
            },
            Term::Str(fmt, parts) => self.eval_str(*fmt, parts, 0, env, v),
            Term::Arr(None) => Stream::ok(Val::from_iter([])),
            Term::Arr(Some(f)) => {
                let s = self.eval(f, env, v);
                Stream::lazy(move || match s.collect() {
                    Ok(xs) => Step::Cons(Ok(Val::from_iter(xs)), Stream::empty()),
                    Err(e) => Step::Cons(Err(e), Stream::empty()),
                })
            }
            Term::Obj(entries) => self.eval_obj(entries, 0, env, v),
            Term::Neg(f) => self.eval(f, env, v).map(Rc::new(|x| lift(-x))),
            Term::BinOp(l, op, r) => self.eval_binop(l, op, r, env, v),
            Term::Label(x, f) => {
                let id = self.fresh_label();
                let env2 = env.push(Bind::Label(x, id));
                catch_break(self.eval(f, &env2, v), id)
            }
            Term::Break(x) => match env.label(x) {
                Some(id) => Stream::err(Sig::Break(id)),
                None => Stream::err(Sig::Unsupported(format!("undefined label {x}"))),
            },
            Term::Fold(kind, xs, pat, args) => {
                let (init, update, proj) = match (*kind, args.as_slice()) {
                    ("reduce", [i, u]) => (i, u, None),
                    ("foreach", [i, u]) => (i, u, Some(None)),
                    ("foreach", [i, u, p]) => (i, u, Some(Some(p))),
                    _ => return Stream::err(Sig::Unsupported("fold arity".into())),
                };
                let envs = self.bind_stream(xs, pat, env, v.clone());
                let env0 = env.clone();
                self.eval(init, env, v).flat_map(Rc::new(move |s0| me.fold_run(s0, envs.clone(), update, proj, &env0)))
            }
            Term::TryCatch(f, c) => {
                let env2 = env.clone();
                let c: Option<&'a T<'a>> = c.as_deref();
                catch_error(self.eval(f, env, v), Rc::new(move |e| match c {
                    Some(c) => me.eval(c, &env2, e),
                    None => Stream::empty(),
                }))
            }
            Term::IfThenElse(if_thens, else_) => self.eval_ite(if_thens, 0, else_.as_deref(), env, v),
            Term::Def(defs, body) => {
                let mut env2 = env.clone();
                for d in defs {
                    env2 = env2.with_def(d);
                }
                self.eval(body, &env2, v)
            }
            Term::Call(name, args) => self.call(name, args, env, v),
            Term::Var(x) => {
                self.0.lookups.set(self.0.lookups.get() + 1);
                match env.var(x) {
                    Some(val) => Stream::ok(val),
                    None => Stream::err(Sig::Unsupported(format!("undefined variable {x}"))),
                }
            }
            Term::Path(f, path) => {
                let (env2, v0) = (env.clone(), v.clone());
                let parts: &'a [(Part<T<'a>>, Opt)] = &path.0;
                self.eval(f, env, v).flat_map(Rc::new(move |y| {
                    let me2 = me.clone();
                    me.path_indices(parts, 0, Rc::new(Vec::new()), &env2, v0.clone())
                        .flat_map(Rc::new(move |idxs: Rc<Vec<PartV>>| me2.apply_parts(idxs, 0, y.clone())))
                }))
            }
        }
    }

    fn recurse_vals(&self, v: Val) -> Stream<'a, Val> {
        let me = self.clone();
        let children = v.clone();
        Stream::cons(
            Ok(v),
            Stream::delay(move || {
                if let Some(s) = me.tick() {
                    return s;
                }
                // `.[]?`
                let kids: Vec<Val> = match &children {
                    Val::Arr(_) | Val::Obj(_) => children.clone().values().filter_map(|r| r.ok()).collect(),
                    _ => Vec::new(),
                };
                from_vec(kids).flat_map(Rc::new(move |k| me.recurse_vals(k)))
            }),
        )
    }

    fn eval_str(&self, fmt: Option<&'a str>, parts: &'a [StrPart<&'a str, T<'a>>], i: usize, env: &Env<'a>, v: Val) -> Stream<'a, Val> {
        if i == parts.len() {
            return Stream::ok(Val::from(String::new()));
        }
        let me = self.clone();
        let env2 = env.clone();
        let v2 = v.clone();
        let head: Stream<'a, Val> = match &parts[i] {
            StrPart::Str(s) => Stream::ok(Val::from(s.to_string())),
            StrPart::Char(c) => Stream::ok(Val::from(c.to_string())),
            StrPart::Term(f) => {
                let me3 = self.clone();
                let env3 = env.clone();
                self.eval(f, env, v.clone()).flat_map(Rc::new(move |y| match fmt {
                    None => Stream::ok(y.into_string()),
                    Some(name) => me3.call(name, &[], &env3, y),
                }))
            }
        };
        // f + g  ==  f as $x | g as $y | $x + $y
        head.flat_map(Rc::new(move |x| {
            me.eval_str(fmt, parts, i + 1, &env2, v2.clone()).map(Rc::new(move |rest| lift(x.clone() + rest)))
        }))
    }

    fn eval_obj(&self, entries: &'a [(T<'a>, Option<T<'a>>)], i: usize, env: &Env<'a>, v: Val) -> Stream<'a, Val> {
        if entries.is_empty() {
            return Stream::once(lift(Val::from_map([])));
        }
        let me = self.clone();
        let (env2, v2) = (env.clone(), v.clone());
        let (k, val) = &entries[i];
        // {(k): v}  ==  k as $k | v as $v | {$k: $v}
        let single: Stream<'a, Val> = match (k, val) {
            (Term::Var(x), None) => match env.var(x) {
                Some(xv) => Stream::once(lift(Val::from_map([(Val::from(x[1..].to_string()), xv)]))),
                None => Stream::err(Sig::Unsupported(format!("undefined variable {x}"))),
            },
            (k, None) => {
                // {k}  ==  {(k): .[k]}
                let me3 = self.clone();
                let (env3, v3) = (env.clone(), v.clone());
                self.eval(k, env, v.clone()).flat_map(Rc::new(move |kv| {
                    let kv2 = kv.clone();
                    let v4 = v3.clone();
                    me3.eval(k, &env3, v3.clone()).map(Rc::new(move |idx| {
                        let x = lift(v4.clone().index(&idx))?;
                        lift(Val::from_map([(kv2.clone(), x)]))
                    }))
                }))
            }
            (k, Some(val)) => {
                let me3 = self.clone();
                let (env3, v3) = (env.clone(), v.clone());
                self.eval(k, env, v.clone()).flat_map(Rc::new(move |kv| {
                    me3.eval(val, &env3, v3.clone()).map(Rc::new(move |x| lift(Val::from_map([(kv.clone(), x)]))))
                }))
            }
        };
        if i + 1 == entries.len() {
            return single;
        }
        single.flat_map(Rc::new(move |x| me.eval_obj(entries, i + 1, &env2, v2.clone()).map(Rc::new(move |rest| lift(x.clone() + rest)))))
    }

    fn eval_ite(&self, its: &'a [(T<'a>, T<'a>)], i: usize, else_: Option<&'a T<'a>>, env: &Env<'a>, v: Val) -> Stream<'a, Val> {
        if i == its.len() {
            return match else_ {
                Some(e) => self.eval(e, env, v),
                None => Stream::ok(v),
            };
        }
        let me = self.clone();
        let (env2, v2) = (env.clone(), v.clone());
        self.eval(&its[i].0, env, v).flat_map(Rc::new(move |c| {
            if truthy(&c) {
                me.eval(&its[i].1, &env2, v2.clone())
            } else {
                me.eval_ite(its, i + 1, else_, &env2, v2.clone())
            }
        }))
    }

    fn cartesian(&self, l: &'a T<'a>, r: &'a T<'a>, env: &Env<'a>, v: Val, f: Rc<dyn Fn(Val, Val) -> Item<Val> + 'a>) -> Stream<'a, Val> {
        let me = self.clone();
        let (env2, v2) = (env.clone(), v.clone());
        self.eval(l, env, v).flat_map(Rc::new(move |x| {
            let f = f.clone();
            me.eval(r, &env2, v2.clone()).map(Rc::new(move |y| f(x.clone(), y)))
        }))
    }

    fn eval_binop(&self, l: &'a T<'a>, op: &'a BinaryOp<&'a str>, r: &'a T<'a>, env: &Env<'a>, v: Val) -> Stream<'a, Val> {
        let me = self.clone();
        let (env2, v2) = (env.clone(), v.clone());
        match op {
            BinaryOp::Pipe(None) => self.eval(l, env, v).flat_map(Rc::new(move |y| me.eval(r, &env2, y))),
            BinaryOp::Pipe(Some(pat)) => self.bind_stream(l, pat, env, v).flat_map(Rc::new(move |e: Env<'a>| me.eval(r, &e, v2.clone()))),
            BinaryOp::Comma => self.eval(l, env, v).concat(Stream::delay(move || me.eval(r, &env2, v2))),
            BinaryOp::Alt => {
                // truthy outputs of l (errors end the stream); if there is none, r
                let ls = filter_truthy(self.eval(l, env, v));
                Stream::lazy(move || match ls.force() {
                    Step::Nil => me.eval(r, &env2, v2).force(),
                    other => other,
                })
            }
            BinaryOp::Or | BinaryOp::And => {
                let stop = matches!(op, BinaryOp::Or);
                self.eval(l, env, v).flat_map(Rc::new(move |x| {
                    if truthy(&x) == stop {
                        Stream::ok(Val::from(stop))
                    } else {
                        me.eval(r, &env2, v2.clone()).map(Rc::new(|y| Ok(Val::from(truthy(&y)))))
                    }
                }))
            }
            BinaryOp::Math(m) => {
                let m = *m;
                self.cartesian(l, r, env, v, Rc::new(move |x, y| lift(m.run(x, y))))
            }
            BinaryOp::Cmp(c) => {
                let c = *c;
                self.cartesian(l, r, env, v, Rc::new(move |x, y| Ok(Val::from(c.run(&x, &y)))))
            }
            // f = g  ==  g as $x | f |= $x
            BinaryOp::Assign => self.eval(r, env, v).flat_map(Rc::new(move |y| me.upd(l, &env2, v2.clone(), Rc::new(move |_| Stream::ok(y.clone()))))),
            BinaryOp::Update => {
                let (me3, env3) = (self.clone(), env.clone());
                self.upd(l, env, v, Rc::new(move |x| me3.eval(r, &env3, x)))
            }
            // f op= g  ==  g as $x | f |= . op $x
            BinaryOp::UpdateMath(m) => {
                let m = *m;
                self.eval(r, env, v).flat_map(Rc::new(move |y| me.upd(l, &env2, v2.clone(), Rc::new(move |x| Stream::once(lift(m.run(x, y.clone())))))))
            }
            // f //= g  ==  g as $x | f |= (. // $x)
            BinaryOp::UpdateAlt => self.eval(r, env, v).flat_map(Rc::new(move |y| {
                me.upd(l, &env2, v2.clone(), Rc::new(move |x| Stream::ok(if truthy(&x) { x } else { y.clone() })))
            })),
        }
    }

    /// outputs of `xs` bound by `pat`: a stream of environments
    fn bind_stream(&self, xs: &'a T<'a>, pat: &'a Pattern<&'a str>, env: &Env<'a>, v: Val) -> Stream<'a, Env<'a>> {
        let me = self.clone();
        let env2 = env.clone();
        self.eval(xs, env, v).flat_map(Rc::new(move |y| me.bind_pat(pat, env2.clone(), &env2, y)))
    }

    /// bind `pat` to `y`: `acc` accumulates bindings, `env0` is where key filters run
    fn bind_pat(&self, pat: &'a Pattern<&'a str>, acc: Env<'a>, env0: &Env<'a>, y: Val) -> Stream<'a, Env<'a>> {
        match pat {
            Pattern::Var(x) => Stream::ok(acc.with_var(x, y)),
            Pattern::Arr(ps) => self.bind_entries(Entries::Arr(ps), 0, acc, env0, y),
            Pattern::Obj(es) => self.bind_entries(Entries::Obj(es), 0, acc, env0, y),
        }
    }

    fn bind_entries(&self, es: Entries<'a>, i: usize, acc: Env<'a>, env0: &Env<'a>, y: Val) -> Stream<'a, Env<'a>> {
        if i == es.len() {
            return Stream::ok(acc);
        }
        let me = self.clone();
        let env1 = env0.clone();
        let y2 = y.clone();
        let keys: Stream<'a, Val> = match es {
            Entries::Arr(_) => Stream::ok(Val::from(i as isize)),
            Entries::Obj(o) => self.eval(&o[i].0, env0, y.clone()),
        };
        let sub: &'a Pattern<&'a str> = match es {
            Entries::Arr(a) => &a[i],
            Entries::Obj(o) => &o[i].1,
        };
        keys.flat_map(Rc::new(move |k| {
            let me2 = me.clone();
            let (env2, y3) = (env1.clone(), y2.clone());
            match y2.clone().index(&k) {
                Err(e) => err_val(e),
                Ok(child) => me.bind_pat(sub, acc.clone(), &env1, child).flat_map(Rc::new(move |acc2| me2.bind_entries(es, i + 1, acc2, &env2, y3.clone()))),
            }
        }))
    }

    fn fold_run(&self, s: Val, xs: Stream<'a, Env<'a>>, update: &'a T<'a>, proj: Option<Option<&'a T<'a>>>, env0: &Env<'a>) -> Stream<'a, Val> {
        let me = self.clone();
        let env0 = env0.clone();
        Stream::lazy(move || match xs.force() {
            Step::Nil => match proj {
                None => Step::Cons(Ok(s), Stream::empty()),
                Some(_) => Step::Nil,
            },
            Step::Cons(Err(e), _) => Step::Cons(Err(e), Stream::empty()),
            Step::Cons(Ok(envi), rest) => {
                let me2 = me.clone();
                me.eval(update, &envi, s)
                    .flat_map(Rc::new(move |s1| {
                        let next = {
                            let (me3, rest, env0, s1) = (me2.clone(), rest.clone(), env0.clone(), s1.clone());
                            Stream::delay(move || me3.fold_run(s1, rest, update, proj, &env0))
                        };
                        match proj {
                            None => next,
                            Some(None) => Stream::cons(Ok(s1), next),
                            Some(Some(p)) => me2.eval(p, &envi, s1).concat(next),
                        }
                    }))
                    .force()
            }
        })
    }

    fn call(&self, name: &'a str, args: &'a [T<'a>], env: &Env<'a>, v: Val) -> Stream<'a, Val> {
        if name.contains("::") {
            return Stream::err(Sig::Unsupported("module call".into()));
        }
        if let Some(at) = env.fun(name, args.len()) {
            self.0.lookups.set(self.0.lookups.get() + 1);
            let node = at.0.as_ref().unwrap();
            return match &node.bind {
                Bind::Arg(_, term, cenv) => self.eval(term, cenv, v),
                Bind::Hook(_, f) => f(v),
                Bind::Def(d) => {
                    let me = self.clone();
                    let body: &'a T<'a> = &d.body;
                    self.bind_args(&d.args, args, 0, at.clone(), env, v.clone()).flat_map(Rc::new(move |e: Env<'a>| me.eval(body, &e, v.clone())))
                }
                _ => unreachable!(),
            };
        }
        self.native(name, args, env, v)
    }

    /// bind the parameters of a definition: `$x` parameters range over the
    /// outputs of their argument (first argument outermost), filter
    /// parameters become closures over the call-site environment
    fn bind_args(&self, params: &'a [&'a str], args: &'a [T<'a>], i: usize, acc: Env<'a>, call_env: &Env<'a>, v: Val) -> Stream<'a, Env<'a>> {
        if i == params.len() {
            return Stream::ok(acc);
        }
        let p = params[i];
        if p.starts_with('$') {
            let me = self.clone();
            let (cenv, v2) = (call_env.clone(), v.clone());
            self.eval(&args[i], call_env, v).flat_map(Rc::new(move |x| me.bind_args(params, args, i + 1, acc.with_var(p, x), &cenv, v2.clone())))
        } else {
            let acc2 = acc.push(Bind::Arg(p, &args[i], call_env.clone()));
            self.bind_args(params, args, i + 1, acc2, call_env, v)
        }
    }

    /// evaluate value arguments (cartesian, first outermost)
    fn arg_values(&self, args: &'a [T<'a>], i: usize, acc: Rc<Vec<Val>>, env: &Env<'a>, v: Val) -> Stream<'a, Rc<Vec<Val>>> {
        self.arg_values_of(Rc::new(args.iter().collect()), i, acc, env, v)
    }

    fn arg_values_of(&self, args: Rc<Vec<&'a T<'a>>>, i: usize, acc: Rc<Vec<Val>>, env: &Env<'a>, v: Val) -> Stream<'a, Rc<Vec<Val>>> {
        if i == args.len() {
            return Stream::ok(acc);
        }
        let me = self.clone();
        let (env2, v2) = (env.clone(), v.clone());
        self.eval(args[i], env, v).flat_map(Rc::new(move |x| {
            let mut a = (*acc).clone();
            a.push(x);
            me.arg_values_of(args.clone(), i + 1, Rc::new(a), &env2, v2.clone())
        }))
    }

    /// a native filter without path/update implementation: its value
    /// arguments are bound (they may fail or be empty), then it refuses
    fn native_refuses<X: Clone + 'a>(&self, kinds: Vec<bool>, args: &'a [T<'a>], env: &Env<'a>, v: Val, none: Stream<'a, X>) -> Stream<'a, X> {
        let vars: Vec<&'a T<'a>> = args.iter().zip(kinds).filter(|(_, k)| *k).map(|(a, _)| a).collect();
        let combos = self.arg_values_of(Rc::new(vars), 0, Rc::new(Vec::new()), env, v.clone());
        Stream::lazy(move || match combos.force() {
            Step::Nil => none.force(),
            Step::Cons(Err(e), _) => Step::Cons(Err(e), Stream::empty()),
            Step::Cons(Ok(_), _) => path_err(v).force(),
        })
    }

    fn native(&self, name: &'a str, args: &'a [T<'a>], env: &Env<'a>, v: Val) -> Stream<'a, Val> {
        let me = self.clone();
        let env2 = env.clone();
        match (name, args.len()) {
            ("first", 1) => take(self.eval(&args[0], env, v), 1),
            ("last", 1) => {
                let s = self.eval(&args[0], env, v);
                Stream::lazy(move || match s.collect() {
                    Ok(xs) => match xs.into_iter().last() {
                        Some(x) => Step::Cons(Ok(x), Stream::empty()),
                        None => Step::Nil,
                    },
                    Err(e) => Step::Cons(Err(e), Stream::empty()),
                })
            }
            ("limit", 2) | ("skip", 2) => {
                let is_limit = name == "limit";
                let v2 = v.clone();
                self.eval(&args[0], env, v).flat_map(Rc::new(move |n| {
                    let n = match int_count(&n) {
                        Some(n) => n,
                        None => return Stream::err(Sig::Unsupported("non-integer count".into())),
                    };
                    if is_limit {
                        if n <= 0 {
                            Stream::empty()
                        } else {
                            take(me.eval(&args[1], &env2, v2.clone()), n as usize)
                        }
                    } else {
                        skip(me.eval(&args[1], &env2, v2.clone()), n.max(0) as usize)
                    }
                }))
            }
            ("path", 1) => self.paths(&args[0], env, (v, Rc::new(Vec::new()))).map(Rc::new(|(_, p): VP| Ok(Val::from_iter((*p).clone())))),
            ("path_value", 1) => self
                .paths(&args[0], env, (v, Rc::new(Vec::new())))
                .map(Rc::new(|(x, p): VP| Ok(Val::from_iter([Val::from_iter((*p).clone()), x])))),
            ("range", 3) => self.arg_values(args, 0, Rc::new(Vec::new()), env, v).flat_map(Rc::new(move |a| range(me.clone(), a[0].clone(), a[1].clone(), a[2].clone()))),
            ("sort_by", 1) | ("group_by", 1) | ("min_by_or_empty", 1) | ("max_by_or_empty", 1) => {
                let f: &'a T<'a> = &args[0];
                Stream::lazy(move || {
                    let xs: Vec<Val> = match &v {
                        Val::Arr(a) => (**a).clone(),
                        _ => return err_val(jaq_core::Error::typ(v.clone(), "array")).force(),
                    };
                    let mut keyed: Vec<(Vec<Val>, Val)> = Vec::new();
                    for x in xs {
                        match me.eval(f, &env2, x.clone()).collect() {
                            Ok(k) => keyed.push((k, x)),
                            Err(e) => return Step::Cons(Err(e), Stream::empty()),
                        }
                    }
                    let out: Option<Val> = match name {
                        "sort_by" => {
                            keyed.sort_by(|a, b| a.0.cmp(&b.0));
                            Some(Val::from_iter(keyed.into_iter().map(|k| k.1)))
                        }
                        "group_by" => {
                            keyed.sort_by(|a, b| a.0.cmp(&b.0));
                            let mut groups: Vec<(Vec<Val>, Vec<Val>)> = Vec::new();
                            for (k, x) in keyed {
                                match groups.last_mut() {
                                    Some(g) if g.0 == k => g.1.push(x),
                                    _ => groups.push((k, vec![x])),
                                }
                            }
                            Some(Val::from_iter(groups.into_iter().map(|g| Val::from_iter(g.1))))
                        }
                        "min_by_or_empty" => {
                            let mut best: Option<(Vec<Val>, Val)> = None;
                            for (k, x) in keyed {
                                match &best {
                                    Some(b) if !(k < b.0) => {}
                                    _ => best = Some((k, x)),
                                }
                            }
                            best.map(|b| b.1)
                        }
                        _ => {
                            let mut best: Option<(Vec<Val>, Val)> = None;
                            for (k, x) in keyed {
                                match &best {
                                    Some(b) if !(k >= b.0) => {}
                                    _ => best = Some((k, x)),
                                }
                            }
                            best.map(|b| b.1)
                        }
                    };
                    match out {
                        Some(o) => Step::Cons(Ok(o), Stream::empty()),
                        None => Step::Nil,
                    }
                })
            }
            ("input", 0) => {
                let me2 = self.clone();
                Stream::lazy(move || match me2.0.inputs.borrow_mut().pop_front() {
                    Some(x) => {
                        me2.0.pulled.set(me2.0.pulled.get() + 1);
                        Step::Cons(Ok(x), Stream::empty())
                    }
                    None => Step::Nil,
                })
            }
            ("inputs", 0) => inputs_stream(self.clone()),
            _ => match (self.0.native_kinds)(name, args.len()) {
                Some(k) if k.iter().all(|x| *x) => {
                    let v2 = v.clone();
                    self.arg_values(args, 0, Rc::new(Vec::new()), env, v).flat_map(Rc::new(move |a| match (me.0.native)(name, &a, v2.clone()) {
                        Some(items) => from_items(items),
                        None => Stream::err(Sig::Unsupported(format!("native {name}"))),
                    }))
                }
                Some(_) => Stream::err(Sig::Unsupported(format!("native {name} with filter arguments"))),
                None => Stream::err(Sig::Unsupported(format!("undefined filter {name}/{}", args.len()))),
            },
        }
    }

    /// index tuples of a compound path: all index filters run on the original
    /// input, leftmost slowest
    fn path_indices(&self, parts: &'a [(Part<T<'a>>, Opt)], i: usize, acc: Rc<Vec<PartV>>, env: &Env<'a>, v: Val) -> Stream<'a, Rc<Vec<PartV>>> {
        if i == parts.len() {
            return Stream::ok(acc);
        }
        let me = self.clone();
        let (env2, v2) = (env.clone(), v.clone());
        let opt = matches!(parts[i].1, Opt::Optional);
        let push = move |acc: &Rc<Vec<PartV>>, p: PartV| {
            let mut a = (**acc).clone();
            a.push(p);
            Rc::new(a)
        };
        match &parts[i].0 {
            Part::Range(None, None) => self.path_indices(parts, i + 1, push(&acc, PartV::Iter(opt)), env, v),
            Part::Index(t) => self.eval(t, env, v).flat_map(Rc::new(move |k| me.path_indices(parts, i + 1, push(&acc, PartV::Index(k, opt)), &env2, v2.clone()))),
            Part::Range(Some(f), None) => self
                .eval(f, env, v)
                .flat_map(Rc::new(move |a| me.path_indices(parts, i + 1, push(&acc, PartV::Range(Some(a), None, opt)), &env2, v2.clone()))),
            Part::Range(None, Some(u)) => self
                .eval(u, env, v)
                .flat_map(Rc::new(move |b| me.path_indices(parts, i + 1, push(&acc, PartV::Range(None, Some(b), opt)), &env2, v2.clone()))),
            Part::Range(Some(f), Some(u)) => {
                let u: &'a T<'a> = u;
                self.eval(f, env, v).flat_map(Rc::new(move |a| {
                    let (me3, env3, v3, acc3) = (me.clone(), env2.clone(), v2.clone(), acc.clone());
                    me.eval(u, &env2, v2.clone()).flat_map(Rc::new(move |b| {
                        me3.path_indices(parts, i + 1, push(&acc3, PartV::Range(Some(a.clone()), Some(b), opt)), &env3, v3.clone())
                    }))
                }))
            }
        }
    }

    fn apply_parts(&self, idxs: Rc<Vec<PartV>>, i: usize, y: Val) -> Stream<'a, Val> {
        if i == idxs.len() {
            return Stream::ok(y);
        }
        let me = self.clone();
        let idxs2 = idxs.clone();
        let outs = part_run(&idxs[i], y);
        outs.flat_map(Rc::new(move |z| me.apply_parts(idxs2.clone(), i + 1, z)))
    }

    // -------------------------------------------------------------- path mode (docs/advanced.dj, first table)

    pub fn paths(&self, t: &'a T<'a>, env: &Env<'a>, vp: VP) -> Stream<'a, VP> {
        if let Some(s) = self.tick() {
            return s;
        }
        if let Some(s) = single_interp(t) {
            return s;
        }
        let me = self.clone();
        let env2 = env.clone();
        let (v, p) = vp.clone();
        match t {
            Term::Id => Stream::ok(vp),
            Term::Recurse => self.recurse_paths(vp),
            Term::BinOp(l, BinaryOp::Pipe(None), r) => self.paths(l, env, vp).flat_map(Rc::new(move |vp1| me.paths(r, &env2, vp1))),
            Term::BinOp(l, BinaryOp::Pipe(Some(pat)), r) => self.bind_stream(l, pat, env, v).flat_map(Rc::new(move |e: Env<'a>| me.paths(r, &e, vp.clone()))),
            Term::BinOp(l, BinaryOp::Comma, r) => self.paths(l, env, vp.clone()).concat(Stream::delay(move || me.paths(r, &env2, vp))),
            // path(f // g) == path(if first(f // false) then f else g end)
            Term::BinOp(l, BinaryOp::Alt, r) => {
                let ls = filter_truthy(self.eval(l, env, v));
                Stream::lazy(move || match ls.force() {
                    Step::Nil => me.paths(r, &env2, vp).force(),
                    Step::Cons(Err(e), _) => Step::Cons(Err(e), Stream::empty()),
                    Step::Cons(Ok(_), _) => me.paths(l, &env2, vp).force(),
                })
            }
            Term::IfThenElse(its, else_) => self.paths_ite(its, 0, else_.as_deref(), env, vp),
            Term::TryCatch(f, c) => {
                let c: Option<&'a T<'a>> = c.as_deref();
                // try path(f) catch (g | error)
                catch_error(self.paths(f, env, vp), Rc::new(move |e| match c {
                    None => Stream::empty(),
                    Some(c) => me.eval(c, &env2, e).flat_map(Rc::new(|x| Stream::err(Sig::Error(x)))),
                }))
            }
            Term::Label(x, f) => {
                let id = self.fresh_label();
                let env3 = env.push(Bind::Label(x, id));
                catch_break(self.paths(f, &env3, vp), id)
            }
            Term::Break(x) => match env.label(x) {
                Some(id) => Stream::err(Sig::Break(id)),
                None => Stream::err(Sig::Unsupported(format!("undefined label {x}"))),
            },
            Term::Def(defs, body) => {
                let mut env3 = env.clone();
                for d in defs {
                    env3 = env3.with_def(d);
                }
                self.paths(body, &env3, vp)
            }
            Term::Fold(kind, xs, pat, args) => {
                let (init, update, proj) = match (*kind, args.as_slice()) {
                    ("reduce", [i, u]) => (i, u, None),
                    ("foreach", [i, u]) => (i, u, Some(None)),
                    ("foreach", [i, u, p]) => (i, u, Some(Some(p))),
                    _ => return Stream::err(Sig::Unsupported("fold arity".into())),
                };
                let envs = self.bind_stream(xs, pat, env, v);
                self.paths(init, env, vp).flat_map(Rc::new(move |s0| me.fold_paths(s0, envs.clone(), update, proj)))
            }
            Term::Path(f, path) => {
                let parts: &'a [(Part<T<'a>>, Opt)] = &path.0;
                let v0 = v.clone();
                self.paths(f, env, vp).flat_map(Rc::new(move |y: VP| {
                    let me2 = me.clone();
                    me.path_indices(parts, 0, Rc::new(Vec::new()), &env2, v0.clone())
                        .flat_map(Rc::new(move |idxs: Rc<Vec<PartV>>| me2.apply_parts_paths(idxs, 0, y.clone())))
                }))
            }
            Term::Call(name, args) => self.call_paths(name, args, env, vp),
            // everything else constructs a value
            _ => {
                let _ = &p;
                path_err(v)
            }
        }
    }

    fn recurse_paths(&self, vp: VP) -> Stream<'a, VP> {
        let me = self.clone();
        let (v, p) = vp.clone();
        Stream::cons(
            Ok(vp),
            Stream::delay(move || {
                if let Some(s) = me.tick() {
                    return s;
                }
                let kids: Vec<VP> = match &v {
                    Val::Arr(_) | Val::Obj(_) => v.clone().key_values().filter_map(|r| r.ok()).map(|(k, c)| (c, push_path(&p, k))).collect(),
                    _ => Vec::new(),
                };
                from_vec(kids).flat_map(Rc::new(move |k| me.recurse_paths(k)))
            }),
        )
    }

    fn paths_ite(&self, its: &'a [(T<'a>, T<'a>)], i: usize, else_: Option<&'a T<'a>>, env: &Env<'a>, vp: VP) -> Stream<'a, VP> {
        if i == its.len() {
            return match else_ {
                Some(e) => self.paths(e, env, vp),
                None => Stream::ok(vp),
            };
        }
        let me = self.clone();
        let env2 = env.clone();
        self.eval(&its[i].0, env, vp.0.clone()).flat_map(Rc::new(move |c| {
            if truthy(&c) {
                me.paths(&its[i].1, &env2, vp.clone())
            } else {
                me.paths_ite(its, i + 1, else_, &env2, vp.clone())
            }
        }))
    }

    fn fold_paths(&self, s: VP, xs: Stream<'a, Env<'a>>, update: &'a T<'a>, proj: Option<Option<&'a T<'a>>>) -> Stream<'a, VP> {
        let me = self.clone();
        Stream::lazy(move || match xs.force() {
            Step::Nil => match proj {
                None => Step::Cons(Ok(s), Stream::empty()),
                Some(_) => Step::Nil,
            },
            Step::Cons(Err(e), _) => Step::Cons(Err(e), Stream::empty()),
            Step::Cons(Ok(envi), rest) => {
                let me2 = me.clone();
                me.paths(update, &envi, s)
                    .flat_map(Rc::new(move |s1: VP| {
                        let next = {
                            let (me3, rest, s1) = (me2.clone(), rest.clone(), s1.clone());
                            Stream::delay(move || me3.fold_paths(s1, rest, update, proj))
                        };
                        match proj {
                            None => next,
                            Some(None) => Stream::cons(Ok(s1), next),
                            Some(Some(p)) => me2.paths(p, &envi, s1).concat(next),
                        }
                    }))
                    .force()
            }
        })
    }

    fn apply_parts_paths(&self, idxs: Rc<Vec<PartV>>, i: usize, y: VP) -> Stream<'a, VP> {
        if i == idxs.len() {
            return Stream::ok(y);
        }
        let me = self.clone();
        let idxs2 = idxs.clone();
        part_paths(&idxs[i], y).flat_map(Rc::new(move |z| me.apply_parts_paths(idxs2.clone(), i + 1, z)))
    }

    fn call_paths(&self, name: &'a str, args: &'a [T<'a>], env: &Env<'a>, vp: VP) -> Stream<'a, VP> {
        if let Some(at) = env.fun(name, args.len()) {
            let node = at.0.as_ref().unwrap();
            return match &node.bind {
                Bind::Arg(_, term, cenv) => self.paths(term, cenv, vp),
                Bind::Hook(_, _) => path_err(vp.0),
                Bind::Def(d) => {
                    let me = self.clone();
                    let body: &'a T<'a> = &d.body;
                    self.bind_args(&d.args, args, 0, at.clone(), env, vp.0.clone()).flat_map(Rc::new(move |e: Env<'a>| me.paths(body, &e, vp.clone())))
                }
                _ => unreachable!(),
            };
        }
        let me = self.clone();
        let env2 = env.clone();
        match (name, args.len()) {
            ("first", 1) => take(self.paths(&args[0], env, vp), 1),
            ("last", 1) => {
                let s = self.paths(&args[0], env, vp);
                Stream::lazy(move || match s.collect() {
                    Ok(xs) => match xs.into_iter().last() {
                        Some(x) => Step::Cons(Ok(x), Stream::empty()),
                        None => Step::Nil,
                    },
                    Err(e) => Step::Cons(Err(e), Stream::empty()),
                })
            }
            ("limit", 2) | ("skip", 2) => {
                let is_limit = name == "limit";
                self.eval(&args[0], env, vp.0.clone()).flat_map(Rc::new(move |n| {
                    let n = match int_count(&n) {
                        Some(n) => n,
                        None => return Stream::err(Sig::Unsupported("non-integer count".into())),
                    };
                    if is_limit {
                        if n <= 0 {
                            Stream::empty()
                        } else {
                            take(me.paths(&args[1], &env2, vp.clone()), n as usize)
                        }
                    } else {
                        skip(me.paths(&args[1], &env2, vp.clone()), n.max(0) as usize)
                    }
                }))
            }
            _ => match (self.0.native_kinds)(name, args.len()) {
                // value arguments are bound first (each combination refuses)
                Some(k) => {
                    let v = vp.0.clone();
                    let vars: Vec<&'a T<'a>> = args.iter().zip(k).filter(|(_, k)| *k).map(|(a, _)| a).collect();
                    self.arg_values_of(Rc::new(vars), 0, Rc::new(Vec::new()), env, v.clone()).flat_map(Rc::new(move |_| path_err(v.clone())))
                }
                None => Stream::err(Sig::Unsupported(format!("undefined filter {name}/{}", args.len()))),
            },
        }
    }

    // -------------------------------------------------------------- update mode (docs/advanced.dj, second table)

    /// `v | t |= u`
    pub fn upd(&self, t: &'a T<'a>, env: &Env<'a>, v: Val, u: UpdFn<'a>) -> Stream<'a, Val> {
        if let Some(s) = self.tick() {
            return s;
        }
        if let Some(s) = single_interp(t) {
            return s;
        }
        let me = self.clone();
        let env2 = env.clone();
        match t {
            Term::Id => u(v),
            // def rec_up: (.[]? | rec_up), .; rec_up |= u
            Term::Recurse => self.recurse_upd(v, u),
            // (f | g) |= u  ==  f |= (g |= u)
            Term::BinOp(l, BinaryOp::Pipe(None), r) => self.upd(l, env, v, Rc::new(move |x| me.upd(r, &env2, x, u.clone()))),
            // (f , g) |= u  ==  f |= u | g |= u
            Term::BinOp(l, BinaryOp::Comma, r) => self.upd(l, env, v, u.clone()).flat_map(Rc::new(move |x| me.upd(r, &env2, x, u.clone()))),
            // (f as $x | g) |= u  ==  (f1 as $x | g) |= u | ... | (fn as $x | g) |= u
            Term::BinOp(l, BinaryOp::Pipe(Some(pat)), r) => {
                let envs = self.bind_stream(l, pat, env, v.clone());
                self.seq_upd(v, envs, r, u)
            }
            // (f // g) |= u  ==  if first(f // false) then f else g end |= u
            Term::BinOp(l, BinaryOp::Alt, r) => {
                let ls = filter_truthy(self.eval(l, env, v.clone()));
                Stream::lazy(move || match ls.force() {
                    Step::Nil => me.upd(r, &env2, v, u).force(),
                    Step::Cons(Err(e), _) => Step::Cons(Err(e), Stream::empty()),
                    Step::Cons(Ok(_), _) => me.upd(l, &env2, v, u).force(),
                })
            }
            // if $p then f else g end |= u  ==  if $p then f |= u else g |= u end, for every output of p in turn
            Term::IfThenElse(its, else_) => self.upd_ite(its, 0, else_.as_deref(), env, v, u),
            Term::Def(defs, body) => {
                let mut env3 = env.clone();
                for d in defs {
                    env3 = env3.with_def(d);
                }
                self.upd(body, &env3, v, u)
            }
            Term::Break(x) => match env.label(x) {
                Some(id) => Stream::err(Sig::Break(id)),
                None => Stream::err(Sig::Unsupported(format!("undefined label {x}"))),
            },
            Term::Fold(kind, xs, pat, args) => {
                let (init, update, proj) = match (*kind, args.as_slice()) {
                    ("reduce", [i, u]) => (i, u, None),
                    ("foreach", [i, u]) => (i, u, Some(None)),
                    ("foreach", [i, u, p]) => (i, u, Some(Some(p))),
                    _ => return Stream::err(Sig::Unsupported("fold arity".into())),
                };
                let envs = self.bind_stream(xs, pat, env, v.clone());
                // (init | x1 as $x | update | ...) |= u  ==  init |= ((x1 as $x | update | ...) |= u)
                self.upd(init, env, v, Rc::new(move |s| me.fold_upd(s, envs.clone(), update, proj, u.clone())))
            }
            Term::Path(f, path) => {
                let parts: &'a [(Part<T<'a>>, Opt)] = &path.0;
                let v0 = v.clone();
                // f[x][y:z] |= u: every index combination in turn (binding by binding)
                let inner: UpdFn<'a> = Rc::new(move |y| {
                    let combos = me.path_indices(parts, 0, Rc::new(Vec::new()), &env2, v0.clone());
                    me.seq_parts_upd(y, combos, u.clone())
                });
                self.upd(f, env, v, inner)
            }
            Term::Call(name, args) => self.call_upd(name, args, env, v, u),
            _ => path_err(v),
        }
    }

    /// sequential composition over bindings: acc | (g |= u) for each environment
    fn seq_upd(&self, acc: Val, envs: Stream<'a, Env<'a>>, g: &'a T<'a>, u: UpdFn<'a>) -> Stream<'a, Val> {
        let me = self.clone();
        Stream::lazy(move || match envs.force() {
            Step::Nil => Step::Cons(Ok(acc), Stream::empty()),
            Step::Cons(Err(e), _) => Step::Cons(Err(e), Stream::empty()),
            Step::Cons(Ok(e), rest) => {
                let me2 = me.clone();
                let u2 = u.clone();
                me.upd(g, &e, acc, u.clone()).flat_map(Rc::new(move |x| me2.seq_upd(x, rest.clone(), g, u2.clone()))).force()
            }
        })
    }

    fn seq_parts_upd(&self, acc: Val, combos: Stream<'a, Rc<Vec<PartV>>>, u: UpdFn<'a>) -> Stream<'a, Val> {
        let me = self.clone();
        Stream::lazy(move || match combos.force() {
            Step::Nil => Step::Cons(Ok(acc), Stream::empty()),
            Step::Cons(Err(e), _) => Step::Cons(Err(e), Stream::empty()),
            Step::Cons(Ok(idxs), rest) => {
                let me2 = me.clone();
                let u2 = u.clone();
                me.parts_upd(idxs, 0, acc, u.clone()).flat_map(Rc::new(move |x| me2.seq_parts_upd(x, rest.clone(), u2.clone()))).force()
            }
        })
    }

    /// (.[a] | .[b] | ...) |= u by the (f|g) rule with iter_upd / index_upd / slice_upd
    fn parts_upd(&self, idxs: Rc<Vec<PartV>>, i: usize, v: Val, u: UpdFn<'a>) -> Stream<'a, Val> {
        if i == idxs.len() {
            return u(v);
        }
        let me = self.clone();
        let idxs2 = idxs.clone();
        let inner: UpdFn<'a> = Rc::new(move |x| me.parts_upd(idxs2.clone(), i + 1, x, u.clone()));
        part_upd(&idxs[i], v, inner)
    }

    fn recurse_upd(&self, v: Val, u: UpdFn<'a>) -> Stream<'a, Val> {
        if let Some(s) = self.tick() {
            return s;
        }
        let me = self.clone();
        let u2 = u.clone();
        let inner: UpdFn<'a> = Rc::new(move |c| me.recurse_upd(c, u2.clone()));
        // (.[]? | rec_up) |= u, then . |= u
        part_upd(&PartV::Iter(true), v, inner).flat_map(Rc::new(move |x| u(x)))
    }

    fn upd_ite(&self, its: &'a [(T<'a>, T<'a>)], i: usize, else_: Option<&'a T<'a>>, env: &Env<'a>, v: Val, u: UpdFn<'a>) -> Stream<'a, Val> {
        if i == its.len() {
            return match else_ {
                Some(e) => self.upd(e, env, v, u),
                None => u(v),
            };
        }
        // the condition runs on the original input; its outputs select branches applied in sequence
        let conds = self.eval(&its[i].0, env, v.clone());
        self.seq_ite(v, conds, its, i, else_, env.clone(), u)
    }

    fn seq_ite(&self, acc: Val, conds: Stream<'a, Val>, its: &'a [(T<'a>, T<'a>)], i: usize, else_: Option<&'a T<'a>>, env: Env<'a>, u: UpdFn<'a>) -> Stream<'a, Val> {
        let me = self.clone();
        Stream::lazy(move || match conds.force() {
            Step::Nil => Step::Cons(Ok(acc), Stream::empty()),
            Step::Cons(Err(e), _) => Step::Cons(Err(e), Stream::empty()),
            Step::Cons(Ok(c), rest) => {
                let branch = if truthy(&c) { me.upd(&its[i].1, &env, acc, u.clone()) } else { me.upd_ite(its, i + 1, else_, &env, acc, u.clone()) };
                let (me2, env2, u2) = (me.clone(), env.clone(), u.clone());
                branch.flat_map(Rc::new(move |x| me2.seq_ite(x, rest.clone(), its, i, else_, env2.clone(), u2.clone()))).force()
            }
        })
    }

    fn fold_upd(&self, s: Val, xs: Stream<'a, Env<'a>>, update: &'a T<'a>, proj: Option<Option<&'a T<'a>>>, u: UpdFn<'a>) -> Stream<'a, Val> {
        let me = self.clone();
        Stream::lazy(move || match xs.force() {
            // reduce: `. |= u`; foreach: `empty |= u` == `.`
            Step::Nil => match proj {
                None => u(s).force(),
                Some(_) => Step::Cons(Ok(s), Stream::empty()),
            },
            Step::Cons(Err(e), _) => Step::Cons(Err(e), Stream::empty()),
            Step::Cons(Ok(envi), rest) => {
                let (me2, u2, envi2) = (me.clone(), u.clone(), envi.clone());
                // update |= ((project, rest) |= u)
                let inner: UpdFn<'a> = Rc::new(move |s1| {
                    let (me3, rest3, u3) = (me2.clone(), rest.clone(), u2.clone());
                    let after = move |x: Val| me3.fold_upd(x, rest3.clone(), update, proj, u3.clone());
                    match proj {
                        None => after(s1),
                        Some(None) => u2(s1).flat_map(Rc::new(after)),
                        Some(Some(p)) => me2.upd(p, &envi2, s1, u2.clone()).flat_map(Rc::new(after)),
                    }
                });
                me.upd(update, &envi, s, inner).force()
            }
        })
    }

    fn call_upd(&self, name: &'a str, args: &'a [T<'a>], env: &Env<'a>, v: Val, u: UpdFn<'a>) -> Stream<'a, Val> {
        if let Some(at) = env.fun(name, args.len()) {
            let node = at.0.as_ref().unwrap();
            return match &node.bind {
                Bind::Arg(_, term, cenv) => self.upd(term, cenv, v, u),
                Bind::Hook(_, _) => path_err(v),
                Bind::Def(d) => {
                    let body: &'a T<'a> = &d.body;
                    let envs = self.bind_args(&d.args, args, 0, at.clone(), env, v.clone());
                    self.seq_upd(v, envs, body, u)
                }
                _ => unreachable!(),
            };
        }
        let _ = &u;
        match (self.0.native_kinds)(name, args.len()) {
            None => Stream::err(Sig::Unsupported(format!("undefined filter {name}/{}", args.len()))),
            // natives have no update implementation: value arguments are bound, then the native
            // refuses; with no argument combination at all the input is returned unchanged
            Some(k) => self.native_refuses(k, args, env, v.clone(), Stream::ok(v)),
        }
    }
}

#[derive(Clone, Copy)]
enum Entries<'a> {
    Arr(&'a [Pattern<&'a str>]),
    Obj(&'a [(T<'a>, Pattern<&'a str>)]),
}
impl<'a> Entries<'a> {
    fn len(&self) -> usize {
        match self {
            Entries::Arr(a) => a.len(),
            Entries::Obj(o) => o.len(),
        }
    }
}

/// evaluated path part; bool = optional (`?`)
#[derive(Clone)]
pub enum PartV {
    Iter(bool),
    Index(Val, bool),
    Range(Option<Val>, Option<Val>, bool),
}

fn from_vec<'a, X: Clone + 'a>(xs: Vec<X>) -> Stream<'a, X> {
    let mut s = Stream::empty();
    for x in xs.into_iter().rev() {
        s = Stream::cons(Ok(x), s);
    }
    s
}
fn from_items<'a, X: Clone + 'a>(xs: Vec<Item<X>>) -> Stream<'a, X> {
    let mut s = Stream::empty();
    for x in xs.into_iter().rev() {
        s = Stream::cons(x, s);
    }
    s
}

fn take<'a, X: Clone + 'a>(s: Stream<'a, X>, n: usize) -> Stream<'a, X> {
    if n == 0 {
        return Stream::empty();
    }
    Stream::lazy(move || match s.force() {
        Step::Nil => Step::Nil,
        Step::Cons(Err(e), _) => Step::Cons(Err(e), Stream::empty()),
        Step::Cons(Ok(x), rest) => Step::Cons(Ok(x), take(rest, n - 1)),
    })
}

fn skip<'a, X: Clone + 'a>(s: Stream<'a, X>, n: usize) -> Stream<'a, X> {
    Stream::lazy(move || {
        let mut cur = s;
        for _ in 0..n {
            match cur.force() {
                Step::Nil => return Step::Nil,
                Step::Cons(Err(e), _) => return Step::Cons(Err(e), Stream::empty()),
                Step::Cons(Ok(_), rest) => cur = rest,
            }
        }
        cur.force()
    })
}

fn filter_truthy<'a>(s: Stream<'a, Val>) -> Stream<'a, Val> {
    Stream::lazy(move || {
        let mut cur = s;
        loop {
            match cur.force() {
                Step::Nil => return Step::Nil,
                Step::Cons(Err(e), _) => return Step::Cons(Err(e), Stream::empty()),
                Step::Cons(Ok(x), rest) => {
                    if truthy(&x) {
                        return Step::Cons(Ok(x), filter_truthy(rest));
                    }
                    cur = rest;
                }
            }
        }
    })
}

fn catch_break<'a, X: Clone + 'a>(s: Stream<'a, X>, id: usize) -> Stream<'a, X> {
    Stream::lazy(move || match s.force() {
        Step::Nil => Step::Nil,
        Step::Cons(Err(Sig::Break(b)), _) if b == id => Step::Nil,
        Step::Cons(Err(e), _) => Step::Cons(Err(e), Stream::empty()),
        Step::Cons(Ok(x), rest) => Step::Cons(Ok(x), catch_break(rest, id)),
    })
}

fn catch_error<'a, X: Clone + 'a>(s: Stream<'a, X>, h: Rc<dyn Fn(Val) -> Stream<'a, X> + 'a>) -> Stream<'a, X> {
    Stream::lazy(move || match s.force() {
        Step::Nil => Step::Nil,
        Step::Cons(Err(Sig::Error(e)), _) => h(e).force(),
        Step::Cons(Err(e), _) => Step::Cons(Err(e), Stream::empty()),
        Step::Cons(Ok(x), rest) => Step::Cons(Ok(x), catch_error(rest, h)),
    })
}

fn int_count(n: &Val) -> Option<i64> {
    match n {
        Val::Num(jaq_json::Num::Int(i)) => Some(*i as i64),
        Val::Num(jaq_json::Num::BigInt(b)) => {
            use num_traits::{Signed, ToPrimitive};
            Some(b.to_i64().unwrap_or(if b.is_negative() { i64::MIN } else { i64::MAX }))
        }
        _ => None,
    }
}

/// def range($from; $to; $by): $from | if $by > 0 then while(. < $to; . + $by)
///   elif $by < 0 then while(. > $to; . + $by) else while(. != $to; . + $by) end
fn range<'a>(me: Ref<'a>, from: Val, to: Val, by: Val) -> Stream<'a, Val> {
    Stream::lazy(move || {
        if let Some(s) = me.tick::<Val>() {
            return s.force();
        }
        let zero = Val::from(0isize);
        let go = if by > zero {
            from < to
        } else if by < zero {
            from > to
        } else {
            from != to
        };
        if !go {
            return Step::Nil;
        }
        let next = from.clone() + by.clone();
        let rest = match next {
            Ok(n) => range(me, n, to, by),
            Err(e) => err_val(e),
        };
        Step::Cons(Ok(from), rest)
    })
}

fn inputs_stream<'a>(me: Ref<'a>) -> Stream<'a, Val> {
    Stream::lazy(move || match me.0.inputs.borrow_mut().pop_front() {
        Some(x) => {
            me.0.pulled.set(me.0.pulled.get() + 1);
            Step::Cons(Ok(x), inputs_stream(me.clone()))
        }
        None => Step::Nil,
    })
}

fn opt_filter<'a, X: Clone + 'a>(items: Vec<Item<X>>, optional: bool) -> Stream<'a, X> {
    if optional {
        from_items(items.into_iter().filter(|i| i.is_ok()).collect())
    } else {
        from_items(items)
    }
}

/// `.[]`, `.[$i]`, `.[$i:$j]` in run mode (`?` drops errors)
fn part_run<'a>(p: &PartV, v: Val) -> Stream<'a, Val> {
    match p {
        PartV::Iter(o) => opt_filter(v.values().map(lift).collect(), *o),
        PartV::Index(k, o) => opt_filter(vec![lift(v.index(k))], *o),
        PartV::Range(a, b, o) => opt_filter(vec![lift(v.range(a.as_ref()..b.as_ref()))], *o),
    }
}

/// the manual's path table for `.[]`, `.[$i]`, `.[$i:$j]`
fn part_paths<'a>(p: &PartV, (v, path): VP) -> Stream<'a, VP> {
    match p {
        // keys_unsorted[] | [.]
        PartV::Iter(o) => opt_filter(v.key_values().map(|r| lift(r).map(|(k, c)| (c, push_path(&path, k)))).collect(), *o),
        // .[$i] | [$i]
        PartV::Index(k, o) => opt_filter(vec![lift(v.index(k)).map(|c| (c, push_path(&path, k.clone())))], *o),
        // .[$i:$j] | [{start: $i, end: $j}] (missing bounds omitted)
        PartV::Range(a, b, o) => opt_filter(vec![lift(v.range(a.as_ref()..b.as_ref())).map(|c| (c, push_path(&path, Val::from(a.clone()..b.clone()))))], *o),
    }
}

fn is_arr(v: &Val) -> bool {
    matches!(v, Val::Arr(_))
}
fn is_obj(v: &Val) -> bool {
    matches!(v, Val::Obj(_))
}
fn is_str(v: &Val) -> bool {
    matches!(v, Val::TStr(_) | Val::BStr(_))
}

/// iter_upd / index_upd / slice_upd of the manual; `?` = the `fail` argument is `.`
fn part_upd<'a>(p: &PartV, v: Val, u: UpdFn<'a>) -> Stream<'a, Val> {
    match p {
        PartV::Iter(o) => iter_upd(v, u, *o),
        PartV::Index(k, o) => index_upd(v, k.clone(), u, *o),
        PartV::Range(a, b, o) => slice_upd(v, a.clone(), b.clone(), u, *o),
    }
}

fn fail<'a>(v: Val, optional: bool, e: jaq_core::Error<Val>) -> Stream<'a, Val> {
    if optional {
        Stream::ok(v)
    } else {
        err_val(e)
    }
}

/// if isarray then [.[] | u] elif isobject then with_entries(.value |= u) else fail end
/// (for objects: the first output of u replaces the value, no output deletes the entry)
fn iter_upd<'a>(v: Val, u: UpdFn<'a>, optional: bool) -> Stream<'a, Val> {
    match &v {
        Val::Arr(a) => {
            let elems: Vec<Val> = (**a).clone();
            Stream::lazy(move || {
                let mut out = Vec::new();
                for x in elems {
                    match u(x).collect() {
                        Ok(ys) => out.extend(ys),
                        Err(e) => return Step::Cons(Err(e), Stream::empty()),
                    }
                }
                Step::Cons(Ok(Val::from_iter(out)), Stream::empty())
            })
        }
        Val::Obj(o) => {
            let entries: Vec<(Val, Val)> = o.iter().map(|(k, x)| (k.clone(), x.clone())).collect();
            Stream::lazy(move || {
                let mut out = Vec::new();
                let n = entries.len();
                for (k, x) in entries {
                    match u(x).take_items(1).into_iter().next() {
                        Some(Ok(y)) => out.push((k, y)),
                        Some(Err(e)) => return Step::Cons(Err(e), Stream::empty()),
                        None => note_obj_deletion(n - 1),
                    }
                }
                Step::Cons(lift(Val::from_map(out)), Stream::empty())
            })
        }
        _ => {
            let e = jaq_core::Error::typ(v.clone(), "iterable (array or object)");
            fail(v, optional, e)
        }
    }
}

fn first_of<'a>(s: Stream<'a, Val>) -> Result<Option<Val>, Sig> {
    match s.take_items(1).into_iter().next() {
        None => Ok(None),
        Some(Ok(y)) => Ok(Some(y)),
        Some(Err(e)) => Err(e),
    }
}

fn index_upd<'a>(v: Val, i: Val, u: UpdFn<'a>, optional: bool) -> Stream<'a, Val> {
    // (isstring or isarray) and ($i | isobject): slicing
    if (is_str(&v) || is_arr(&v)) && is_obj(&i) {
        let start = i.clone().index(&Val::from("start".to_string())).ok().filter(|x| !matches!(x, Val::Null));
        let end = i.clone().index(&Val::from("end".to_string())).ok().filter(|x| !matches!(x, Val::Null));
        return slice_upd(v, start, end, u, optional);
    }
    match &v {
        Val::Arr(a) => {
            let len = a.len() as i64;
            let idx = match int_count(&i) {
                Some(n) if matches!(&i, Val::Num(_)) => {
                    let j = if n < 0 { len + n } else { n };
                    if j >= 0 && j < len {
                        Some(j as usize)
                    } else {
                        None
                    }
                }
                _ => None,
            };
            match idx {
                None => {
                    let e = match int_count(&i) {
                        Some(_) => jaq_core::Error::str(format_args!("index {i} out of bounds")),
                        None => jaq_core::Error::typ(i.clone(), "integer"),
                    };
                    fail(v, optional, e)
                }
                Some(p) => {
                    let mut elems: Vec<Val> = (**a).clone();
                    Stream::lazy(move || {
                        // .[:$i] + [.[$i] | first(u)] + .[$i+1:]
                        match first_of(u(elems[p].clone())) {
                            Err(e) => Step::Cons(Err(e), Stream::empty()),
                            Ok(Some(y)) => {
                                elems[p] = y;
                                Step::Cons(Ok(Val::from_iter(elems)), Stream::empty())
                            }
                            Ok(None) => {
                                elems.remove(p);
                                Step::Cons(Ok(Val::from_iter(elems)), Stream::empty())
                            }
                        }
                    })
                }
            }
        }
        Val::Obj(o) => {
            let mut entries: Vec<(Val, Val)> = o.iter().map(|(k, x)| (k.clone(), x.clone())).collect();
            Stream::lazy(move || {
                let pos = entries.iter().position(|(k, _)| *k == i);
                match pos {
                    Some(p) => match first_of(u(entries[p].1.clone())) {
                        Err(e) => return Step::Cons(Err(e), Stream::empty()),
                        Ok(Some(y)) => entries[p].1 = y,
                        Ok(None) => {
                            entries.remove(p);
                            note_obj_deletion(entries.len());
                        }
                    },
                    None => match first_of(u(Val::Null)) {
                        Err(e) => return Step::Cons(Err(e), Stream::empty()),
                        Ok(Some(y)) => entries.push((i.clone(), y)),
                        Ok(None) => {}
                    },
                }
                Step::Cons(lift(Val::from_map(entries)), Stream::empty())
            })
        }
        _ => {
            let e = jaq_core::Error::typ(v.clone(), "iterable (array or object)");
            fail(v, optional, e)
        }
    }
}

/// ([.[:$i], .[$i:$j], .[$j:]]? | .[1] |= u | add) // fail, with the first output of u
fn slice_upd<'a>(v: Val, i: Option<Val>, j: Option<Val>, u: UpdFn<'a>, optional: bool) -> Stream<'a, Val> {
    if !(is_str(&v) || is_arr(&v)) {
        let e = jaq_core::Error::typ(v.clone(), "array");
        return fail(v, optional, e);
    }
    // the three pieces, computed with jaq's own slicing (value-level primitive)
    let mid = match v.clone().range(i.as_ref()..j.as_ref()) {
        Ok(m) => m,
        Err(e) => return fail(v, optional, e),
    };
    let head = match &i {
        None => v.clone().range(None..Some(&Val::from(0isize))),
        Some(i) => v.clone().range(None..Some(i)),
    };
    // the rest starts after head and mid (so that an empty slice with $j < $i duplicates nothing)
    let count = |x: &Val| -> isize {
        use bstr::ByteSlice;
        match x {
            Val::Arr(a) => a.len() as isize,
            Val::TStr(s) => s.chars().count() as isize,
            Val::BStr(s) => s.len() as isize,
            _ => 0,
        }
    };
    let tail = match &head {
        Ok(h) => v.clone().range(Some(&Val::from(count(h) + count(&mid)))..None),
        Err(_) => Ok(Val::Null),
    };
    let (head, tail) = match (head, tail) {
        (Ok(h), Ok(t)) => (h, t),
        (Err(e), _) | (_, Err(e)) => return fail(v, optional, e),
    };
    Stream::lazy(move || match first_of(u(mid)) {
        Err(e) => Step::Cons(Err(e), Stream::empty()),
        Ok(y) => {
            let same_kind = |y: &Val| (is_arr(&v) && is_arr(y)) || (matches!(v, Val::TStr(_)) && matches!(y, Val::TStr(_))) || (matches!(v, Val::BStr(_)) && matches!(y, Val::BStr(_)));
            match y {
                None => Step::Cons(lift(head + tail), Stream::empty()),
                Some(y) if same_kind(&y) => Step::Cons(lift((head + y).and_then(|x| x + tail)), Stream::empty()),
                Some(y) => {
                    let e = jaq_core::Error::typ(y, if is_arr(&v) { "array" } else { "string" });
                    Step::Cons(Err(Sig::Error(e.into_val())), Stream::empty())
                }
            }
        }
    })
}
