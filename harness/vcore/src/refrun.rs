//! Driving REF: prelude, native delegation, running a program text.

use crate::jq::{self, Out};
use crate::refi::{Env, Interp, Item, Ref, Sig, T};
use jaq_core::load::parse::Def;
use jaq_json::Val;
use std::cell::{Cell, RefCell};
use std::collections::{HashMap, VecDeque};
use std::rc::Rc;

#[derive(Clone, Debug)]
pub enum ROut {
    Val(Val),
    Err(Val),
    Halt(i32),
    /// break escaped to the top (ill-scoped program)
    Break,
    Fuel,
    Unsupported(String),
}

impl ROut {
    pub fn show(&self) -> String {
        match self {
            ROut::Val(v) => format!("{v}"),
            ROut::Err(v) => format!("ERROR({v})"),
            ROut::Halt(c) => format!("HALT({c})"),
            ROut::Break => "BREAK".into(),
            ROut::Fuel => "FUEL".into(),
            ROut::Unsupported(s) => format!("UNSUPPORTED({s})"),
        }
    }
    pub fn inconclusive(&self) -> bool {
        matches!(self, ROut::Fuel | ROut::Unsupported(_))
    }
}

thread_local! {
    static PRELUDE: &'static [Def<&'static str>] = {
        let defs: Vec<Def<&'static str>> = jaq_core::defs().chain(jaq_std::defs()).chain(jaq_json::defs()).collect();
        Box::leak(defs.into_boxed_slice())
    };
    static KINDS: HashMap<(String, usize), Vec<bool>> = {
        let mut m = HashMap::new();
        for (name, args, _f) in jaq_all::data::funs() {
            let kinds: Vec<bool> = args.iter().map(|a| matches!(a, jaq_core::Bind::Var(()))).collect();
            m.insert((name.to_string(), kinds.len()), kinds);
        }
        m
    };
}

pub fn prelude() -> &'static [Def<&'static str>] {
    PRELUDE.with(|p| *p)
}

pub fn native_kinds(name: &str, arity: usize) -> Option<Vec<bool>> {
    KINDS.with(|k| k.get(&(name.to_string(), arity)).cloned())
}

/// All native filter signatures of the current tree.
pub fn native_sigs() -> Vec<(String, Vec<bool>)> {
    KINDS.with(|k| {
        let mut v: Vec<(String, Vec<bool>)> = k.iter().map(|((n, _), ks)| (n.clone(), ks.clone())).collect();
        v.sort();
        v
    })
}

/// Call a native filter whose arguments are all values, through jaq.
pub fn call_native(name: &str, args: &[Val], input: Val) -> Option<Vec<Item<Val>>> {
    let names: Vec<String> = (0..args.len()).map(|i| format!("a{i}")).collect();
    let code = if args.is_empty() { name.to_string() } else { format!("{name}({})", names.iter().map(|n| format!("${n}")).collect::<Vec<_>>().join("; ")) };
    let refs: Vec<&str> = names.iter().map(|s| s.as_str()).collect();
    let f = jq::cached(&code, &refs)?;
    let outs = jq::run(&f, args.to_vec(), input, 10_000);
    Some(
        outs.into_iter()
            .map(|o| match o {
                Out::Val(v) => Ok(v),
                Out::Err(e) => Err(Sig::Error(e)),
                Out::Halt(c) => Err(Sig::Halt(c)),
                Out::Escape(s) => Err(Sig::Unsupported(format!("escape {s}"))),
                Out::Panic(p) => Err(Sig::Unsupported(format!("panic in native: {p}"))),
            })
            .collect(),
    )
}

pub fn new_interp<'a>(fuel: u64, inputs: Vec<Val>) -> Ref<'a> {
    Ref(Rc::new(Interp {
        fuel: Cell::new(fuel),
        labels: Cell::new(0),
        inputs: RefCell::new(VecDeque::from(inputs)),
        pulled: Cell::new(0),
        native: Box::new(call_native),
        native_kinds: Box::new(native_kinds),
        lookups: Cell::new(0),
    }))
}

pub fn base_env<'a>(vars: &[(&'a str, Val)]) -> Env<'a> {
    let mut env = Env::new();
    for d in prelude() {
        env = env.with_def(d);
    }
    for (n, v) in vars {
        env = env.with_var(n, v.clone());
    }
    env
}

pub fn parse(code: &str) -> Option<T<'_>> {
    jaq_core::load::parse(code, |p| p.term())
}

pub fn items_to_routs(items: Vec<Item<Val>>) -> Vec<ROut> {
    items
        .into_iter()
        .map(|i| match i {
            Ok(v) => ROut::Val(v),
            Err(Sig::Error(e)) => ROut::Err(e),
            Err(Sig::Halt(c)) => ROut::Halt(c),
            Err(Sig::Break(_)) => ROut::Break,
            Err(Sig::Fuel) => ROut::Fuel,
            Err(Sig::Unsupported(s)) => ROut::Unsupported(s),
        })
        .collect()
}

/// Run a program text with REF. `vars` names include the leading `$`.
/// Returns None if the text does not parse.
/// Did the last `run_ref` on this thread delete an entry from an object that kept >= 2 entries?
pub fn order_sensitive_deletion() -> bool {
    crate::refi::OBJ_DELETIONS.with(|d| d.get() > 0)
}

pub fn run_ref(code: &str, vars: &[(&str, Val)], input: Val, limit: usize, fuel: u64) -> Option<(Vec<ROut>, u64)> {
    let term = parse(code)?;
    crate::refi::OBJ_DELETIONS.with(|d| d.set(0));
    let interp = new_interp(fuel, Vec::new());
    let env = base_env(vars);
    let items = interp.eval(&term, &env, input).take_items(limit);
    let lookups = interp.0.lookups.get();
    Some((items_to_routs(items), lookups))
}
