//! Check driver: runs generated sub-checks on 16 workers through proptest's
//! `TestRunner` (so failures shrink), exhaustive enumerations by index,
//! known-finding demonstrations; collects evidence and implements the exit
//! protocol (0 / 1 + VIOLATION line / 2 inconclusive).

use crate::src::Src;
use proptest::collection::vec;
use proptest::prelude::any;
use proptest::test_runner::{Config, RngAlgorithm, TestCaseError, TestError, TestRng, TestRunner};
use serde_json::{json, Value};
use std::collections::{BTreeMap, HashSet};
use std::sync::atomic::{AtomicBool, AtomicU64, Ordering};
use std::sync::Mutex;
use std::time::Instant;

#[derive(Copy, Clone, PartialEq, Eq, Debug)]
pub enum Tier {
    Quick,
    Thorough,
}

pub struct CaseOk {
    pub nontrivial: bool,
    /// fingerprint for distinctness
    pub key: u64,
    pub classes: Vec<&'static str>,
    /// filled only when `src.sample` was set
    pub desc: Option<Value>,
    /// a case that bundles several evaluations (one program on many inputs): their number
    /// and the fingerprints of the non-trivial ones
    pub bundle: Option<(u64, Vec<u64>)>,
}

impl CaseOk {
    pub fn new(nontrivial: bool, key: u64) -> Self {
        CaseOk { nontrivial, key, classes: Vec::new(), desc: None, bundle: None }
    }
    pub fn trivial() -> Self {
        CaseOk::new(false, 0)
    }
    pub fn class(mut self, c: &'static str) -> Self {
        self.classes.push(c);
        self
    }
    pub fn classes(mut self, c: &[&'static str]) -> Self {
        self.classes.extend_from_slice(c);
        self
    }
    pub fn desc(mut self, d: Option<Value>) -> Self {
        self.desc = d;
        self
    }
    pub fn bundle(mut self, evaluations: u64, nontrivial_keys: Vec<u64>) -> Self {
        self.bundle = Some((evaluations, nontrivial_keys));
        self
    }
}

#[derive(Clone, Debug)]
pub struct CaseFail {
    pub msg: String,
    /// human-readable, semantic description of the failing case
    pub case: Value,
    /// signature used to match known findings
    pub sig: String,
}

impl CaseFail {
    pub fn new(sig: impl Into<String>, msg: impl Into<String>, case: Value) -> Self {
        CaseFail { msg: msg.into(), case, sig: sig.into() }
    }
}

pub type CaseResult = Result<CaseOk, CaseFail>;

pub fn fnv(data: &[u8]) -> u64 {
    let mut h: u64 = 0xcbf29ce484222325;
    for b in data {
        h ^= *b as u64;
        h = h.wrapping_mul(0x100000001b3);
    }
    h
}
pub fn fnv_str(parts: &[&str]) -> u64 {
    let mut h: u64 = 0xcbf29ce484222325;
    for p in parts {
        for b in p.as_bytes() {
            h ^= *b as u64;
            h = h.wrapping_mul(0x100000001b3);
        }
        h ^= 0xff;
        h = h.wrapping_mul(0x100000001b3);
    }
    h
}

#[derive(Default)]
struct SubStats {
    evaluations: u64,
    nontrivial: HashSet<u64>,
    classes: BTreeMap<&'static str, u64>,
    samples: Vec<Value>,
    exhaustive: bool,
    violations: u64,
    known_hits: u64,
    wall_s: f64,
}

impl SubStats {
    fn absorb(&mut self, ok: CaseOk) {
        match ok.bundle {
            Some((n, keys)) => {
                self.evaluations += n;
                self.nontrivial.extend(keys);
            }
            None => self.evaluations += 1,
        }
        if ok.nontrivial {
            self.nontrivial.insert(ok.key);
        }
        for c in ok.classes {
            *self.classes.entry(c).or_insert(0) += 1;
        }
        if let Some(d) = ok.desc {
            if self.samples.len() < 6 {
                self.samples.push(d);
            }
        }
    }
    fn merge(&mut self, o: SubStats) {
        self.evaluations += o.evaluations;
        self.nontrivial.extend(o.nontrivial);
        for (k, v) in o.classes {
            *self.classes.entry(k).or_insert(0) += v;
        }
        for s in o.samples {
            if self.samples.len() < 6 {
                self.samples.push(s);
            }
        }
        self.violations += o.violations;
        self.known_hits += o.known_hits;
    }
}

/// Shared, thread-safe view handed to generators.
pub struct Env {
    pub id: String,
    pub tier: Tier,
    pub seed: u64,
    pub known: Known,
    excluded: AtomicU64,
}

impl Env {
    /// Is this finding listed as known? Generators exclude listed findings by
    /// construction (and count the exclusion) so that the search continues
    /// behind them.
    pub fn is_known(&self, sig: &str) -> bool {
        self.known.has(&self.id, sig)
    }
    pub fn count_excluded(&self) {
        self.excluded.fetch_add(1, Ordering::Relaxed);
    }
    pub fn quick(&self) -> bool {
        self.tier == Tier::Quick
    }
}

pub struct Known {
    /// (property, sig) pairs listed as `known:` in known_findings.txt
    entries: Vec<(String, String, String)>,
}

impl Known {
    pub fn load(path: &str) -> Known {
        let mut entries = Vec::new();
        if let Ok(s) = std::fs::read_to_string(path) {
            for line in s.lines() {
                let line = line.trim();
                if let Some(rest) = line.strip_prefix("known:") {
                    let mut prop = String::new();
                    let mut sig = String::new();
                    let mut desc = Vec::new();
                    for w in rest.split_whitespace() {
                        if let Some(p) = w.strip_prefix("property=") {
                            prop = p.to_string();
                        } else if let Some(s) = w.strip_prefix("sig=") {
                            sig = s.to_string();
                        } else {
                            desc.push(w);
                        }
                    }
                    entries.push((prop, sig, desc.join(" ")));
                }
            }
        }
        Known { entries }
    }
    pub fn has(&self, prop: &str, sig: &str) -> bool {
        self.entries.iter().any(|(p, s, _)| p == prop && s == sig)
    }
    fn desc(&self, prop: &str, sig: &str) -> String {
        self.entries
            .iter()
            .find(|(p, s, _)| p == prop && s == sig)
            .map(|e| e.2.clone())
            .unwrap_or_default()
    }
}

pub enum Mode {
    Run,
    /// replay one case: sub-check name and either bytes or an index
    Replay { sub: String, bytes: Option<Vec<u8>>, index: Option<u64> },
}

pub struct Report {
    pub id: String,
    pub tier: Tier,
    pub seed: u64,
    pub env: std::sync::Arc<Env>,
    pub mode: Mode,
    pub workers: usize,
    /// bound on shrinking steps per failure (checks with expensive cases lower it)
    pub shrink_iters: u32,
    level: &'static str,
    rule: String,
    assumptions: Vec<String>,
    subs: Vec<(String, SubStats)>,
    extra: BTreeMap<String, Value>,
    violations: u64,
    printed_known: HashSet<String>,
    start: Instant,
    replay_hit: bool,
    root: String,
}

static WATCHDOG_STARTED: AtomicBool = AtomicBool::new(false);

/// Cases currently being executed, by worker thread (for the hang watchdog).
static RUNNING: Mutex<Vec<(std::thread::ThreadId, Instant, String)>> = Mutex::new(Vec::new());

/// Announce the case a worker is about to execute; a case that runs longer than
/// VERIF_CASE_LIMIT seconds (default 120) ends the check as INCONCLUSIVE (exit 2)
/// with the case printed - a hang is never reported as a violation.
pub fn note_case(desc: impl FnOnce() -> String) {
    let id = std::thread::current().id();
    let mut r = RUNNING.lock().unwrap();
    r.retain(|e| e.0 != id);
    r.push((id, Instant::now(), desc()));
}
fn done<T>(x: T) -> T {
    case_done();
    x
}
pub fn case_done() {
    let id = std::thread::current().id();
    RUNNING.lock().unwrap().retain(|e| e.0 != id);
}

static mut CHECK_ID: [u8; 8] = [0; 8];
/// VIOLATION lines printed so far (a check that dies after having reported a violation still ends with exit 1)
static VIOLATIONS_PRINTED: AtomicU64 = AtomicU64::new(0);

/// exit status of a check that cannot go on (time limit, hanging case): 2, unless a violation was
/// already reported - that stands
pub fn inconclusive_status() -> i32 {
    if VIOLATIONS_PRINTED.load(Ordering::SeqCst) > 0 {
        1
    } else {
        2
    }
}

/// SIGSEGV/SIGBUS (stack overflow of a worker): report the cases in flight and
/// end the check as INCONCLUSIVE (exit 2) - resource exhaustion is never a violation.
extern "C" fn on_segv(_sig: libc::c_int) {
    let id = unsafe { std::str::from_utf8(&*std::ptr::addr_of!(CHECK_ID)).unwrap_or("?").trim_end_matches('\0').to_string() };
    let mut msg = format!("INCONCLUSIVE property={id} reason=stack-overflow-segfault-or-abort-in-worker");
    if let Ok(r) = RUNNING.try_lock() {
        for e in r.iter() {
            msg.push_str(&format!("\n  in-flight: {}", one_line(&e.2, 600)));
        }
    }
    msg.push('\n');
    unsafe {
        libc::write(1, msg.as_ptr() as *const libc::c_void, msg.len());
        // a violation that was already reported stands
        libc::_exit(if VIOLATIONS_PRINTED.load(Ordering::SeqCst) > 0 { 1 } else { 2 });
    }
}

fn install_segv_handler(id: &str) {
    unsafe {
        let b = id.as_bytes();
        for i in 0..b.len().min(8) {
            (*std::ptr::addr_of_mut!(CHECK_ID))[i] = b[i];
        }
        let mut sa: libc::sigaction = std::mem::zeroed();
        sa.sa_sigaction = on_segv as *const () as usize;
        sa.sa_flags = libc::SA_ONSTACK;
        libc::sigemptyset(&mut sa.sa_mask);
        libc::sigaction(libc::SIGSEGV, &sa, std::ptr::null_mut());
        libc::sigaction(libc::SIGBUS, &sa, std::ptr::null_mut());
        // abort(): a failed allocation in the code under test (Rust aborts on allocation failure)
        libc::sigaction(libc::SIGABRT, &sa, std::ptr::null_mut());
    }
}

fn start_watchdog(id: &str, tier: Tier) {
    if WATCHDOG_STARTED.swap(true, Ordering::SeqCst) {
        return;
    }
    install_segv_handler(id);
    let limit = match (std::env::var("VERIF_TIME_LIMIT").ok().and_then(|s| s.parse::<u64>().ok()), tier) {
        (Some(l), _) => l,
        (None, Tier::Quick) => 1500,
        (None, Tier::Thorough) => 6 * 3600,
    };
    let id = id.to_string();
    let case_limit = std::env::var("VERIF_CASE_LIMIT").ok().and_then(|s| s.parse::<u64>().ok()).unwrap_or(120);
    std::thread::spawn(move || {
        let t0 = Instant::now();
        loop {
            std::thread::sleep(std::time::Duration::from_millis(500));
            if t0.elapsed().as_secs() >= limit {
                println!("INCONCLUSIVE property={id} reason=time-limit-{limit}s");
                std::process::exit(inconclusive_status());
            }
            if let Ok(r) = RUNNING.lock() {
                if let Some(e) = r.iter().find(|e| e.1.elapsed().as_secs() >= case_limit) {
                    println!("INCONCLUSIVE property={id} reason=case-exceeds-{case_limit}s case={}", one_line(&e.2, 1500));
                    std::process::exit(inconclusive_status());
                }
            }
        }
    });
}

fn hex(b: &[u8]) -> String {
    b.iter().map(|x| format!("{x:02x}")).collect()
}
pub fn unhex(s: &str) -> Vec<u8> {
    (0..s.len() / 2).filter_map(|i| u8::from_str_radix(&s[2 * i..2 * i + 2], 16).ok()).collect()
}

impl Report {
    pub fn new(id: &str, tier: Tier, mode: Mode) -> Report {
        let seed = std::env::var("VERIF_SEED").ok().and_then(|s| s.trim().parse::<i64>().ok()).unwrap_or(0) as u64;
        let root = std::env::var("VERIF_ROOT").unwrap_or_else(|_| "/verif".into());
        let workers = std::env::var("VERIF_WORKERS").ok().and_then(|s| s.parse().ok()).unwrap_or(16);
        start_watchdog(id, tier);
        Report {
            id: id.to_string(),
            tier,
            seed,
            env: std::sync::Arc::new(Env {
                id: id.to_string(),
                tier,
                seed,
                known: Known::load(&format!("{root}/known_findings.txt")),
                excluded: AtomicU64::new(0),
            }),
            mode,
            workers,
            shrink_iters: 4000,
            level: "exploration",
            rule: String::new(),
            assumptions: Vec::new(),
            subs: Vec::new(),
            extra: BTreeMap::new(),
            violations: 0,
            printed_known: HashSet::new(),
            start: Instant::now(),
            replay_hit: false,
            root,
        }
    }
    pub fn root(&self) -> &str {
        &self.root
    }
    pub fn quick(&self) -> bool {
        self.tier == Tier::Quick
    }
    /// choose a size by tier
    pub fn n(&self, quick: usize, thorough: usize) -> usize {
        if self.quick() {
            quick
        } else {
            thorough
        }
    }
    pub fn set_level(&mut self, l: &'static str) {
        self.level = l;
    }
    pub fn set_rule(&mut self, r: &str) {
        self.rule = r.to_string();
    }
    pub fn assume(&mut self, a: &str) {
        self.assumptions.push(a.to_string());
    }
    pub fn extra(&mut self, k: &str, v: Value) {
        self.extra.insert(k.to_string(), v);
    }
    pub fn is_known(&self, sig: &str) -> bool {
        self.env.is_known(sig)
    }
    pub fn env(&self) -> std::sync::Arc<Env> {
        self.env.clone()
    }
    fn is_replay(&self) -> bool {
        matches!(self.mode, Mode::Replay { .. })
    }
    /// development aid: VERIF_SUB=<name> restricts a run to one sub-check
    fn skipped(&self, name: &str) -> bool {
        match std::env::var("VERIF_SUB") {
            Ok(s) if !s.is_empty() => !self.is_replay() && s != name,
            _ => false,
        }
    }

    fn handle_fail(&mut self, sub: &str, stats: &mut SubStats, fail: CaseFail, bytes: Option<&[u8]>, index: Option<u64>) {
        if self.env.known.has(&self.id, &fail.sig) {
            stats.known_hits += 1;
            let key = fail.sig.clone();
            if self.printed_known.insert(key) {
                println!(
                    "KNOWN-FINDING: property={} sig={} {} [{}]",
                    self.id,
                    fail.sig,
                    self.env.known.desc(&self.id, &fail.sig),
                    one_line(&fail.msg, 200)
                );
            }
            return;
        }
        stats.violations += 1;
        self.violations += 1;
        let replay = json!({
            "property": self.id,
            "sub": sub,
            "sig": fail.sig,
            "msg": fail.msg,
            "case": fail.case,
            "bytes": bytes.map(hex),
            "index": index,
            "seed": self.seed,
        });
        let text = serde_json::to_string_pretty(&replay).unwrap();
        let dir = format!("{}/failures", self.root);
        let _ = std::fs::create_dir_all(&dir);
        let path = format!("{dir}/{}-{:016x}.json", self.id, fnv(text.as_bytes()));
        let _ = std::fs::write(&path, text);
        println!("VIOLATION property={} replay={}", self.id, path);
        VIOLATIONS_PRINTED.fetch_add(1, Ordering::SeqCst);
        println!("  sub={} sig={} msg={}", sub, fail.sig, one_line(&fail.msg, 600));
        println!("  case={}", one_line(&fail.case.to_string(), 800));
    }

    /// A generated sub-check: `cases` cases in total, each decoded from up to
    /// `max_len` random bytes.
    pub fn random<F>(&mut self, name: &str, cases: usize, max_len: usize, f: F)
    where
        F: Fn(&mut Src) -> CaseResult + Sync,
    {
        let t0 = Instant::now();
        if self.skipped(name) {
            return;
        }
        if let Mode::Replay { sub, bytes, .. } = &self.mode {
            if sub != name {
                return;
            }
            let bytes = bytes.clone().unwrap_or_default();
            self.replay_hit = true;
            let mut stats = SubStats::default();
            let mut src = Src::new(&bytes);
            src.sample = true;
            match done(crate::jq::guarded(|| f(&mut src))) {
                Ok(Ok(ok)) => {
                    println!("replay: pass ({})", ok.desc.clone().unwrap_or(Value::Null));
                    stats.absorb(ok);
                }
                Ok(Err(fail)) => self.handle_fail(name, &mut stats, fail, Some(&bytes), None),
                Err(p) => {
                    let fail = CaseFail::new(format!("harness-panic:{}", crate::jq::panic_sig(&p)), p, Value::Null);
                    self.handle_fail(name, &mut stats, fail, Some(&bytes), None)
                }
            }
            self.subs.push((name.to_string(), stats));
            return;
        }
        if cases == 0 {
            // a replay-only entry point (its cases come from an engine outside this driver)
            return;
        }
        let workers = self.workers.max(1);
        let per = (cases + workers - 1) / workers;
        let seed = self.seed;
        let shrink_iters = self.shrink_iters;
        let idh = fnv_str(&[&self.id, name]);
        let results: Mutex<Vec<(SubStats, Option<(Vec<u8>, CaseFail)>)>> = Mutex::new(Vec::new());
        std::thread::scope(|scope| {
            for w in 0..workers {
                let f = &f;
                let results = &results;
                std::thread::Builder::new()
                    .stack_size(256 << 20)
                    .spawn_scoped(scope, move || {
                        let mut config = Config::default();
                        config.cases = per as u32;
                        config.failure_persistence = None;
                        config.max_shrink_iters = shrink_iters;
                        config.max_global_rejects = 1 << 30;
                        config.verbose = 0;
                        let mut sd = [0u8; 32];
                        sd[..8].copy_from_slice(&seed.to_le_bytes());
                        sd[8..16].copy_from_slice(&idh.to_le_bytes());
                        sd[16..24].copy_from_slice(&(w as u64).to_le_bytes());
                        let rng = TestRng::from_seed(RngAlgorithm::ChaCha, &sd);
                        let mut runner = TestRunner::new_with_rng(config, rng);
                        let strat = vec(any::<u8>(), 0..=max_len);
                        let stats = std::cell::RefCell::new(SubStats::default());
                        let failed = std::cell::Cell::new(false);
                        let counter = std::cell::Cell::new(0usize);
                        let res = runner.run(&strat, |bytes| {
                            let mut src = Src::new(&bytes);
                            let n = counter.get();
                            counter.set(n + 1);
                            src.sample = !failed.get() && (n < 2 || (w == 0 && n % 997 == 0));
                            match done(crate::jq::guarded(|| f(&mut src))) {
                                Ok(Ok(ok)) => {
                                    if !failed.get() {
                                        stats.borrow_mut().absorb(ok);
                                    }
                                    Ok(())
                                }
                                Ok(Err(fail)) => {
                                    failed.set(true);
                                    Err(TestCaseError::fail(fail.sig))
                                }
                                Err(p) => {
                                    failed.set(true);
                                    Err(TestCaseError::fail(format!("harness-panic:{p}")))
                                }
                            }
                        });
                        let fail = match res {
                            Ok(()) => None,
                            Err(TestError::Fail(_, bytes)) => {
                                let mut src = Src::new(&bytes);
                                src.sample = true;
                                let fail = match done(crate::jq::guarded(|| f(&mut src))) {
                                    Ok(Err(fail)) => fail,
                                    Ok(Ok(_)) => CaseFail::new("flaky", "failure did not reproduce on minimal input", Value::Null),
                                    Err(p) => CaseFail::new(format!("harness-panic:{}", crate::jq::panic_sig(&p)), p, Value::Null),
                                };
                                Some((bytes, fail))
                            }
                            Err(TestError::Abort(r)) => {
                                Some((Vec::new(), CaseFail::new("abort", format!("proptest aborted: {r}"), Value::Null)))
                            }
                        };
                        results.lock().unwrap().push((stats.into_inner(), fail));
                    })
                    .unwrap();
            }
        });
        let mut stats = SubStats::default();
        let mut fails = Vec::new();
        for (s, fail) in results.into_inner().unwrap() {
            stats.merge(s);
            if let Some(f) = fail {
                fails.push(f);
            }
        }
        // report distinct signatures only, smallest input first
        fails.sort_by_key(|(b, f)| (f.sig.clone(), b.len()));
        fails.dedup_by_key(|(_, f)| f.sig.clone());
        for (bytes, fail) in fails {
            self.handle_fail(name, &mut stats, fail, Some(&bytes), None);
        }
        stats.wall_s = t0.elapsed().as_secs_f64();
        self.subs.push((name.to_string(), stats));
    }

    /// Exhaustive enumeration of `total` cases addressed by index.
    pub fn exhaustive<F>(&mut self, name: &str, total: u64, f: F)
    where
        F: Fn(u64, bool) -> CaseResult + Sync,
    {
        self.indexed(name, total, 1, true, f)
    }

    /// Enumeration by index with a stride (stride 1 = exhaustive).
    pub fn indexed<F>(&mut self, name: &str, total: u64, stride: u64, exhaustive: bool, f: F)
    where
        F: Fn(u64, bool) -> CaseResult + Sync,
    {
        let t0 = Instant::now();
        if self.skipped(name) {
            return;
        }
        if let Mode::Replay { sub, index, .. } = &self.mode {
            if sub != name {
                return;
            }
            self.replay_hit = true;
            let i = index.unwrap_or(0);
            let mut stats = SubStats::default();
            match done(crate::jq::guarded(|| f(i, true))) {
                Ok(Ok(ok)) => {
                    println!("replay: pass ({})", ok.desc.clone().unwrap_or(Value::Null));
                    stats.absorb(ok)
                }
                Ok(Err(fail)) => self.handle_fail(name, &mut stats, fail, None, Some(i)),
                Err(p) => {
                    let fail = CaseFail::new(format!("harness-panic:{}", crate::jq::panic_sig(&p)), p, Value::Null);
                    self.handle_fail(name, &mut stats, fail, None, Some(i))
                }
            }
            self.subs.push((name.to_string(), stats));
            return;
        }
        let workers = self.workers.max(1) as u64;
        let results: Mutex<Vec<(SubStats, Vec<(u64, CaseFail)>)>> = Mutex::new(Vec::new());
        let offset = if stride > 1 { self.seed % stride } else { 0 };
        std::thread::scope(|scope| {
            for w in 0..workers {
                let f = &f;
                let results = &results;
                std::thread::Builder::new()
                    .stack_size(256 << 20)
                    .spawn_scoped(scope, move || {
                        let mut stats = SubStats::default();
                        let mut fails: Vec<(u64, CaseFail)> = Vec::new();
                        let mut sigs: HashSet<String> = HashSet::new();
                        let mut k = w;
                        loop {
                            let i = offset + k * stride;
                            if i >= total {
                                break;
                            }
                            let sample = stats.evaluations < 2;
                            match done(crate::jq::guarded(|| f(i, sample))) {
                                Ok(Ok(ok)) => stats.absorb(ok),
                                Ok(Err(fail)) => {
                                    stats.evaluations += 1;
                                    if sigs.insert(fail.sig.clone()) {
                                        // describe the first failure of each signature
                                        let fail = match done(crate::jq::guarded(|| f(i, true))) {
                                            Ok(Err(f2)) => f2,
                                            _ => fail,
                                        };
                                        fails.push((i, fail));
                                    }
                                }
                                Err(p) => {
                                    stats.evaluations += 1;
                                    let sig = format!("harness-panic:{}", crate::jq::panic_sig(&p));
                                    if sigs.insert(sig.clone()) {
                                        fails.push((i, CaseFail::new(sig, p, Value::Null)));
                                    }
                                }
                            }
                            k += workers;
                        }
                        results.lock().unwrap().push((stats, fails));
                    })
                    .unwrap();
            }
        });
        let mut stats = SubStats::default();
        let mut fails = Vec::new();
        for (s, f) in results.into_inner().unwrap() {
            stats.merge(s);
            fails.extend(f);
        }
        stats.exhaustive = exhaustive && stride == 1;
        fails.sort_by_key(|(i, f)| (f.sig.clone(), *i));
        fails.dedup_by_key(|(_, f)| f.sig.clone());
        for (i, fail) in fails {
            self.handle_fail(name, &mut stats, fail, None, Some(i));
        }
        stats.wall_s = t0.elapsed().as_secs_f64();
        self.subs.push((name.to_string(), stats));
    }

    /// Results of an engine that runs outside this driver (a libFuzzer campaign): failures come with the
    /// bytes that replay them through the sub-check `sub` (registered with `random(sub, 0, ..)`).
    pub fn external(&mut self, sub: &str, oks: Vec<CaseOk>, fails: Vec<(CaseFail, Vec<u8>)>, wall_s: f64) {
        let mut stats = SubStats::default();
        for ok in oks {
            stats.absorb(ok);
        }
        for (fail, bytes) in fails {
            self.handle_fail(sub, &mut stats, fail, Some(&bytes), None);
        }
        stats.wall_s = wall_s;
        self.subs.push((sub.to_string(), stats));
    }

    /// A fixed list of cases run sequentially (regression cases, known-finding
    /// demonstrations, golden examples).
    pub fn fixed<F>(&mut self, name: &str, n: usize, f: F)
    where
        F: Fn(usize) -> CaseResult,
    {
        let t0 = Instant::now();
        if self.skipped(name) {
            return;
        }
        let range: Vec<usize> = match &self.mode {
            Mode::Replay { sub, index, .. } => {
                if sub != name {
                    return;
                }
                self.replay_hit = true;
                vec![index.unwrap_or(0) as usize]
            }
            Mode::Run => (0..n).collect(),
        };
        let mut stats = SubStats::default();
        let mut seen: HashSet<String> = HashSet::new();
        for i in range {
            match done(crate::jq::guarded(|| f(i))) {
                Ok(Ok(ok)) => stats.absorb(ok),
                Ok(Err(fail)) => {
                    stats.evaluations += 1;
                    // one report per signature (the first failing case); further ones are counted
                    if seen.insert(fail.sig.clone()) {
                        self.handle_fail(name, &mut stats, fail, None, Some(i as u64))
                    } else if self.env.known.has(&self.id, &fail.sig) {
                        stats.known_hits += 1;
                    } else {
                        stats.violations += 1;
                        self.violations += 1;
                    }
                }
                Err(p) => {
                    stats.evaluations += 1;
                    let fail = CaseFail::new(format!("harness-panic:{}", crate::jq::panic_sig(&p)), p, Value::Null);
                    self.handle_fail(name, &mut stats, fail, None, Some(i as u64))
                }
            }
        }
        stats.wall_s = t0.elapsed().as_secs_f64();
        self.subs.push((name.to_string(), stats));
    }

    /// Report an environment problem that prevents a verdict.
    pub fn inconclusive(&self, why: &str) -> ! {
        println!("INCONCLUSIVE property={} reason={}", self.id, why);
        std::process::exit(2)
    }

    pub fn finish(self) -> ! {
        let wall = self.start.elapsed().as_secs_f64();
        if self.is_replay() {
            if !self.replay_hit {
                println!("replay: no sub-check matched");
                std::process::exit(2);
            }
            std::process::exit(if self.violations > 0 { 1 } else { 0 });
        }
        let mut evaluations = 0u64;
        let mut distinct = 0u64;
        let mut samples = Vec::new();
        let mut subs = serde_json::Map::new();
        let mut all_exh = !self.subs.is_empty();
        let mut known_hits = 0;
        for (name, s) in &self.subs {
            evaluations += s.evaluations;
            distinct += s.nontrivial.len() as u64;
            all_exh &= s.exhaustive;
            known_hits += s.known_hits;
            for x in s.samples.iter().take(2) {
                if samples.len() < 24 {
                    samples.push(json!({"sub": name, "case": x}));
                }
            }
            subs.insert(
                name.clone(),
                json!({
                    "evaluations": s.evaluations,
                    "distinct_nontrivial": s.nontrivial.len(),
                    "classes": s.classes,
                    "exhaustive": s.exhaustive,
                    "violations": s.violations,
                    "known_finding_hits": s.known_hits,
                    "wall_s": (s.wall_s * 100.0).round() / 100.0,
                    "samples": s.samples.iter().take(3).collect::<Vec<_>>(),
                }),
            );
        }
        let mut coverage = serde_json::Map::new();
        coverage.insert("evaluations".into(), json!(evaluations));
        coverage.insert("distinct_nontrivial".into(), json!(distinct));
        coverage.insert("rule".into(), json!(self.rule));
        coverage.insert("samples".into(), json!(samples));
        coverage.insert("exhaustive".into(), json!(all_exh));
        coverage.insert("excluded_known".into(), json!(self.env.excluded.load(Ordering::Relaxed)));
        coverage.insert("known_finding_hits".into(), json!(known_hits));
        coverage.insert("subchecks".into(), Value::Object(subs));
        for (k, v) in &self.extra {
            coverage.insert(k.clone(), v.clone());
        }
        let ev = json!({
            "property_id": self.id,
            "tier": if self.tier == Tier::Quick { "quick" } else { "thorough" },
            "seed": self.seed,
            "level": self.level,
            "coverage": coverage,
            "assumptions": self.assumptions,
            "wall_s": (wall * 100.0).round() / 100.0,
            "violations": self.violations,
        });
        let dir = format!("{}/evidence", self.root);
        let _ = std::fs::create_dir_all(&dir);
        let tmp = format!("{dir}/{}.json.tmp", self.id);
        let path = format!("{dir}/{}.json", self.id);
        std::fs::write(&tmp, serde_json::to_string_pretty(&ev).unwrap()).unwrap();
        std::fs::rename(&tmp, &path).unwrap();
        println!(
            "{} tier={:?} seed={} evaluations={} distinct_nontrivial={} violations={} wall={:.1}s",
            self.id, self.tier, self.seed, evaluations, distinct, self.violations, wall
        );
        std::process::exit(if self.violations > 0 { 1 } else { 0 })
    }
}

/// Deterministic bytes for fixed-work batches, drawn from proptest's RNG
/// (ChaCha) seeded with (VERIF_SEED, tag).
pub fn seeded_bytes(seed: u64, tag: &str, n: usize) -> Vec<u8> {
    use proptest::strategy::{Strategy, ValueTree};
    let mut sd = [0u8; 32];
    sd[..8].copy_from_slice(&seed.to_le_bytes());
    sd[8..16].copy_from_slice(&fnv_str(&[tag]).to_le_bytes());
    let rng = TestRng::from_seed(RngAlgorithm::ChaCha, &sd);
    let mut runner = TestRunner::new_with_rng(Config::default(), rng);
    vec(any::<u8>(), n..=n).new_tree(&mut runner).unwrap().current()
}

pub fn one_line(s: &str, max: usize) -> String {
    let s: String = s.chars().map(|c| if c == '\n' { ' ' } else { c }).collect();
    if s.chars().count() > max {
        let t: String = s.chars().take(max).collect();
        format!("{t}…")
    } else {
        s
    }
}
