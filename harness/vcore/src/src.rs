//! Byte-stream decoder: every random choice of every generator is drawn from
//! a `Src`, which reads a byte vector produced by a proptest strategy
//! (`vec(any::<u8>(), ..)`) or by libFuzzer.  Exhausted input yields 0, and 0
//! always selects the simplest alternative, so shrinking the byte vector
//! (shorter, smaller bytes) shrinks the generated case.

pub struct Src<'a> {
    data: &'a [u8],
    pos: usize,
    /// set by the runner when it wants the case to describe itself
    pub sample: bool,
}

impl<'a> Src<'a> {
    pub fn new(data: &'a [u8]) -> Self {
        Src { data, pos: 0, sample: false }
    }
    pub fn byte(&mut self) -> u8 {
        let b = self.data.get(self.pos).copied().unwrap_or(0);
        self.pos += 1;
        b
    }
    /// all bytes not yet consumed (for cases that are byte strings themselves, e.g. fuzzer artifacts)
    pub fn rest(&mut self) -> &'a [u8] {
        let r = &self.data[self.pos.min(self.data.len())..];
        self.pos = self.data.len();
        r
    }
    pub fn exhausted(&self) -> bool {
        self.pos >= self.data.len()
    }
    pub fn used(&self) -> usize {
        self.pos.min(self.data.len())
    }
    pub fn u16(&mut self) -> u16 {
        let h = self.byte() as u16;
        let l = self.byte() as u16;
        (h << 8) | l
    }
    pub fn u32(&mut self) -> u32 {
        ((self.u16() as u32) << 16) | self.u16() as u32
    }
    pub fn u64(&mut self) -> u64 {
        ((self.u32() as u64) << 32) | self.u32() as u64
    }
    /// uniform in 0..n (monotone in the underlying bytes); n >= 1
    pub fn below(&mut self, n: usize) -> usize {
        debug_assert!(n >= 1);
        if n <= 1 {
            0
        } else if n <= 256 {
            (self.byte() as usize * n) >> 8
        } else if n <= 65536 {
            (self.u16() as usize * n) >> 16
        } else if n as u64 <= 1 << 32 {
            ((self.u32() as u64 * n as u64) >> 32) as usize
        } else {
            ((self.u64() as u128 * n as u128) >> 64) as usize
        }
    }
    /// inclusive range
    pub fn range(&mut self, lo: i64, hi: i64) -> i64 {
        lo + self.below((hi - lo + 1) as usize) as i64
    }
    pub fn bool(&mut self) -> bool {
        self.byte() >= 128
    }
    /// true with probability num/256
    pub fn chance(&mut self, num: u32) -> bool {
        (self.byte() as u32) >= 256 - num.min(256)
    }
    pub fn pick<'b, T>(&mut self, xs: &'b [T]) -> &'b T {
        &xs[self.below(xs.len())]
    }
    /// index chosen by weights (first alternative is the "simplest")
    pub fn weighted(&mut self, ws: &[u32]) -> usize {
        let total: u32 = ws.iter().sum();
        let mut r = self.below(total as usize) as u32;
        for (i, w) in ws.iter().enumerate() {
            if r < *w {
                return i;
            }
            r -= w;
        }
        ws.len() - 1
    }
}
