//! C19, thread-safe value representation (`jaq-json` built with feature `sync`):
//! static facts (`Val`, its error type and the compiled filter are `Send + Sync`) and a
//! stress in which all threads run shared filters on values that are shared between threads.
//!
//! Prints `VSYNC ok runs=<n> values=<m>` or `VSYNC FAIL <what>` (exit 1).

use jaq_all::data::{Ctx, Data, Filter, Runner};
use jaq_core::Vars;
use jaq_json::Val;
use jaq_std::input::RcIter;
use std::sync::{Arc, Barrier};

fn send_sync<T: Send + Sync>() {}

#[allow(dead_code)]
fn static_facts() {
    send_sync::<Val>();
    send_sync::<jaq_json::Map>();
    send_sync::<jaq_core::Error<Val>>();
    send_sync::<Filter>();
    send_sync::<jaq_core::Lut<jaq_all::data::DataKind>>();
}

fn compile(code: &str) -> Filter {
    jaq_all::compile_with(code, jaq_all::defs(), jaq_all::data::funs(), &[]).unwrap_or_else(|_| panic!("does not compile: {code}"))
}

fn run(f: &Filter, input: Val) -> Vec<String> {
    let runner = Runner::default();
    let inputs: Box<dyn Iterator<Item = Result<Val, String>>> = Box::new(core::iter::empty());
    let rc = RcIter::new(inputs);
    let data = Data { runner: &runner, lut: &f.lut, inputs: &rc };
    let ctx = Ctx::new(&data, Vars::new([]));
    f.id.run((ctx, input)).take(50).map(|r| match r {
        Ok(v) => format!("{v}"),
        Err(_) => "ERROR".to_string(),
    }).collect()
}

const PROGRAMS: &[&str] = &[
    ".", "[.. | numbers] | add", "tojson | fromjson", "[paths] | length", "to_entries? // .", "[.[]?] | sort | unique", ". as $x | [$x, $x] | tojson", "[limit(20; recurse(.[]?))] | length", ".a? // .[0]? // .",
    "[range(200) | label $a | (label $b | ., break $a), 1] | length", "walk(if type == \"number\" then . + 1 else . end)", "[.[]? | tostring] | join(\",\")", "{a: ., b: [., .]} | .b[1] == .a", "[.. | strings | ascii_upcase]", "(.. | numbers) |= . * 2",
    "1e1000, 100000000000000000000 * 3, (123456789012345678901234567890 | . + 1)", "[., .] | unique | length", "tocbor? | fromcbor?", "toyaml | fromyaml",
];

const VALUES: &[&str] = &[
    "null", "[1,2,3]", "{\"a\":[1,{\"b\":\"x\"}],\"c\":1.50}", "\"text\"", "123456789012345678901234567890", "1e1000", "[1.10, 2.5e3, -0.0]", "{\"k\":{\"k\":{\"k\":[[],{}]}}}", "[\"a\",\"b\",[\"c\"],{\"d\":\"e\"}]", "b\"bytes\\xff\"", "{1:2,[3]:4}",
    "[100000000000000000000, -100000000000000000000, 0.1]",
];

fn main() {
    static_facts();
    let filters: Arc<Vec<Filter>> = Arc::new(PROGRAMS.iter().map(|p| compile(p)).collect());
    // the values are built once and shared (reference counts are atomic in this representation)
    let values: Arc<Vec<Val>> = Arc::new(VALUES.iter().map(|s| jaq_json::read::parse_single(s.as_bytes()).expect("value")).collect());
    let alone: Arc<Vec<Vec<Vec<String>>>> = Arc::new(filters.iter().map(|f| values.iter().map(|v| run(f, v.clone())).collect()).collect());
    let reps: usize = std::env::args().nth(1).and_then(|s| s.parse().ok()).unwrap_or(20);
    let mut total = 0usize;
    for t in [2usize, 16, 48] {
        let barrier = Arc::new(Barrier::new(t));
        let mut hs = Vec::new();
        for w in 0..t {
            let (filters, values, alone, barrier) = (filters.clone(), values.clone(), alone.clone(), barrier.clone());
            hs.push(std::thread::Builder::new().stack_size(32 << 20).spawn(move || -> Result<usize, String> {
                barrier.wait();
                let mut n = 0;
                for r in 0..reps {
                    for fi in 0..filters.len() {
                        let fi = (fi + w + r) % filters.len();
                        for vi in 0..values.len() {
                            // every thread clones the *same* shared value (no deep copy) and runs on it
                            let got = run(&filters[fi], values[vi].clone());
                            if got != alone[fi][vi] {
                                return Err(format!("program {:?} on {} with {t} threads: {:?} instead of {:?}", PROGRAMS[fi], VALUES[vi], got, alone[fi][vi]));
                            }
                            n += 1;
                        }
                    }
                }
                Ok(n)
            }).unwrap());
        }
        for h in hs {
            match h.join() {
                Ok(Ok(n)) => total += n,
                Ok(Err(e)) => {
                    println!("VSYNC FAIL {e}");
                    std::process::exit(1);
                }
                Err(_) => {
                    println!("VSYNC FAIL a thread panicked");
                    std::process::exit(1);
                }
            }
        }
    }
    // the shared values are unchanged
    for (v, s) in values.iter().zip(VALUES) {
        let again = jaq_json::read::parse_single(s.as_bytes()).unwrap();
        if format!("{v}") != format!("{again}") {
            println!("VSYNC FAIL shared value changed: {v} vs {again}");
            std::process::exit(1);
        }
    }
    println!("VSYNC ok runs={total} values={} filters={}", VALUES.len(), PROGRAMS.len());
}
