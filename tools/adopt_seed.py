#!/usr/bin/env python3
"""adopt_seed.py <ID> <n> "<what it needs to manifest>": copy a verified seeded change from /tmp/seed-out into /verif/seeded/<ID>-<n>/."""
import json, os, shutil, sys, glob
pid, n, needs = sys.argv[1], sys.argv[2], sys.argv[3]
# second-round seeds live in /tmp/seed-out/<ID>r2 and are adopted as <ID>-3 and <ID>-4
round2 = pid.endswith("r2")
round3 = pid.endswith("r3")   # third round: one change per property, adopted as <ID>-5
prop = pid[:3]
src = f"/tmp/seed-out/{pid}"
dst = f"/verif/seeded/{prop}-{int(n) + 2}" if round2 else f"/verif/seeded/{prop}-{int(n) + 4}" if round3 else f"/verif/seeded/{pid}-{n}"
os.makedirs(dst, exist_ok=True)
ver = open(f"{src}/verify{n}.txt").read().strip()
assert "382 passed 0 failed" in ver and "with change: 0;" not in ver and "without: 0" in ver, ver
shutil.copy(f"{src}/patch{n}.diff", f"{dst}/patch.diff")
for f in glob.glob(f"{src}/demo{n}.*"):
    shutil.copy(f, f"{dst}/demo" + os.path.splitext(f)[1])
if os.path.exists(f"{src}/notes{n}.md"):
    shutil.copy(f"{src}/notes{n}.md", f"{dst}/notes.md")
meta = {
    "property": prop,
    "origin": "independent sub-agent given only the property text and a scratch worktree (tools/seed_prompt.py)",
    "needs_to_manifest": needs,
    "verified": {
        "how": "tools/verify_seed.sh in the scratch worktree at /repo's HEAD: patch applied, cargo build, full test suite, demonstration with the change, revert, demonstration without it",
        "result": ver,
    },
    "detected_by": [],
}
mp = f"{dst}/meta.json"
if os.path.exists(mp):
    meta["detected_by"] = json.load(open(mp)).get("detected_by", [])
json.dump(meta, open(mp, "w"), indent=1)
print("adopted", dst)
