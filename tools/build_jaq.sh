#!/bin/sh
# Build the jaq binary from /repo's current working tree with debug
# assertions and overflow checks on (dev profile, optimised), into
# /verif/target/jaqbin.  A lock serialises concurrent builds.
set -eu
ROOT="$(cd "$(dirname "$0")/.." && pwd)"
REPO="${VERIF_REPO:-/repo}"
export CARGO_NET_OFFLINE=true
export CARGO_PROFILE_DEV_OPT_LEVEL=2
export CARGO_PROFILE_DEV_DEBUG=0
export CARGO_PROFILE_DEV_INCREMENTAL=false
mkdir -p "$ROOT/target"
exec flock "$ROOT/target/.jaqbin.lock" cargo build --manifest-path "$REPO/Cargo.toml" -p jaq --target-dir "$ROOT/target/jaqbin"
