#!/usr/bin/python3
"""Independent consumers of jaq's formatter output (C13, C14).

Reads JSON lines {"id": n, "kind": k, "in": ..., "out": hex} from the file given as first argument and
prints one line per failing case: {"id": n, "why": text}.  Byte strings travel as hex.
"""
import base64, csv, html, io, json, sys, urllib.parse

def unhex(h):
    return bytes.fromhex(h)

def s(b):
    # keep invalid UTF-8 distinguishable
    return b.decode("utf-8", "surrogateescape")

UNRESERVED = set(b"ABCDEFGHIJKLMNOPQRSTUVWXYZabcdefghijklmnopqrstuvwxyz0123456789-_.~")

def check(c):
    k = c["kind"]
    out = unhex(c["out"])
    if k == "html":
        want = unhex(c["in"])
        for ch in b"<>&'\"":
            # `&` may only start one of the entities
            if ch != ord("&") and ch in out:
                return "output contains the raw character %r" % chr(ch)
        rest = s(out)
        for ent in ("&lt;", "&gt;", "&amp;", "&#39;", "&quot;", "&apos;"):
            rest = rest.replace(ent, "")
        if "&" in rest:
            return "output contains a raw ampersand"
        if html.unescape(s(out)) != s(want):
            return "html.unescape gives %r" % html.unescape(s(out))
    elif k == "uri":
        want = unhex(c["in"])
        i = 0
        while i < len(out):
            ch = out[i]
            if ch == ord("%"):
                if i + 2 >= len(out) + 0 and i + 2 > len(out) - 1 + 0:
                    pass
                hx = out[i + 1:i + 3]
                if len(hx) != 2 or any(x not in b"0123456789ABCDEFabcdef" for x in hx):
                    return "malformed percent escape at %d" % i
                i += 3
                continue
            if ch not in UNRESERVED:
                return "output contains the reserved character %r unescaped" % chr(ch)
            i += 1
        if urllib.parse.unquote_to_bytes(out) != want:
            return "unquote gives %r" % urllib.parse.unquote_to_bytes(out)
    elif k == "uri-decode":
        src = unhex(c["in"])
        if urllib.parse.unquote_to_bytes(src) != out:
            return "urllib decodes to %r, jaq to %r" % (urllib.parse.unquote_to_bytes(src), out)
    elif k == "base64":
        want = unhex(c["in"])
        try:
            got = base64.b64decode(out, validate=True)
        except Exception as e:
            return "not valid base64: %s" % e
        if got != want:
            return "b64decode gives %r" % got
    elif k == "json":
        want = unhex(c["in"]).decode("utf-8")
        try:
            got = json.loads(out.decode("utf-8"))
        except Exception as e:
            return "not valid JSON: %s" % e
        if got != want:
            return "json.loads gives %r" % got
    elif k == "csv":
        want = [s(unhex(f)) for f in c["in"]]
        try:
            rows = list(csv.reader(io.StringIO(s(out), newline=""), strict=True))
        except Exception as e:
            return "csv.reader fails: %s" % e
        if len(want) == 0 or want == [""]:
            # documented exception: [] and [null] / [""] are written alike
            ok = rows == [] or rows == [[]] or rows == [want]
        else:
            ok = rows == [want]
        if not ok:
            return "csv.reader gives %r" % rows
    elif k == "tsv":
        want = [unhex(f) for f in c["in"]]
        if b"\n" in out or b"\r" in out or b"\0" in out:
            return "raw line break or NUL in a TSV row"
        got = []
        for f in out.split(b"\t") if (out or want) else []:
            r = bytearray()
            i = 0
            while i < len(f):
                if f[i] == 0x5c:
                    if i + 1 >= len(f):
                        return "dangling backslash"
                    m = {ord("t"): 9, ord("n"): 10, ord("r"): 13, ord("\\"): 0x5c, ord("0"): 0}.get(f[i + 1])
                    if m is None:
                        return "unknown escape \\%s" % chr(f[i + 1])
                    r.append(m)
                    i += 2
                else:
                    r.append(f[i])
                    i += 1
            got.append(bytes(r))
        if got != want:
            return "TSV reader gives %r" % got
    elif k == "toml":
        import tomllib
        want = json.loads(c["in"])
        try:
            got = tomllib.loads(out.decode("utf-8"))
        except Exception as e:
            return "tomllib rejects the document: %s" % e
        def norm(v):
            if isinstance(v, dict):
                return {k: norm(x) for k, x in v.items()}
            if isinstance(v, list):
                return [norm(x) for x in v]
            if isinstance(v, float) and v != v:
                return "NaN"
            if isinstance(v, float) and v == int(v) and abs(v) < 2**53:
                return float(v)
            return v
        if norm(got) != norm(want):
            return "tomllib gives %r" % got
    elif k == "xml":
        import xml.dom.minidom
        try:
            xml.dom.minidom.parseString(out)
        except Exception as e:
            return "expat rejects the document: %s" % e
    elif k == "csvdoc":
        want = [[s(unhex(f)) for f in row] for row in c["in"]]
        try:
            rows = list(csv.reader(io.StringIO(s(out), newline=""), strict=True))
        except Exception as e:
            return "csv.reader fails: %s" % e
        if rows != want:
            return "csv.reader gives %r" % rows
    else:
        return "unknown kind " + k
    return None

def main():
    with open(sys.argv[1], "rb") as f:
        for line in f:
            c = json.loads(line)
            try:
                why = check(c)
            except Exception as e:  # a consumer that crashes is a harness problem, not a verdict
                why = "HARNESS: %r" % e
            if why:
                print(json.dumps({"id": c["id"], "why": why}))

main()
