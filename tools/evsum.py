#!/usr/bin/env python3
import json,sys
e=json.load(open(f'/verif/evidence/{sys.argv[1]}.json'))
print(e['property_id'], e['tier'], 'wall', e['wall_s'], 'viol', e['violations'], 'eval', e['coverage']['evaluations'], 'distinct', e['coverage']['distinct_nontrivial'], 'excluded', e['coverage'].get('excluded_known'))
for k,v in e['coverage']['subchecks'].items(): print(' ', k, v['evaluations'], v['distinct_nontrivial'], v['classes'], v['wall_s'], 'exh' if v['exhaustive'] else '')
