#!/usr/bin/env python3
"""Regenerate /verif/MANIFEST.json from the table below (keeps it valid at all times)."""
import json, os, sys
ROOT = os.path.dirname(os.path.dirname(os.path.abspath(__file__)))

# id -> dict(category, text, note, technique, design_ref)
CHECKS = {}
def chk(id, category, text, note, technique, design_ref):
    CHECKS[id] = dict(category=category, text=text, note=note, technique=technique, design_ref=design_ref)

exec(open(os.path.join(ROOT, "tools", "manifest_table.py")).read())

props = [json.loads(l) for l in open(os.path.join(ROOT, "properties.jsonl"))]
checks = []
na = []
for p in props:
    id = p["id"]
    if id in CHECKS:
        c = CHECKS[id]
        checks.append({
            "property_id": id,
            "quick_cmd": f"./check {id} --tier quick",
            "thorough_cmd": f"./check {id} --tier thorough",
            "evidence_file": f"/verif/evidence/{id}.json",
            "replay_cmd_template": f"./check {id} --replay {{path}}",
            "engine": "verif-harness",
            "level_claimed": {"category": c["category"], "text": c["text"], "design_ref": c["design_ref"]},
            "level_note": c["note"],
            "technique": c["technique"],
        })
    else:
        na.append({"property_id": id, "reason": NOT_YET.get(id, "check not built yet (work in progress); no claim is made for this property")})

manifest = {
    "version": 1,
    "setup_cmd": "cd /verif/harness && CARGO_NET_OFFLINE=true cargo build --profile verif -p props && CARGO_NET_OFFLINE=true cargo build --profile verif -p vsync && /verif/tools/build_jaq.sh",
    "hooks": {
        "guard": "jaq_verif",
        "enable": "no hooks are needed: every check observes jaq through its public library API, the jaq binary, the system-call boundary and the file system; the guard name is reserved and unused",
        "baseline_off_cmd": "cd /repo && cargo test --workspace --no-fail-fast --offline",
        "source_commits": SOURCE_COMMITS,
        "add_only": True,
    },
    "engines": [
        {"name": "verif-harness", "path": "/verif/harness", "serves_properties": sorted(CHECKS.keys()),
         "kind_free_text": "Rust harness (cargo workspace with path dependencies on /repo/jaq-*): byte-stream-decoded generators driven by proptest's TestRunner on 16 workers with shrinking, exhaustive small-scope enumerations, model oracles (value model, reference interpreter), in-language metamorphic laws, independent consumers (dash, python) system-call level monitoring and fault injection (strace), child processes under stack/address-space limits, and (C05 thorough tier) cargo-fuzz/libFuzzer targets under /verif/fuzz"},
    ],
    "checks": checks,
    "not_applicable": na,
    "notes": NOTES,
}
json.dump(manifest, open(os.path.join(ROOT, "MANIFEST.json"), "w"), indent=1)
print("checks:", [c["property_id"] for c in checks], "not claimed:", [n["property_id"] for n in na])
