# Table read by gen_manifest.py
SOURCE_COMMITS = ["2839182"]
NOTES = "Property-based testing and fuzzing. ./check <ID> --tier quick|thorough; VERIF_SEED seeds every generator. Exit 0 held / 1 VIOLATION / 2 inconclusive (build problem, time limit). Known findings: /verif/known_findings.txt. source_commits lists fix: commits (unguarded by definition); there are no hook commits."
NOT_YET = {}

chk("C08", "exploration",
    "Model-based and algebraic-law testing: jaq's <, ==, >, sort, min/max, unique, group_by, bsearch, array subtraction, index/indices/contains and every object-key look-up path are compared against an independent total order written from the manual, exhaustively over all pairs of a 348-value atom set (every number representation and boundary, text/byte twins, one-level containers in both insertion orders), over triples of a 56-value core, and on random deep values with equal-but-differently-represented twins. Establishes agreement on everything enumerated/generated, not absence of counterexamples beyond.",
    "Trusted: the harness' model order (mval.rs, written from docs/corelang.dj 'Ordering'), Val's public constructors, proptest. Domain restricted as the property states (no NaN; integers beyond 2^53 only against integers/infinities).",
    "model-based PBT + exhaustive small-scope pairs/triples", "DESIGN.md §10")
