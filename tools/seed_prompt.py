#!/usr/bin/env python3
"""Print the prompt given to an independent sub-agent that seeds a property-breaking change.
The prompt contains only the text of the property (title, statement, quantifier, anchored files) -- nothing from /verif's machinery."""
import json, sys
pid = sys.argv[1]
p = [json.loads(l) for l in open('/verif/properties.jsonl') if json.loads(l)['id'] == pid][0]
print(f"""You are helping to evaluate a verification effort for the Rust project 01mf02/jaq (a clone of the jq JSON query language). You have your own scratch git worktree of the project at /tmp/seed/{pid} (a detached checkout of the project's current HEAD). Work ONLY inside /tmp/seed/{pid} and write your results to /tmp/seed-out/{pid}/ . Never read, write or run anything in /repo or /verif (they are off limits), never commit anywhere, and do not use the network (the sandbox has none; always pass --offline to cargo, e.g. `CARGO_NET_OFFLINE=true cargo build --offline -p jaq`).

The project is supposed to satisfy this semantic property:

  Title: {p['title']}
  Statement: {p['statement']}
  Scope (what it quantifies over): {p['quantifier']['text']}
  Source files that implement it (starting points): {', '.join(p['anchors']['files'])}

YOUR TASK: produce TWO independent, realistic source changes ("seeded defects") to the project, each of which BREAKS this property while (a) the workspace still compiles and (b) the project's existing test suite still passes completely (`cd /tmp/seed/{pid} && CARGO_NET_OFFLINE=true cargo test --workspace --no-fail-fast --offline` -- 380 tests pass on the unchanged tree). The two changes must touch different mechanisms (different functions / different root causes).

Requirements for each change:
 * It must look like a plausible mistake or well-meant refactoring/optimisation a maintainer could make (an off-by-one, a swapped operand order, a dropped check, a changed comparison, an eager evaluation, a cache, a wrong index base ...), NOT sabotage such as `if input == 42 {{ panic!() }}` keyed on a magic constant.
 * It must NOT be something ordinary use would expose at once. Prefer defects that need something specific to manifest: an unusual input or boundary value, a particular combination or nesting of language features, a multi-step sequence of operations, a fault/crash at a particular point, a particular interleaving, or two cooperating sites that each look fine alone. Simple everyday programs and inputs should still behave correctly.
 * Keep it small (typically 1-15 changed lines), in the project's Rust sources (or its .jq definition files), not in tests or docs.
 * Provide a demonstration: a shell script (or a Rust test file plus the exact command to run it) that FAILS (non-zero exit) on the changed tree and PASSES (exit 0) on the unchanged tree, showing concretely the input / program / scenario on which the property is violated and what the correct result would be. The demonstration must run offline from the worktree root, e.g. by building `cargo build --offline -p jaq` and invoking `target/debug/jaq`.

Procedure: read the relevant code; design change 1; apply it in the worktree; build; run the full test suite and confirm all tests still pass; run your demonstration and confirm it fails; save `git diff` as /tmp/seed-out/{pid}/patch1.diff; revert with `git checkout -- .`; confirm the demonstration passes on the unchanged tree; then repeat for change 2 (patch2.diff). If a change makes an existing test fail, pick a different change.

Deliver in /tmp/seed-out/{pid}/ : patch1.diff, demo1.sh (or demo1.rs + how to run it in notes), notes1.md (what the change is, why it breaks the property, what exactly is needed for it to manifest, the commands you ran and what you observed: test-suite result with the change, demonstration result with and without the change); likewise patch2.diff, demo2.*, notes2.md. Patches must apply with `git apply` at the worktree root on a clean checkout. Leave the worktree itself clean (`git checkout -- .`, no untracked files other than target/) when you finish.

Your final answer should summarise, for each change: the files/functions touched, the triggering condition, and confirmation of the three facts (compiles, 380 tests pass, demonstration fails with / passes without the change).""")
