#!/usr/bin/env python3
"""Third-round prompt: ONE change, mechanisms of rounds 1 and 2 named as taken. Only the property text is given."""
import json, sys, glob, re
pid = sys.argv[1]
p = [json.loads(l) for l in open('/verif/properties.jsonl') if json.loads(l)['id'] == pid][0]
taken = []
for line in open('/verif/DESIGN.md'):
    m = re.match(r'\| (C\d\d-\d) \| \d \| `([^`]*)` \| (.*?) \| ', line)
    if m and m.group(1).startswith(pid):
        taken.append(f"   - {m.group(2)}: {m.group(3)}")
W = f"/tmp/seed/{pid}r3"; O = f"/tmp/seed-out/{pid}r3"
print(f"""You are helping to evaluate a verification effort for the Rust project 01mf02/jaq (a clone of the jq JSON query language). You have your own scratch git worktree of the project at {W} (a detached checkout of the project's current HEAD). Work ONLY inside {W} and write your results to {O}/ . Never read, write or run anything in /repo or /verif (they are off limits), never commit anywhere, and do not use the network (the sandbox has none; always pass --offline to cargo, e.g. `CARGO_NET_OFFLINE=true cargo build --offline -p jaq`).

The project is supposed to satisfy this semantic property:

  Title: {p['title']}
  Statement: {p['statement']}
  Scope (what it quantifies over): {p['quantifier']['text']}
  Source files that implement it (starting points): {', '.join(p['anchors']['files'])}

YOUR TASK: produce ONE realistic source change ("seeded defect") to the project that BREAKS this property while (a) the workspace still compiles and (b) the project's existing test suite still passes completely (`cd {W} && CARGO_NET_OFFLINE=true cargo test --workspace --no-fail-fast --offline` -- 382 tests pass on the unchanged tree). You have about 15 minutes: be decisive, keep it small.

These mechanisms were already used by earlier changes; pick a DIFFERENT function / root cause / aspect of the property:
{chr(10).join(taken)}

Requirements:
 * It must look like a plausible mistake or well-meant refactoring/optimisation a maintainer could make (an off-by-one, a swapped operand order, a dropped check, a changed comparison, an eager evaluation, a cache, a wrong index base, a fast path ...), NOT sabotage keyed on a magic constant.
 * It must NOT be something ordinary use would expose at once. Prefer defects that need something specific to manifest: an unusual input or boundary value, a particular combination or nesting of language features, a multi-step sequence of operations, or two cooperating sites that each look fine alone. Simple everyday programs and inputs should still behave correctly.
 * Keep it small (typically 1-15 changed lines), in the project's Rust sources (or its .jq definition files), not in tests or docs.
 * Provide a demonstration demo1.sh: a shell script that FAILS (non-zero exit) on the changed tree and PASSES (exit 0) on the unchanged tree, showing concretely the input / program on which the property is violated and what the correct result would be. It must run offline from the worktree root: it should itself run `CARGO_NET_OFFLINE=true cargo build --offline -q -p jaq` and then invoke `target/debug/jaq`.

Procedure: read the relevant code; design the change; apply it in the worktree; build; run the full test suite and confirm all tests still pass; run your demonstration and confirm it fails; save `git diff` as {O}/patch1.diff; revert with `git checkout -- .`; confirm the demonstration passes on the unchanged tree. If the change makes an existing test fail, pick a different change.

Deliver in {O}/ : patch1.diff, demo1.sh, notes1.md (what the change is, why it breaks the property, what exactly is needed for it to manifest, the commands you ran and what you observed). The patch must apply with `git apply` at the worktree root on a clean checkout. Leave the worktree itself clean (`git checkout -- .`, no untracked files other than target/) when you finish.

Your final answer should summarise: the files/functions touched, the triggering condition, and confirmation of the three facts (compiles, 382 tests pass, demonstration fails with / passes without the change).""")
