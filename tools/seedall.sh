#!/bin/sh
# seedall.sh: run every seeded change against the quick check of its property (regression of the detection table)
cd /verif || exit 2
for d in seeded/*/; do
  n=$(basename "$d"); id=${n%-*}
  tools/seedtest.sh "$n" "$id" 2>&1 | grep "^seed" 
done
