#!/bin/sh
# seedtest.sh <seed-dir-name> [check ids...]: apply /verif/seeded/<name>/patch.diff to /repo, run the quick
# checks (default: the seed's own property), undo the change straight afterwards, and record the outcome in
# meta.json ("detected_by").  Never leaves /repo modified.
NAME="$1"; shift
DIR=/verif/seeded/$NAME
ID=${NAME%-*}
[ $# -eq 0 ] && set -- "$ID"
cd /verif || exit 2
git -C /repo diff --quiet || { echo "/repo has uncommitted changes"; exit 2; }
trap 'git -C /repo checkout -- . ' EXIT INT TERM
git -C /repo apply "$DIR/patch.diff" || { echo "patch does not apply"; exit 2; }
for C in "$@"; do
  # evidence and failure files describe the unchanged tree: set them aside during the seeded run
  [ -f evidence/$C.json ] && cp evidence/$C.json /verif/target/evidence-$C.keep
  OUT=$(VERIF_SEED=${VERIF_SEED:-0} ./check "$C" --tier quick 2>&1); RC=$?
  V=$(printf '%s\n' "$OUT" | grep -c '^VIOLATION')
  [ -f /verif/target/evidence-$C.keep ] && mv /verif/target/evidence-$C.keep evidence/$C.json
  echo "seed $NAME check $C: exit $RC, $V violation line(s)"
  printf '%s\n' "$OUT" | grep -A2 '^VIOLATION\|^INCONCLUSIVE' | cut -c1-600 | head -12
  python3 - "$DIR/meta.json" "$C" "$RC" "$V" <<'PY'
import json,sys
p,c,rc,v=sys.argv[1:5]
m=json.load(open(p))
d=[x for x in m.get("detected_by",[]) if x.get("check")!=c]
d.append({"check":c,"tier":"quick","exit":int(rc),"violation_lines":int(v),"detected":int(rc)==1 and int(v)>0})
m["detected_by"]=d
json.dump(m,open(p,"w"),indent=1)
PY
done
git -C /repo checkout -- .
trap - EXIT INT TERM
