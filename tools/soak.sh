#!/bin/sh
# soak.sh <seeds> <check ids...>: run the quick tier of the given checks for seeds 1..<seeds> and report every
# run that does not end with exit 0 (used through `vp run` to look for alarms on the unchanged tree).
N="$1"; shift
cd "$(dirname "$0")/.." || exit 2
for s in $(seq 1 "$N"); do
  for c in "$@"; do
    OUT=$(VERIF_SEED=$s ./check "$c" --tier quick 2>&1); RC=$?
    if [ $RC -ne 0 ]; then echo "=== seed $s check $c exit $RC"; printf '%s\n' "$OUT" | grep -v "^  *[0-9]*:\|^   *at " | tail -8 | cut -c1-900; else echo "ok seed $s $c: $(printf '%s\n' "$OUT" | tail -1)"; fi
  done
done
