#!/bin/sh
# verify_seed.sh <ID> <n>: confirm independently, in the scratch worktree /tmp/seed/<ID> (checked out at
# /repo's HEAD), that seeded change n (a) applies and compiles, (b) keeps the repository's test suite
# green, (c) makes its demonstration fail, and (d) the demonstration passes without it.
ID="$1"; N="$2"
WT=/tmp/seed/$ID; OUT=/tmp/seed-out/$ID
export CARGO_NET_OFFLINE=true
HEAD=$(git -C /repo rev-parse HEAD)
cd "$WT" || exit 2
git checkout -q -- . ; git checkout -q --detach "$HEAD" || exit 2
res() { echo "$1" > "$OUT/verify$N.txt"; echo "$ID/$N: $1"; }
git apply "$OUT/patch$N.diff" || { res "patch-does-not-apply at $HEAD"; exit 1; }
cargo build --offline -p jaq >"$OUT/verify$N.build.log" 2>&1 || { git checkout -q -- .; res "does-not-compile"; exit 1; }
cargo test --workspace --no-fail-fast --offline >"$OUT/verify$N.test.log" 2>&1
T=$(grep -E "^test result" "$OUT/verify$N.test.log" | awk '{p+=$4; f+=$6} END {print p" passed "f" failed"}')
DEMO=$(ls "$OUT"/demo$N.sh 2>/dev/null | head -1)
if [ -z "$DEMO" ]; then git checkout -q -- .; res "tests: $T; no demo$N.sh (see notes)"; exit 1; fi
SH=sh; head -1 "$DEMO" | grep -q bash && SH=bash
$SH "$DEMO" >"$OUT/verify$N.demo-with.log" 2>&1; W=$?
git checkout -q -- .
$SH "$DEMO" >"$OUT/verify$N.demo-without.log" 2>&1; WO=$?
res "head=$HEAD tests-with-change: $T; demo exit with change: $W; without: $WO"
